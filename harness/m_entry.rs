// Common machinery for the find-side harnesses: symbolic std::fs::Metadata, the symbolic
// stat()/lstat() world, Dependencies, entry constructors.  Lives in `entry` because it
// needs WalkEntry's private fields.
include!(concat!(env!("FINDUTILS_VERIF_DIR"), "/harness/common_stubs.rs"));
use super::*;
use std::cell::RefCell;
use std::os::unix::fs::MetadataExt;
pub use uucore::libc;

/// Build a std::fs::Metadata whose stat record is symbolic (kernel contract: nsec in 0..10^9).
pub fn any_metadata() -> (Metadata, libc::stat64) {
    let mut st: libc::stat64 = unsafe { std::mem::zeroed() };
    st.st_mode = kani::any();
    st.st_ino = kani::any();
    st.st_nlink = kani::any();
    st.st_uid = kani::any();
    st.st_gid = kani::any();
    st.st_size = kani::any();
    st.st_mtime = kani::any();
    st.st_mtime_nsec = kani::any();
    st.st_atime = kani::any();
    st.st_atime_nsec = kani::any();
    st.st_ctime = kani::any();
    st.st_ctime_nsec = kani::any();
    kani::assume(st.st_size >= 0);
    kani::assume(st.st_mtime_nsec >= 0 && st.st_mtime_nsec < 1_000_000_000);
    kani::assume(st.st_atime_nsec >= 0 && st.st_atime_nsec < 1_000_000_000);
    kani::assume(st.st_ctime_nsec >= 0 && st.st_ctime_nsec < 1_000_000_000);
    (metadata_from(st), st)
}

pub fn metadata_from(st: libc::stat64) -> Metadata {
    let mut m: Metadata = unsafe { std::mem::zeroed() };
    let off = std::mem::size_of::<Metadata>() - std::mem::size_of::<libc::stat64>();
    unsafe { std::ptr::write((&mut m as *mut Metadata as *mut u8).add(off) as *mut libc::stat64, st) };
    m
}

pub fn entry_at(path: &str, meta: Metadata, depth: usize, follow: Follow) -> WalkEntry {
    WalkEntry { inner: Entry::Explicit(PathBuf::from(path), depth), follow, meta: Ok(meta).into() }
}
pub fn entry_with(meta: Metadata, depth: usize, follow: Follow) -> WalkEntry { entry_at("a", meta, depth, follow) }
pub fn walk_error(raw: i32) -> WalkError { WalkError { path: None, depth: None, raw: Some(raw) } }
pub fn any_follow() -> Follow {
    match kani::any::<u8>() % 3 { 0 => Follow::Never, 1 => Follow::Roots, _ => Follow::Always }
}
pub fn is_type(mode: u32, t: u32) -> bool { (mode & libc::S_IFMT) == t }

pub struct Deps { pub out: RefCell<Vec<u8>> }
impl Deps { pub fn new() -> Self { Deps { out: RefCell::new(Vec::new()) } } }
impl crate::find::Dependencies for Deps {
    fn get_output(&self) -> &RefCell<dyn std::io::Write> { &self.out }
    fn now(&self) -> std::time::SystemTime { std::time::SystemTime::UNIX_EPOCH }
}

/// The symbolic file system seen through stat()/lstat()/readlink() for the single path under test.
pub struct World { pub l: Option<Metadata>, pub s: Option<Metadata>, pub s_err: i32 }
pub static mut WORLD: World = World { l: None, s: None, s_err: 0 };
pub static mut NSTAT: usize = 0;
pub static mut NLSTAT: usize = 0;

pub fn stat_stub<P: AsRef<Path>>(_p: P) -> io::Result<Metadata> {
    unsafe {
        NSTAT += 1;
        match &(*std::ptr::addr_of!(WORLD)).s {
            Some(m) => Ok(m.clone()),
            None => Err(io::Error::from_raw_os_error((*std::ptr::addr_of!(WORLD)).s_err)),
        }
    }
}
pub fn lstat_stub<P: AsRef<Path>>(_p: P) -> io::Result<Metadata> {
    unsafe {
        NLSTAT += 1;
        match &(*std::ptr::addr_of!(WORLD)).l {
            Some(m) => Ok(m.clone()),
            None => Err(io::Error::from_raw_os_error(libc::ENOENT)),
        }
    }
}

/// Symbolic world under the kernel's contract: stat == lstat unless lstat says symlink;
/// stat never returns a symlink; a symlink's stat may fail with `s_err`.
/// Returns (lstat record, stat record, stat succeeded, stat errno).
pub fn any_world(errs: &[i32]) -> (libc::stat64, libc::stat64, bool, i32) {
    let (l, lst) = any_metadata();
    let (s, sst) = any_metadata();
    let l_is_link = is_type(lst.st_mode, libc::S_IFLNK);
    let s_ok: bool = kani::any();
    let k: usize = kani::any();
    kani::assume(k < errs.len());
    let s_err = errs[k];
    if !l_is_link {
        kani::assume(s_ok && sst.st_mode == lst.st_mode && sst.st_ino == lst.st_ino && sst.st_nlink == lst.st_nlink
            && sst.st_uid == lst.st_uid && sst.st_gid == lst.st_gid && sst.st_size == lst.st_size);
    }
    kani::assume(!is_type(sst.st_mode, libc::S_IFLNK));
    unsafe { WORLD = World { l: Some(l), s: if s_ok { Some(s) } else { None }, s_err }; NSTAT = 0; NLSTAT = 0; }
    (lst, sst, s_ok, s_err)
}

// @harness props=C10,C13,C14,C15,C16,C03 tier=quick cost=3
// @exec std::fs::Metadata accessors (mode, ino, nlink, uid, gid, len, times, file_type) over the fabricated record
// @bounds loop-free
/// Validates the Metadata layout trick against std's own accessors.
#[kani::proof]
fn metadata_layout_selfcheck() {
    let (m, st) = any_metadata();
    assert!(m.mode() == st.st_mode);
    assert!(m.ino() == st.st_ino);
    assert!(m.nlink() == st.st_nlink);
    assert!(m.uid() == st.st_uid);
    assert!(m.gid() == st.st_gid);
    assert!(m.len() == st.st_size as u64);
    assert!(m.mtime() == st.st_mtime && m.mtime_nsec() == st.st_mtime_nsec);
    assert!(m.atime() == st.st_atime && m.atime_nsec() == st.st_atime_nsec);
    assert!(m.ctime() == st.st_ctime && m.ctime_nsec() == st.st_ctime_nsec);
    let ft: FileType = m.file_type().into();
    assert!(ft.is_dir() == is_type(st.st_mode, libc::S_IFDIR));
    assert!(ft.is_symlink() == is_type(st.st_mode, libc::S_IFLNK));
    assert!(ft.is_file() == is_type(st.st_mode, libc::S_IFREG));
    kani::cover!(ft.is_dir());
    kani::cover!(ft.is_symlink());
}
#[kani::proof]
fn metadata_layout_selfcheck_canary() {
    let (m, st) = any_metadata();
    assert!(m.ino() == st.st_nlink); // wrong on purpose: must FAIL
}

/// Reference for "the status record the follow mode selects" (C13): lstat under -P, stat under -L
/// (lstat for a dangling link), stat under -H for depth 0 only.  None = the stat error is reported.
pub fn selected_record(lst: libc::stat64, sst: libc::stat64, s_ok: bool, s_err: i32, follows: bool) -> Option<libc::stat64> {
    if follows {
        if s_ok { Some(sst) } else if s_err == libc::ENOENT || s_err == libc::ENOTDIR { Some(lst) } else { None }
    } else {
        Some(lst)
    }
}

// @harness props=C13 tier=quick cost=60 flags=nomem
// @exec WalkEntry::{new,metadata,get_metadata,depth,follow}, Follow::{follow_at_depth,metadata_at_depth}, WalkError::{from,is_not_found,kind}
// @sym lstat record and stat record (12 fields each, full width), stat success flag, stat errno in {ENOENT,ENOTDIR,ELOOP,EACCES}, follow mode P/H/L, depth 0..2
// @bounds one path; depth <= 2 (only depth==0 vs >0 matters to the code)
// @assume kernel contract: stat()==lstat() unless lstat says symlink; stat() never reports a symlink
/// WalkEntry::metadata() returns exactly the record the follow mode selects.
#[kani::proof]
#[kani::unwind(3)]
#[kani::stub(alloc::fmt::format, fmt_stub)]
#[kani::stub(std::fs::metadata, stat_stub)]
#[kani::stub(std::fs::symlink_metadata, lstat_stub)]
fn c13_entry_metadata_record() {
    let (lst, sst, s_ok, s_err) = any_world(&[libc::ENOENT, libc::ENOTDIR, libc::ELOOP, libc::EACCES]);
    let follow = any_follow();
    let depth: usize = kani::any();
    kani::assume(depth <= 2);
    let entry = WalkEntry::new("a", depth, follow);
    let want = selected_record(lst, sst, s_ok, s_err, follow.follow_at_depth(depth));
    match (entry.metadata(), want) {
        (Ok(m), Some(w)) => {
            assert!(m.mode() == w.st_mode && m.ino() == w.st_ino && m.uid() == w.st_uid && m.gid() == w.st_gid);
            assert!(m.nlink() == w.st_nlink && m.len() == w.st_size as u64);
        }
        (Err(e), None) => { std::mem::forget(e); }
        _ => assert!(false, "wrong record selected"),
    }
    kani::cover!(follow == Follow::Roots && depth == 0 && s_ok && is_type(lst.st_mode, libc::S_IFLNK));
    kani::cover!(follow == Follow::Always && !s_ok && s_err == libc::ENOENT);
    kani::cover!(follow == Follow::Roots && depth == 1);
    std::mem::forget(entry);
}
#[kani::proof]
#[kani::unwind(3)]
#[kani::stub(alloc::fmt::format, fmt_stub)]
#[kani::stub(std::fs::metadata, stat_stub)]
#[kani::stub(std::fs::symlink_metadata, lstat_stub)]
fn c13_entry_metadata_record_canary() {
    let (lst, _sst, _s_ok, _s_err) = any_world(&[libc::ENOENT]);
    let follow = any_follow();
    let entry = WalkEntry::new("a", 0, follow);
    // wrong on purpose: claims lstat is always used
    if let Ok(m) = entry.metadata() { assert!(m.mode() == lst.st_mode); }
    std::mem::forget(entry);
}
