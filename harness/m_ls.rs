// harnesses for module m_ls (included into /repo under cfg(kani))
