#!/usr/bin/env python3
"""C11: operand-taking primaries through the real parser (acceptance only).

build_top_level_matcher is executed from MIR on symbolic token sequences over a vocabulary of operand-taking primaries
(-type -xtype -size -inum -links -uid -mtime -mmin -maxdepth -mindepth -regextype -printf, the -newerXY family spelled
correctly and with junk before / after) and operand words (valid values, near-misses, arbitrary strings).  The operand
parsers run from MIR: convert_arg_to_number, convert_arg_to_comparable_value(_and_suffix), parse_str_to_newer_args,
TypeMatcher/XtypeMatcher::new, SizeMatcher::new + Unit::from_str, RegexType::from_str, Printf::new -> FormatString::parse.
The regex crate is a model: Regex::new(pattern) keeps the PATTERN TEXT FOUND IN THE MIR and captures() is Python's re on
it (the patterns used are in the common subset of both syntaxes), so an anchoring mistake in a pattern is the code's, not
the model's.  Reference: a sentence is accepted iff it is in the grammar and every operand is valid for its primary."""
import itertools, json, os, re, sys, time, z3
import loader, models, interp, natives_fs
from interp import Machine, SliceRef, RStr, Ptr, Struct, Enum, Opaque, BoxObj, Unsupported, RustPanic, PathAbort, UNIT
from interp import VecObj as VecObj, BoxObj as BoxObj, Ptr as Ptr
from models import Some, NONE, Ok, Err, deref
from natives_fs import PStr, text_of
import c16_printf

NUM = r"[+-]?[0-9]+"
VALID = {
    "-type": lambda s: s in list("bcdpfls"), "-xtype": lambda s: s in list("bcdpfls"),
    "-size": lambda s: re.fullmatch(NUM + "[cwbkMG]?", s) is not None and int(re.match(NUM, s).group().lstrip("+-")) < 2 ** 64,
    "-inum": lambda s: re.fullmatch(NUM, s) is not None and int(s.lstrip("+-")) < 2 ** 64,
    # -maxdepth/-mindepth are options, not among the operands the property lists; Rust's usize parser takes a leading '+' (GNU does not): not demanded here
    "-maxdepth": lambda s: re.fullmatch(r"\+?[0-9]+", s) is not None and int(s) < 2 ** 64,
    "-regextype": lambda s: s in ("emacs", "grep", "posix-basic", "posix-extended", "ed", "sed"),
    "-printf": lambda s: not (s.endswith("%") and not s.endswith("%%")) and not (s.endswith("\\") and not s.endswith("\\\\")),
    "-newer": lambda s: True,
    "-user": lambda s: s in ("root", "daemon") or (re.fullmatch(r"[0-9]+", s) is not None and int(s) < 2 ** 32),
    "-group": lambda s: s in ("root", "daemon") or (re.fullmatch(r"[0-9]+", s) is not None and int(s) < 2 ** 32),
}
for a, b in (("-links", "-inum"), ("-uid", "-inum"), ("-gid", "-inum"), ("-mtime", "-inum"), ("-mmin", "-inum"), ("-mindepth", "-maxdepth")):
    VALID[a] = VALID[b]
NEWER_OK = ["-newer", "-newermm", "-neweram", "-anewer"]
NEWER_JUNK = ["-newermmx", "-xnewermm", "-newerzz", "-newerm", "--newermm"]
PRIMS = ["-type", "-xtype", "-size", "-inum", "-links", "-uid", "-mtime", "-mmin", "-maxdepth", "-mindepth", "-regextype", "-printf"] + NEWER_OK
OPERANDS = ["f", "d", "q", "", "ff", "5", "+5", "-5", "++5", "-+5", "5k", "+5M", "5x", "x5k", "5kk", "+", "99999999999999999999", "18446744073709551615", "x",
            "emacs", "posix-extended", "sed", "bogus", "%p\\n", "%", "a\\", "%%", "ref"]
OTHERS = ["-print", "!", "-o", "(", ")"]


def ref_accepts(words):
    """grammar of C01's reference + one-operand primaries (the operand is whatever token follows)"""
    pos = [0]

    class Rej(Exception):
        pass

    def peek():
        return words[pos[0]] if pos[0] < len(words) else None

    def primary():
        t = peek()
        if t is None: raise Rej("missing operand")
        if t == "(":
            pos[0] += 1
            if peek() == ")": raise Rej("empty parentheses")
            expr()
            if peek() != ")": raise Rej("missing )")
            pos[0] += 1
            return
        if t == "-print":
            pos[0] += 1
            return
        if t in ("-exec", "-execdir"):
            i = pos[0]
            j = i + 1
            while j < len(words) and words[j] != ";" and not (words[j - 1] == "{}" and words[j] == "+"):
                j += 1
            if j == len(words): raise Rej("no terminator for " + t)
            if words[j] == ";":
                if j < i + 2: raise Rej("no command for " + t)
            else:
                if j < i + 3: raise Rej("no command for %s ... {} +" % t)
                if sum(1 for w in words[i + 2:j] if w == "{}") != 1: raise Rej("more than one {} with +")
            pos[0] = j + 1
            return
        if t in PRIMS or t in ("-user", "-group"):
            pos[0] += 1
            op = peek()
            if op is None: raise Rej("missing argument to " + t)
            pos[0] += 1
            key = "-newer" if t in NEWER_OK else t
            if not VALID[key](op): raise Rej("invalid operand %r to %s" % (op, t))
            return
        raise Rej("unexpected %s" % t)

    def notx():
        if peek() == "!":
            pos[0] += 1
            return notx()
        return primary()

    def andx():
        notx()
        while peek() is not None and peek() not in ("-o", ",", ")"):
            if peek() == "-a": pos[0] += 1
            notx()

    def orx():
        andx()
        while peek() == "-o":
            pos[0] += 1
            andx()

    def expr():
        orx()
        while peek() == ",":
            pos[0] += 1
            orx()
    if not words:
        return True, ""
    try:
        expr()
        if pos[0] != len(words): raise Rej("trailing %s" % words[pos[0]])
        return True, ""
    except Rej as e:
        return False, str(e)


def natives():
    def pin(m, v):
        return RStr(text_of(m, v))

    def rerun(name, npin):
        """run the real function after pinning its first npin string arguments (their characters are inspected)"""
        def f(m, args):
            fn = m.index[name]
            return m.run(fn, [pin(m, a) if k < npin else a for k, a in enumerate(args)])
        return f

    def regex_new(m, args):
        return Ok(Struct("RegexV", [text_of(m, args[0])]))

    def captures(m, args):
        pat, text = deref(args[0]).fields[0], text_of(m, args[1])
        mo = re.search(pat, text)
        if mo is None:
            return NONE()
        return Some(Struct("CapturesV", [[mo.group(0)] + list(mo.groups())]))

    def cap_index(m, args):
        g = deref(args[0]).fields[0][args[1]]
        if g is None:
            raise RustPanic("no group at index %d" % args[1])
        return RStr(g)

    def cap_get(m, args):
        g = deref(args[0]).fields[0][args[1]]
        return Some(Struct("MatchV", [g])) if g is not None else NONE()

    def parse_int(m, args, bits=64):
        s = text_of(m, args[0])
        if re.fullmatch(r"\+?[0-9]+", s) and int(s) < 2 ** bits:
            return Ok(int(s))
        return Err(Opaque("ParseIntError"))
    def parse_signed(m, args, bits):
        s = text_of(m, args[0])
        if re.fullmatch(r"[+-]?[0-9]+", s) and -(2 ** (bits - 1)) <= int(s) < 2 ** (bits - 1):
            return Ok(int(s))
        return Err(Opaque("ParseIntError"))

    def parse_model(m, args, raw):
        mu = re.search(r"parse::<u(8|16|32|64|size)>$", raw)
        if mu:
            return parse_int(m, args, 64 if mu.group(1) == "size" else int(mu.group(1)))
        ms = re.search(r"parse::<i(8|16|32|64|128|size)>$", raw)
        if ms:
            return parse_signed(m, args, 64 if ms.group(1) == "size" else int(ms.group(1)))
        ty = re.search(r"parse::<(.*)>$", raw).group(1).split("::")[-1]
        return m.call("<%s as FromStr>::from_str" % ty, [RStr(text_of(m, args[0]))])
    models.EXACT["str::parse"] = parse_model
    def from_name(kind):
        def f(m, args):
            name = text_of(m, args[0])
            ids = {"root": 0, "daemon": 1}
            if name in ids:
                return Ok(Some(Struct(kind, [RStr(name), Opaque("passwd"), Struct("Id", [ids[name]]), Opaque("rest"), Opaque("rest"), Opaque("rest"), Opaque("rest")])))
            return Ok(NONE())
        return f
    nat = c16_printf.str_natives()
    c16_printf.with_closures(nat)
    nat.update({"User::from_name": from_name("User"), "Group::from_name": from_name("Group"), "Uid::as_raw": lambda m, a: deref(a[0]).fields[0], "Gid::as_raw": lambda m, a: deref(a[0]).fields[0],
                "SingleExecMatcher::new": lambda m, a: Ok(Struct("SingleExecMatcher", [])), "MultiExecMatcher::new": lambda m, a: Ok(Struct("MultiExecMatcher", [])),
                "Regex::new": regex_new, "Regex::captures": captures, "<Captures as Index>::index": cap_index, "Captures::get": cap_get,
                "Match::as_str": lambda m, a: RStr(deref(a[0]).fields[0]), "str::parse": None,
                "Printf::new": rerun("Printf::new", 1), "parse_str_to_newer_args": rerun("parse_str_to_newer_args", 1),
                "convert_arg_to_comparable_value_and_suffix": rerun("convert_arg_to_comparable_value_and_suffix", 2),
                "convert_arg_to_comparable_value": rerun("convert_arg_to_comparable_value", 2), "convert_arg_to_number": rerun("convert_arg_to_number", 2),
                "NewerOptionMatcher::new": lambda m, a: Ok(Struct("NewerOptionMatcher", [])), "NewerMatcher::new": lambda m, a: Ok(Struct("NewerMatcher", [])),
                "<str as ToString>::to_string": lambda m, a: RStr(text_of(m, a[0])),
                "<str as FromStr>::from_str": None, "<String as PartialEq<str>>::eq": None})
    nat = {k: v for k, v in nat.items() if v is not None}
    return nat


def explore(n, funcs, index, enums, vocab):
    res = {"tokens": n, "paths": 0, "sentences_checked": 0, "violations": [], "unsupported": {}, "samples": [], "accepting_paths": 0}
    m = Machine(funcs, index, enums, models, natives=natives(), max_steps=2000000)
    toks = [z3.Int("tok%d" % i) for i in range(n)]
    m.base_constraints = [z3.And(t >= 0, t < len(vocab)) for t in toks]
    m.pending = [[]]
    t0 = time.time()
    while m.pending:
        m.reset_path(m.pending.pop())
        args = SliceRef([RStr(sym=toks[i], vocab=vocab) for i in range(n)])
        cfg = [m.call("<Config as Default>::default", [])]
        try:
            r = m.call("build_top_level_matcher", [args, Ptr(cfg, 0)])
            outcome = "accept" if r.variant == "Ok" else "reject"
        except RustPanic as e:
            outcome = "panic: " + str(e)[:80]
        except Unsupported as e:
            res["unsupported"][str(e)[:100]] = res["unsupported"].get(str(e)[:100], 0) + 1
            continue
        except PathAbort:
            continue
        res["paths"] += 1
        res["accepting_paths"] += outcome == "accept"
        s = z3.Solver()
        for c in m.base_constraints + m.pc: s.add(c)
        while s.check() == z3.sat:
            mod = s.model()
            vals = [mod.eval(t, model_completion=True).as_long() for t in toks]
            s.add(z3.Or([t != v for t, v in zip(toks, vals)]))
            words = [vocab[v] for v in vals]
            res["sentences_checked"] += 1
            want, why = ref_accepts(words)
            if outcome.startswith("panic"):
                res["violations"].append({"tokens": words, "what": outcome})
            elif (outcome == "accept") != want:
                res["violations"].append({"tokens": words, "what": "implementation %ss, reference %s%s" % (outcome, "accepts" if want else "rejects", (" (%s)" % why) if why else "")})
        if len(res["samples"]) < 4 and outcome == "accept" and n >= 2:
            mod0 = None
    res["wall_s"] = round(time.time() - t0, 2)
    res["solver_calls"] = m.stats["solver_calls"]
    res["functions_executed"] = sorted(m.executed)
    return res


VALUE_WORDS = ["0", "+0", "-0", "5", "+5", "-5", "007", "+18446744073709551615", "-18446744073709551615", "18446744073709551616", "5k", "+5M", "-1G", "3c", "2w", "1b", "", "+", "k", "5 ", " 5", "++5", "-+5", "+-5", "--5", "+5+", "-+5k"]


def explore_values(funcs, index, enums):
    """C14: the operand text -> (comparison, N[, unit]) conversion, from MIR, on a symbolic word of VALUE_WORDS"""
    res = {"kind": "operand values", "paths": 0, "checks": 0, "violations": [], "unsupported": {}, "samples": []}
    m = Machine(funcs, index, enums, models, natives=natives(), max_steps=2000000)
    w = z3.Int("word")
    both = z3.Bool("with_suffix")
    m.base_constraints = [w >= 0, w < len(VALUE_WORDS)]
    m.pending = [[]]
    t0 = time.time()
    while m.pending:
        m.reset_path(m.pending.pop())
        try:
            suffix = m.decide(both)
            fn = "convert_arg_to_comparable_value_and_suffix" if suffix else "convert_arg_to_comparable_value"
            r = m.call(fn, [RStr("-size" if suffix else "-links"), RStr(sym=w, vocab=VALUE_WORDS)])
        except RustPanic as e:
            res["violations"].append({"what": "panic: " + str(e)[:80]})
            res["paths"] += 1
            continue
        except Unsupported as e:
            res["unsupported"][str(e)[:100]] = res["unsupported"].get(str(e)[:100], 0) + 1
            continue
        except PathAbort:
            continue
        res["paths"] += 1
        s = z3.Solver()
        for c in m.base_constraints + m.pc: s.add(c)
        while s.check() == z3.sat:
            mod = s.model()
            i = mod.eval(w, model_completion=True).as_long()
            s.add(w != i)
            word = VALUE_WORDS[i]
            res["checks"] += 1
            mo = re.fullmatch(r"([+-]?)([0-9]+)(.*)", word, flags=re.S)
            want = None
            if mo and int(mo.group(2)) < 2 ** 64 and (suffix or mo.group(3) == ""):
                want = ({"+": "MoreThan", "-": "LessThan", "": "EqualTo"}[mo.group(1)], int(mo.group(2)), mo.group(3))
            if r.variant == "Ok":
                v = r.fields[0]
                cv, unit = (v.fields[0], text_of(m, v.fields[1])) if suffix else (v, "")
                got = (cv.variant, cv.fields[0], unit)
            else:
                got = None
            if got != want:
                res["violations"].append({"what": "%s(%r) = %r, expected %r" % (fn, word, got, want)})
            if len(res["samples"]) < 3 and got and got[2]:
                res["samples"].append({"word": word, "parsed": list(got)})
    res["wall_s"] = round(time.time() - t0, 2)
    res["solver_calls"] = m.stats["solver_calls"]
    res["functions_executed"] = sorted(m.executed)
    return res


NEWER_WORDS = ["-newer", "-anewer", "-cnewer"] + ["-newer%s%s" % (x, y) for x in "aBcm" for y in "aBcmt"] + ["-newerta", "-newera", "-newerab ", "-neweraa-", "-Newermm", "-newer mm", ""]


def explore_newer_names(funcs, index, enums):
    """C15: which timestamps a -newerXY spelling selects (parse_str_to_newer_args from MIR)"""
    res = {"kind": "-newerXY names", "paths": 0, "checks": 0, "violations": [], "unsupported": {}, "samples": []}
    m = Machine(funcs, index, enums, models, natives=natives(), max_steps=2000000)
    w = z3.Int("word")
    m.base_constraints = [w >= 0, w < len(NEWER_WORDS)]
    m.pending = [[]]
    t0 = time.time()
    while m.pending:
        m.reset_path(m.pending.pop())
        try:
            r = m.call("parse_str_to_newer_args", [RStr(sym=w, vocab=NEWER_WORDS)])
        except RustPanic as e:
            res["violations"].append({"what": "panic: " + str(e)[:80]}); res["paths"] += 1
            continue
        except Unsupported as e:
            res["unsupported"][str(e)[:100]] = res["unsupported"].get(str(e)[:100], 0) + 1
            continue
        except PathAbort:
            continue
        res["paths"] += 1
        s = z3.Solver()
        for c in m.base_constraints + m.pc: s.add(c)
        while s.check() == z3.sat:
            mod = s.model()
            i = mod.eval(w, model_completion=True).as_long()
            s.add(w != i)
            word = NEWER_WORDS[i]
            res["checks"] += 1
            mo = re.fullmatch(r"-newer([aBcm])([aBcmt])", word)
            want = {"-newer": ("m", "m"), "-anewer": ("a", "m"), "-cnewer": ("c", "m")}.get(word) or (mo.groups() if mo else None)
            got = None
            if r.variant == "Some":
                t = r.fields[0]
                got = (text_of(m, t.fields[0]), text_of(m, t.fields[1]))
            if got != want:
                res["violations"].append({"what": "%r selects %r, expected %r" % (word, got, want)})
    res["wall_s"] = round(time.time() - t0, 2)
    res["solver_calls"] = m.stats["solver_calls"]
    res["functions_executed"] = sorted(m.executed)
    return res


PAIR_VOCAB = PRIMS + NEWER_JUNK + OPERANDS + OTHERS
# -exec / -execdir terminators and -user / -group operands (names are answered by a model of the passwd / group lookup: root and daemon exist)
EXEC_VOCAB = ["-exec", "-execdir", "cmd", "{}", "+", ";", "x{}", "-user", "-group", "root", "nosuch", "5", "", "4294967296", "-print", "!"]
EXEC_SMALL = ["-exec", "cmd", "{}", "+", ";", "-print", "-user", "root"]


if __name__ == "__main__":
    n = int(sys.argv[1]) if len(sys.argv) > 1 else 2
    text = open(sys.argv[2]).read() if len(sys.argv) > 2 else None
    funcs, index, enums, secs, _ = loader.load(os.environ.get("FINDUTILS_REPO", "/repo"), text)
    if n == -1:
        r = explore_newer_names(funcs, index, enums)
        print(json.dumps({k: r[k] for k in ("kind", "paths", "checks", "unsupported")}), len(r["violations"]), [v["what"] for v in r["violations"][:8]])
        sys.exit(0)
    if n == 0:
        r = explore_values(funcs, index, enums)
        print(json.dumps({k: r[k] for k in ("kind", "paths", "checks", "unsupported", "samples")}), len(r["violations"]), [v["what"] for v in r["violations"][:8]])
        sys.exit(0)
    r = explore(n, funcs, index, enums, PAIR_VOCAB)
    v = r.pop("violations")
    print(json.dumps({k: r[k] for k in ("tokens", "paths", "accepting_paths", "sentences_checked", "solver_calls", "wall_s", "unsupported")})[:1200])
    print(len(v), "violations")
    seen = set()
    for x in v:
        k = " ".join(x["tokens"][:2]) + x["what"][:30]
        if k in seen: continue
        seen.add(k); print("  ", x["tokens"], x["what"])


TIME_WORDS = ["-atime", "-ctime", "-mtime", "-amin", "-cmin", "-mmin", "-newer", "-anewer", "-cnewer", "-newermm", "-neweram", "-newerma", "-newerac", "-newerca", "-newercm", "-newermc", "-newercc", "-neweraa"]


def _find_structs(v, want, seen=None, depth=0):
    """structs of the given type names reachable from v (the matcher tree the parser built)"""
    seen = seen if seen is not None else set()
    if id(v) in seen or depth > 12:
        return []
    seen.add(id(v))
    out = []
    if isinstance(v, (Struct, Enum)):
        if isinstance(v, Struct) and v.ty in want:
            out.append(v)
        for f in v.fields:
            out += _find_structs(f, want, seen, depth + 1)
    elif isinstance(v, BoxObj):
        out += _find_structs(v.cell[0] if v.cell else None, want, seen, depth + 1)
    elif isinstance(v, VecObj):
        for x in v.items:
            out += _find_structs(x, want, seen, depth + 1)
    elif isinstance(v, Ptr):
        try:
            out += _find_structs(v.load(), want, seen, depth + 1)
        except Exception:
            pass
    elif isinstance(v, (list, tuple)):
        for x in v:
            out += _find_structs(x, want, seen, depth + 1)
    return out


def explore_time_kinds(funcs, index, enums):
    """C15 "each on its own timestamp": which timestamp the PARSER hands to the matcher for each time primary. build_top_level_matcher on `WORD OPERAND`;
    FileTimeMatcher::new / FileAgeRangeMatcher::new run from MIR and the kind is read off the matcher they built; NewerOptionMatcher::new / NewerMatcher::new
    (they stat the reference file) are recorders of the (X, Y) they are given. That a matcher of kind K compares timestamp K is the Kani harnesses' part
    (c15_age_days, c15_age_minutes, c15_newer_xy: the kind is symbolic there)."""
    res = {"kind": "time primaries -> timestamp kind", "paths": 0, "checks": 0, "violations": [], "unsupported": {}, "samples": []}
    rec = {}
    nat = natives()
    def newer_opt(m, a):
        rec["xy"] = (text_of(m, a[0]), text_of(m, a[1]), text_of(m, a[2]))
        return Ok(Struct("NewerOptionMatcher", []))
    def newer_plain(m, a):
        rec["xy"] = ("m", "m", text_of(m, a[0]))
        return Ok(Struct("NewerMatcher", []))
    nat["NewerOptionMatcher::new"] = newer_opt
    nat["NewerMatcher::new"] = newer_plain
    m = Machine(funcs, index, enums, models, natives=nat, max_steps=2000000)
    w = z3.Int("word")
    m.base_constraints = [w >= 0, w < len(TIME_WORDS)]
    m.pending = [[]]
    t0 = time.time()
    while m.pending:
        m.reset_path(m.pending.pop())
        rec.clear()
        try:
            wi = m.decide_int(w, list(range(len(TIME_WORDS) - 1)))
            wi = len(TIME_WORDS) - 1 if wi is None else wi
            word = TIME_WORDS[wi]
            operand = "1" if word[2:] in ("time", "min") else "ref"
            cfg = [m.call("<Config as Default>::default", [])]
            r = m.call("build_top_level_matcher", [SliceRef([RStr(word), RStr(operand)]), Ptr(cfg, 0)])
        except RustPanic as e:
            res["violations"].append({"what": "panic: " + str(e)[:80]}); res["paths"] += 1
            continue
        except Unsupported as e:
            res["unsupported"][str(e)[:100]] = res["unsupported"].get(str(e)[:100], 0) + 1
            continue
        except PathAbort:
            continue
        res["paths"] += 1
        res["checks"] += 1
        if r.variant != "Ok":
            res["violations"].append({"what": "%s %s rejected" % (word, operand)})
            continue
        if operand == "1":
            want_ty = "FileTimeMatcher" if word.endswith("time") else "FileAgeRangeMatcher"
            want_kind = {"a": "Accessed", "c": "Changed", "m": "Modified"}[word[1]]
            found = _find_structs(r.fields[0], {"FileTimeMatcher", "FileAgeRangeMatcher"})
            kinds = [(s.ty, [f.variant for f in s.fields if isinstance(f, Enum) and f.ty == "FileTimeType"]) for s in found]
            if kinds != [(want_ty, [want_kind])]:
                res["violations"].append({"what": "%s builds %r, expected a %s on the %s timestamp" % (word, kinds, want_ty, want_kind)})
            elif len(res["samples"]) < 3:
                res["samples"].append({"primary": word, "matcher": want_ty, "timestamp": want_kind})
        else:
            mo = re.fullmatch(r"-newer([aBcm])([aBcmt])", word)
            want = {"-newer": ("m", "m"), "-anewer": ("a", "m"), "-cnewer": ("c", "m")}.get(word) or mo.groups()
            got = rec.get("xy")
            if got is None or got[:2] != want or got[2] != "ref":
                res["violations"].append({"what": "%s ref hands (X, Y, file) = %r to the matcher, expected %r + 'ref'" % (word, got, want)})
    res["wall_s"] = round(time.time() - t0, 2)
    res["solver_calls"] = m.stats["solver_calls"]
    res["functions_executed"] = sorted(m.executed)
    return res
