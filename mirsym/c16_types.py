#!/usr/bin/env python3
"""C16 (%y / %Y) and C13's record selection once more: MIR-level symbolic execution of format_directive(Type), WalkEntry::{new,
from_walkdir, metadata, get_metadata, file_type, path_is_symlink, follow}, Follow::{follow_at_depth, metadata, metadata_at_depth},
FileType::from, WalkError's conversions, TypeMatcher / XtypeMatcher::{new, matches} over a SYMBOLIC stat world:
lstat's type L (7 kinds), stat's outcome for a link (type S or errno ENOENT / ELOOP / EACCES), follow mode -P/-H/-L, depth 0/1,
and both representations of an entry (explicit path; walkdir DirEntry under walkdir's contract).
Obligations: the letter %y prints is one for which the real -type test is true on the same entry, and equals the letter of the
record the follow mode selects; %Y likewise against -xtype where the follow mode does not resolve the entry (under -L GNU's %Y
and -xtype differ by design; not demanded)."""
import json, os, re, sys, time, z3
import loader, models, interp, natives_fs
from interp import Machine, SliceRef, RStr, Ptr, Struct, Enum, Opaque, BoxObj, VecObj, Unsupported, RustPanic, PathAbort, UNIT
from models import Some, NONE, Ok, Err, deref
from natives_fs import PStr, text_of
import c16_printf

KINDS = ["f", "d", "l", "b", "c", "p", "s"]          # index = kind
LNK = 2
ENOENT, ELOOP, EACCES = 2, 40, 13


def _closure(m, raw, args):
    mc = re.search(r"\{closure@[^}]*\}", raw)
    fn = m.index.get(mc.group(0)) if mc else None
    if fn is None:
        raise Unsupported("closure of " + raw[:60])
    return m.run(fn, args)


def explore(funcs, index, enums):
    res = {"kind": "types", "paths": 0, "checks": 0, "violations": [], "unsupported": {}, "samples": []}
    L, S, s_ok, s_err = z3.Int("lstat_kind"), z3.Int("stat_kind"), z3.Bool("stat_ok"), z3.Int("stat_errno")
    follow, depth, as_dirent = z3.Int("follow"), z3.Int("depth"), z3.Bool("walkdir_entry")
    state = {}

    def pin_kind(m, v):
        if isinstance(v, int):
            return v
        k = m.decide_int(v, list(range(6)))
        return 6 if k is None else k

    def lstat(m, a):
        return Ok(Struct("MetadataV", [pin_kind(m, L), "lstat"]))

    def stat(m, a):
        l = pin_kind(m, L)
        if l != LNK:
            return Ok(Struct("MetadataV", [l, "stat"]))
        if m.decide(s_ok):
            return Ok(Struct("MetadataV", [pin_kind(m, S), "stat"]))
        e = m.decide_int(s_err, [ENOENT, ELOOP])
        return Err(Struct("IoError", [EACCES if e is None else e]))

    def std_or_crate(name, fn_std):
        """FileType::is_symlink etc. exist on std::fs::FileType (model) and on the crate's FileType (real code)"""
        def f(m, a):
            v = deref(a[0])
            if isinstance(v, Enum):
                return m.run(m.index[name], a)
            return fn_std(v.fields[0])
        return f

    def de_file_type(m, a):
        d = deref(a[0])
        # walkdir's contract: with follow_links the entry of a resolvable link reports its target's type
        if state["follow_links"] and pin_kind(m, L) == LNK:
            return Struct("StdFileType", [pin_kind(m, S)])
        return Struct("StdFileType", [pin_kind(m, L)])

    def de_metadata(m, a):
        if state["follow_links"] and pin_kind(m, L) == LNK:
            return Ok(Struct("MetadataV", [pin_kind(m, S), "stat"]))
        return Ok(Struct("MetadataV", [pin_kind(m, L), "lstat"]))

    def get_or_init(m, args, raw):
        cell = deref(args[0])
        if cell.fields[0].variant == "None":
            cell.fields[0] = Some(_closure(m, raw, [args[1]]))
        return Ptr(cell.fields[0].fields, 0)

    def is_ok_and(m, args, raw):
        v = args[0]
        return _closure(m, raw, [args[1], v.fields[0]]) if v.variant == "Ok" else False

    def res_map(m, args, raw):
        v = args[0]
        want = "Err" if "map_err" in raw else "Ok"
        if v.variant != want:
            return v
        mc = re.search(r"\{closure@[^}]*\}", raw)
        if mc:
            out = m.run(m.index[mc.group(0)], [args[1], v.fields[0]])
        else:
            mf = re.search(r"\{([^{}]+)\}>$", raw)
            out = m.call(mf.group(1), [v.fields[0]])
        return Enum(v.ty, v.variant, [out])
    def unwrap_or_else(m, args, raw):
        v = args[0]
        return v.fields[0] if v.variant in ("Some", "Ok") else _closure(m, raw, [args[1]])
    models.EXACT["Option::unwrap_or_else"] = unwrap_or_else
    for k, f in (("OnceCell::get_or_init", get_or_init), ("Result::is_ok_and", is_ok_and), ("Result::map", res_map), ("Result::map_err", res_map)):
        models.EXACT[k] = f

    nat = c16_printf.str_natives()
    nat.update({
        "Path::is_dir": lambda m, a: (lambda r: r.variant == "Ok" and r.fields[0].fields[0] == 1)(stat(m, a)),
        "Path::symlink_metadata": lstat, "Path::metadata": stat, "metadata": stat, "fs::metadata": stat, "symlink_metadata": lstat,
        "Metadata::file_type": lambda m, a: Struct("StdFileType", [deref(a[0]).fields[0]]),
        "FileType::is_symlink": std_or_crate("FileType::is_symlink", lambda k: k == LNK),
        "FileType::is_dir": std_or_crate("FileType::is_dir", lambda k: k == 1),
        "FileType::is_file": lambda m, a: deref(a[0]).fields[0] == 0,
        "<FileType as FileTypeExt>::is_fifo": lambda m, a: deref(a[0]).fields[0] == 5, "<FileType as FileTypeExt>::is_socket": lambda m, a: deref(a[0]).fields[0] == 6,
        "<FileType as FileTypeExt>::is_block_device": lambda m, a: deref(a[0]).fields[0] == 3,
        "<FileType as FileTypeExt>::is_char_device": lambda m, a: deref(a[0]).fields[0] == 4,
        "DirEntry::path": lambda m, a: deref(a[0]).fields[0], "DirEntry::depth": lambda m, a: deref(a[0]).fields[1],
        "DirEntry::file_type": de_file_type, "DirEntry::metadata": de_metadata,
        "DirEntry::path_is_symlink": lambda m, a: pin_kind(m, L) == LNK,
        "Error::raw_os_error": lambda m, a: Some(deref(a[0]).fields[0]),
        "Error::from_raw_os_error": lambda m, a: Struct("IoError", [a[0]]),
        "Error::kind": lambda m, a: Enum("ErrorKind", {ENOENT: "NotFound", EACCES: "PermissionDenied"}.get(deref(a[0]).fields[0], "Other"), []),
        "<ErrorKind as Into>::into": lambda m, a: Struct("IoError", [0]),
        "<ErrorKind as PartialEq>::eq": lambda m, a: _vname(deref(a[0])) == _vname(deref(a[1])),
        "<Option<i32> as PartialEq>::eq": lambda m, a: (deref(a[0]).variant == deref(a[1]).variant and (deref(a[0]).variant == "None" or deref(a[0]).fields[0] == deref(a[1]).fields[0])),
        "<impl AsRef<Path> as AsRef>::as_ref": lambda m, a: a[0], "<&Path as AsRef>::as_ref": lambda m, a: a[0], "<PathBuf as AsRef>::as_ref": lambda m, a: a[0],
        "<Metadata as Clone>::clone": lambda m, a: deref(a[0]), "Option::cloned": lambda m, a: a[0], "Result::cloned": lambda m, a: (Ok(deref(a[0].fields[0])) if a[0].variant == "Ok" else a[0]),
        "Result::as_ref": lambda m, a: (Ok(Ptr(deref(a[0]).fields, 0)) if deref(a[0]).variant == "Ok" else Err(Ptr(deref(a[0]).fields, 0))),
        "<WalkError as Clone>::clone": lambda m, a: deref(a[0]),
        "<Result<Metadata, WalkError> as Into>::into": None,
        "<FileType as Into>::into": lambda m, a: m.call("<FileType as From<FileType>>::from", a),
        "<impl Into<PathBuf> as Into>::into": lambda m, a: a[0], "<PathBuf as Deref>::deref": lambda m, a: deref(a[0]), "PathBuf::as_path": lambda m, a: deref(a[0]),
    })
    nat = {k: v for k, v in nat.items() if v is not None}
    m = Machine(funcs, index, enums, models, natives=nat, max_steps=2000000)
    m.base_constraints = [L >= 0, L <= 6, S >= 0, S <= 6, S != LNK, z3.Or(s_err == ENOENT, s_err == ELOOP, s_err == EACCES), follow >= 0, follow <= 2, depth >= 0, depth <= 1]
    m.pending = [[]]
    t0 = time.time()
    while m.pending:
        m.reset_path(m.pending.pop())
        try:
            fo = m.decide_int(follow, [0, 1]); fo = 2 if fo is None else fo
            dp = 0 if m.decide(depth == 0) else 1
            wd = m.decide(as_dirent)
            fol = Enum("Follow", ["Never", "Roots", "Always"][fo], [])
            follows = fo == 2 or (fo == 1 and dp == 0)
            state["follow_links"] = fo == 2
            if wd:
                # walkdir yields a DirEntry for this path only if, under follow_links, a link resolves (a dangling one arrives as an error)
                if fo == 2:
                    l = pin_kind(m, L)
                    if l == LNK and not m.decide(s_ok):
                        raise PathAbort("dangling link under follow_links is not a DirEntry")
                ent = m.call("WalkEntry::from_walkdir", [Ok(Struct("DirEntryV", [PStr("r/a"), dp])), fol])
                if ent.variant != "Ok":
                    raise Unsupported("from_walkdir failed")
                entry = [ent.fields[0]]
            else:
                entry = [m.call("WalkEntry::new", [PStr("r/a"), dp, fol])]
            letters = {}
            for big in (False, True):
                r = m.call("format_directive", [Ptr(entry, 0), Ptr([Enum("FormatDirective", "Type", [big])], 0)])
                if r.variant != "Ok":
                    letters[big] = None
                else:
                    letters[big] = text_of(m, r.fields[0])
            # the world of this path
            l = pin_kind(m, L)
            sok = True if l != LNK else m.decide(s_ok)
            sk = l if l != LNK else (pin_kind(m, S) if sok else None)
            se = None
            if l == LNK and not sok:
                e = m.decide_int(s_err, [ENOENT, ELOOP]); se = EACCES if e is None else e
            # C13 directly: -type <letter of the record the follow mode selects> is true on this entry
            follows_ = follows
            sel_letter = (KINDS[sk] if sok else ("l" if se == ENOENT else None)) if (follows_ and l == LNK) else KINDS[l]
            type_on_selected = None
            if sel_letter is not None:
                tm = m.call("TypeMatcher::new", [RStr(sel_letter)])
                io = [Struct("MatcherIO", [False, 0, False, Opaque("deps")])]
                type_on_selected = m.call("<TypeMatcher as Matcher>::matches", [Ptr([tm.fields[0]], 0), Ptr(entry, 0), Ptr(io, 0)])
            agree = {}
            for big, cls in ((False, "TypeMatcher"), (True, "XtypeMatcher")):
                c = letters[big]
                if c in KINDS:
                    tm = m.call(cls + "::new", [RStr(c)])
                    io = [Struct("MatcherIO", [False, 0, False, Opaque("deps")])]
                    agree[big] = m.call("<%s as Matcher>::matches" % cls, [Ptr([tm.fields[0]], 0), Ptr(entry, 0), Ptr(io, 0)])
        except RustPanic as e:
            res["violations"].append({"what": "panic: " + str(e)[:100]})
            res["paths"] += 1
            continue
        except Unsupported as e:
            res["unsupported"][str(e)[:110]] = res["unsupported"].get(str(e)[:110], 0) + 1
            continue
        except PathAbort:
            continue
        res["paths"] += 1
        world = "lstat=%s stat=%s, %s depth %d, %s entry" % (KINDS[l], (KINDS[sk] if sk is not None else "errno %d" % se), ["-P", "-H", "-L"][fo], dp, "walkdir" if wd else "explicit")
        # %y: the record the follow mode selects (a dangling link is still a link)
        if follows and l == LNK:
            want_y = KINDS[sk] if sok else ("l" if se == ENOENT else None)      # other stat errors: no record -> 'U' is what -type sees (Unknown)
        else:
            want_y = KINDS[l]
        res["checks"] += 1
        if type_on_selected is False:
            res["violations"].append({"what": "-type %s is false on an entry whose selected record is %r (%s)" % (sel_letter, sel_letter, world), "world": world, "class": "type-record"})
        if want_y is not None and letters[False] != want_y:
            res["violations"].append({"what": "%%y prints %r, the selected record is %r (%s)" % (letters[False], want_y, world), "world": world, "class": "y"})
        if letters[False] in KINDS and agree.get(False) is not True:
            res["violations"].append({"what": "%%y prints %r but -type %s is false on the same entry (%s)" % (letters[False], letters[False], world), "world": world, "class": "y-type"})
        if not follows:
            want_Y = KINDS[l] if l != LNK else (KINDS[sk] if sok else {ENOENT: "N", ELOOP: "L"}.get(se, "?"))
            res["checks"] += 1
            if letters[True] != want_Y:
                res["violations"].append({"what": "%%Y prints %r, expected %r (%s)" % (letters[True], want_Y, world), "world": world, "class": "Y"})
            if letters[True] in KINDS and agree.get(True) is not True:
                res["violations"].append({"what": "%%Y prints %r but -xtype %s is false on the same entry (%s)" % (letters[True], letters[True], world), "world": world, "class": "Y-xtype"})
        if len(res["samples"]) < 3 and l == LNK:
            res["samples"].append({"world": world, "%y": letters[False], "%Y": letters[True]})
    res["wall_s"] = round(time.time() - t0, 2)
    res["solver_calls"] = m.stats["solver_calls"]
    res["functions_executed"] = sorted(m.executed)
    return res


def _vname(v):
    return v.variant if isinstance(v, Enum) else v.ty


if __name__ == "__main__":
    text = open(sys.argv[1]).read() if len(sys.argv) > 1 else None
    funcs, index, enums, secs, _ = loader.load(os.environ.get("FINDUTILS_REPO", "/repo"), text)
    r = explore(funcs, index, enums)
    v = r.pop("violations")
    print(json.dumps({k: r[k] for k in ("kind", "paths", "checks", "solver_calls", "wall_s", "unsupported", "samples")})[:1200])
    print(len(v), "violations")
    for x in v[:12]:
        print("  ", x["what"])
