"""Native replayers: turn a solver witness into a run of the real find/xargs binaries.

Each replayer takes (witness, repo) and returns (reproduced, detail):
  True  - the property violation shows with the real binaries,
  False - the witness does not reproduce (the encoding or a stub is suspect),
  None  - this witness cannot be materialised natively (stated why).
"""
import os, shutil, subprocess, tempfile, stat, time

_built = {}


def build(repo):
    if repo not in _built:
        p = subprocess.run(["cargo", "build", "--offline", "--quiet"], cwd=repo, capture_output=True, text=True,
                           env=dict(os.environ, CARGO_NET_OFFLINE="true"))
        _built[repo] = p.returncode == 0
    return _built[repo]


def find_bin(repo):
    return os.path.join(repo, "target", "debug", "find")


def xargs_bin(repo):
    return os.path.join(repo, "target", "debug", "xargs")


def run(cmd, cwd=None, inp=None, timeout=60, env=None):
    p = subprocess.run(cmd, cwd=cwd, input=inp, capture_output=True, timeout=timeout, env=env)
    return p.returncode, p.stdout, p.stderr


def run_chunked(cmd, chunks, cwd=None, timeout=60, env=None, gap=0.08):
    """feed the chunks one write() at a time with pauses, so that each read() of the child returns one chunk"""
    p = subprocess.Popen(cmd, cwd=cwd, stdin=subprocess.PIPE, stdout=subprocess.PIPE, stderr=subprocess.PIPE, env=env, bufsize=0)
    try:
        time.sleep(gap)
        for c in chunks:
            if c:
                try:
                    p.stdin.write(c); p.stdin.flush()
                except BrokenPipeError:
                    break
                time.sleep(gap)
        try:
            p.stdin.close()
        except BrokenPipeError:
            pass
        out = p.stdout.read(); err = p.stderr.read()
        p.wait(timeout=timeout)
    finally:
        if p.poll() is None:
            p.kill()
    return p.returncode, out, err


def chunkings(data, sizes=None):
    """the given read() sizes, else every way of cutting up to 4 bytes (one piece for longer inputs)"""
    if sizes:
        out, i = [], 0
        for k in sizes:
            out.append(data[i:i + k]); i += k
        if i < len(data):
            out.append(data[i:])
        return [out]
    if len(data) > 4:
        return [[data]]
    res = []
    for mask in range(1 << max(0, len(data) - 1)):
        cur, pieces = data[:1], []
        for i in range(1, len(data)):
            if mask >> (i - 1) & 1:
                pieces.append(cur); cur = b""
            cur += data[i:i + 1]
        pieces.append(cur)
        res.append(pieces)
    return res


TYPES = {"u8": 1, "bool": 1, "u32": 4, "i32": 4, "u64": 8, "i64": 8, "usize": 8}
STAT12 = ["mode", "ino", "nlink", "uid", "gid", "size", "mtime", "mtime_nsec", "atime", "atime_nsec", "ctime", "ctime_nsec"]


def decode(witness):
    """witness_schema 'name:type ...' + concrete_vals (in kani::any() call order) -> dict."""
    vals = [v["le_uint"] for v in witness.get("concrete_vals", [])]
    out, i = {}, 0
    for item in (witness.get("witness_schema") or "").split():
        name, ty = item.split(":")
        if ty == "stat12":
            rec = {}
            for f in STAT12:
                rec[f] = vals[i] if i < len(vals) else 0
                i += 1
            out[name] = rec
        else:
            out[name] = vals[i] if i < len(vals) else 0
            i += 1
    return out


class Sandbox:
    def __enter__(self):
        self.d = tempfile.mkdtemp(prefix="fu-replay-")
        return self.d

    def __exit__(self, *a):
        subprocess.run(["chmod", "-R", "u+rwx", self.d], capture_output=True)
        shutil.rmtree(self.d, ignore_errors=True)


# ------------------------------------------------------------------------------------------ C02
def walk_config(w, repo):
    v = decode(w)
    if not build(repo):
        return None, "build failed"
    mn, mx = v.get("min_depth", 0), v.get("max_depth", 0)
    if "mindepth > maxdepth" not in (w.get("failing") or "") or mn <= mx:
        return None, "the failing assertion concerns the WalkDir builder calls, which have no CLI observable of their own"
    with Sandbox() as d:
        os.makedirs(os.path.join(d, "t/a/b/c"))
        rc, out, err = run([find_bin(repo), "t", "-mindepth", str(mn), "-maxdepth", str(mx)], cwd=d)
        if out.strip():
            return True, "find t -mindepth %d -maxdepth %d printed %r (expected nothing)" % (mn, mx, out.decode()[:80])
        # the solver's numbers may lie beyond the tree's depth: retry with the same order relation at small values
        rc, out, err = run([find_bin(repo), "t", "-mindepth", "3", "-maxdepth", "1"], cwd=d)
        if out.strip():
            return True, "find t -mindepth 3 -maxdepth 1 printed %r (expected nothing)" % out.decode()[:80]
        return False, "no output for an empty depth range"


# ------------------------------------------------------------------------------------------ helpers for scenario batteries
def _find(repo, args, cwd):
    rc, out, err = run([find_bin(repo)] + args, cwd=cwd)
    return rc, out.decode(errors="replace"), err.decode(errors="replace")


def _battery(results):
    """results: list of (label, ok: bool). -> (True, first deviation) or (None, why)"""
    bad = [l for l, ok in results if not ok]
    if bad:
        return True, "native scenario deviates: " + "; ".join(bad[:3])
    return None, "the witness is a state/verdict script with no exact CLI counterpart; %d neighbouring CLI scenarios behave correctly" % len(results)


# ------------------------------------------------------------------------------------------ C01
def quit_no_action(w, repo):
    if not build(repo):
        return None, "build failed"
    with Sandbox() as d:
        os.makedirs(os.path.join(d, "t"))
        for n in ("a.c", "b.c", "zstop"):
            open(os.path.join(d, "t", n), "w").close()
        res = []
        rc, out, _ = _find(repo, ["t", "-sorted", "-true", "-o", "-quit"], d)
        res.append(("find t -true -o -quit printed %r" % out, out.split() == ["t", "t/a.c", "t/b.c", "t/zstop"]))
        rc, out, _ = _find(repo, ["t", "-sorted", "(", "-name", "zstop", "-quit", ")", "-o", "-name", "*.c"], d)
        res.append(("( -name zstop -quit ) -o -name *.c printed %r" % out, out.split() == ["t/a.c", "t/b.c"]))
        rc, out, _ = _find(repo, ["t", "-sorted", "-name", "a.c", "-prune"], d)
        res.append(("-name a.c -prune printed %r" % out, out.split() == ["t/a.c"]))
        rc, out, _ = _find(repo, ["t", "-sorted", "-name", "a.c", "-print", "-o", "-false"], d)
        res.append(("explicit -print printed %r" % out, out.split() == ["t/a.c"]))
        return _battery(res)


def builder_ops(w, repo):
    """malformed operator sequences must be rejected before any action"""
    if not build(repo):
        return None, "build failed"
    with Sandbox() as d:
        os.makedirs(os.path.join(d, "t"))
        open(os.path.join(d, "t", "f"), "w").close()
        res = []
        for expr in (["-false", "-o", "-a", "-print"], ["-o", "-print"], ["-true", ",", ",", "-print"], ["-a", "-print"],
                     ["-true", "-o", ",", "-print"], ["(", "-true", "-o", "-a", "-false", ")", "-print"]):
            rc, out, err = _find(repo, ["t"] + expr, d)
            res.append(("find t %s: rc=%d out=%r" % (" ".join(expr), rc, out), rc != 0 and out == ""))
        for expr, want in ((["-name", "f", "-o", "-name", "t", "-print"], ["t"]), (["-false", "-o", "-true", "-name", "f"], ["t/f"]),
                           (["-false", ",", "-name", "f"], ["t/f"])):
            rc, out, err = _find(repo, ["t", "-sorted"] + expr, d)
            res.append(("find t %s printed %r" % (" ".join(expr), out), out.split() == want))
        return _battery(res)


# ------------------------------------------------------------------------------------------ C18 / C02
def do_find_loop(w, repo):
    if not build(repo):
        return None, "build failed"
    with Sandbox() as d:
        os.makedirs(os.path.join(d, "good"))
        os.makedirs(os.path.join(d, "other"))
        res = []
        for roots, want_fail in ((["missing", "good"], True), (["good", "missing", "other"], True), (["good", "other"], False), (["good", "missing"], True)):
            rc, out, err = _find(repo, roots, d)
            seen = [r for r in roots if r in out.split()]
            res.append(("find %s: rc=%d seen=%s" % (" ".join(roots), rc, seen), (rc != 0) == want_fail and seen == [r for r in roots if r != "missing"]))
        rc, out, err = _find(repo, ["good", "other", "-print", "-quit"], d)
        res.append(("-quit stops later starting points: %r" % out, out.split() == ["good"]))
        return _battery(res)


def parse_args_operands(w, repo):
    if not build(repo):
        return None, "build failed"
    with Sandbox() as d:
        os.makedirs(os.path.join(d, "a"))
        res = []
        rc, out, err = _find(repo, ["./a/", "a"], d)
        res.append(("spelling kept: %r" % out, out.split() == ["./a/", "a"]))
        rc, out, err = _find(repo, ["-H", "--", "a"], d)
        res.append(("-H -- a: %r" % out, out.split() == ["a"]))
        rc, out, err = _find(repo, [], os.path.join(d, "a"))
        res.append(("default '.': %r" % out, out.split() == ["."]))
        return _battery(res)


# ------------------------------------------------------------------------------------------ C03
def prune_dirs(w, repo):
    if not build(repo):
        return None, "build failed"
    with Sandbox() as d:
        for p in ("t/b/sub", "t/c", "t/real"):
            os.makedirs(os.path.join(d, p))
        for p in ("t/b/f1", "t/b/sub/f2", "t/c/f3", "t/d"):
            open(os.path.join(d, p), "w").close()
        os.symlink("real", os.path.join(d, "t", "a_link"))
        res = []
        rc, out, _ = _find(repo, ["t", "-sorted", "-name", "a_link", "-prune", "-o", "-print"], d)
        want = ["t", "t/b", "t/b/f1", "t/b/sub", "t/b/sub/f2", "t/c", "t/c/f3", "t/d", "t/real"]
        res.append(("-prune on a link to a directory (-P): %r" % out, out.split() == want))
        rc, out, _ = _find(repo, ["t", "-sorted", "-name", "b", "-prune", "-o", "-print"], d)
        res.append(("-prune b: %r" % out, out.split() == ["t", "t/a_link", "t/c", "t/c/f3", "t/d", "t/real"]))
        rc, out, _ = _find(repo, ["t", "-sorted", "-depth", "-name", "b", "-prune", "-o", "-print"], d)
        res.append(("-depth -prune changes nothing: %r" % out, "t/c/f3" in out.split() and "t/b/f1" in out.split() and "t/d" in out.split()))
        return _battery(res)


walk_loop = prune_dirs


# ------------------------------------------------------------------------------------------ C04 / C19
_REC = r'''#!/bin/sh
echo "$#:$*" >> "$REC_LOG"
n=$(wc -l < "$REC_LOG")
code=$(echo "$REC_CODES" | cut -d, -f"$n")
[ -z "$code" ] && code=0
if [ "$code" = "K" ]; then kill -9 $$; fi
exit "$code"
'''


def _xargs(repo, d, args, inp, codes=""):
    rec = os.path.join(d, "rec.sh")
    with open(rec, "w") as f:
        f.write(_REC)
    os.chmod(rec, 0o755)
    log = os.path.join(d, "rec.log")
    if os.path.exists(log):
        os.remove(log)
    open(log, "w").close()
    env = dict(os.environ, REC_LOG=log, REC_CODES=codes)
    rc, out, err = run([xargs_bin(repo)] + args + [rec], cwd=d, inp=inp, env=env)
    calls = [l.split(":", 1)[1].split() for l in open(log).read().splitlines()]
    return rc, calls, err.decode(errors="replace")


def process_input(w, repo):
    if not build(repo):
        return None, "build failed"
    with Sandbox() as d:
        res = []
        for codes, want_rc, want_calls in (("1,0,0", 123, 3), ("0,3,0,0", 123, 4), ("0,255,0", 124, 2), ("0,0,0", 0, 3), ("0,K,0", 125, 2), ("1,0", 123, 2)):
            n = len(codes.split(","))
            rc, calls, err = _xargs(repo, d, ["-n1"], b"".join(b"a%d\n" % i for i in range(n)), codes)
            res.append(("outcomes %s: rc=%d calls=%d" % (codes, rc, len(calls)), rc == want_rc and len(calls) == want_calls))
        rc, calls, err = _xargs(repo, d, ["-n2"], b"a b c d e\n")
        res.append(("-n2 batches %r" % calls, calls == [["a", "b"], ["c", "d"], ["e"]]))
        rc, calls, err = _xargs(repo, d, ["-L1"], b"a b\nc \nd\n")
        res.append(("-L1 batches %r" % calls, calls == [["a", "b"], ["c", "d"]]))
        rc, calls, err = _xargs(repo, d, [], b"")
        res.append(("empty input runs once: %r" % calls, calls == [[]] and rc == 0))
        rc, calls, err = _xargs(repo, d, ["-r"], b"")
        res.append(("-r empty input: %r" % calls, calls == [] and rc == 0))
        return _battery(res)


def limiter_chars(w, repo):
    if not build(repo):
        return None, "build failed"
    with Sandbox() as d:
        res = []
        rec_len = len(os.path.join(d, "rec.sh")) + 1
        # with an explicit command, the command itself counts against -s
        rc, calls, err = _xargs(repo, d, ["-s", str(rec_len + 6)], b"ab cd efg\n")
        res.append(("-s %d (cmd+6): %r rc=%d" % (rec_len + 6, calls, rc), calls == [["ab", "cd"], ["efg"]]))
        rc, calls, err = _xargs(repo, d, ["-s", str(rec_len + 8)], b"abcdefgh\n")
        res.append(("argument that does not fit: rc=%d calls=%r" % (rc, calls), rc == 1 and calls == []))
        rc, calls, err = _xargs(repo, d, ["-s", str(rec_len + 9)], b"abcdefgh\n")
        res.append(("argument that fits exactly: rc=%d calls=%r" % (rc, calls), rc == 0 and calls == [["abcdefgh"]]))
        return _battery(res)


initial_args = limiter_chars


def exit_code_map(w, repo):
    if not build(repo):
        return None, "build failed"
    with Sandbox() as d:
        res = []
        rc, _, _ = run([xargs_bin(repo), "/nonexistent/cmd"], cwd=d, inp=b"a\n")
        res.append(("missing command: rc=%d" % rc, rc == 127))
        open(os.path.join(d, "noexec"), "w").write("x")
        rc, _, _ = run([xargs_bin(repo), "./noexec"], cwd=d, inp=b"a\n")
        res.append(("not executable: rc=%d" % rc, rc == 126))
        rc, _, _ = run([xargs_bin(repo), "-n", "0", "true"], cwd=d, inp=b"a\n")
        res.append(("bad option value: rc=%d" % rc, rc == 1))
        rc, _, _ = run([xargs_bin(repo), "true"], cwd=d, inp=b"'a\n")
        res.append(("unterminated quote: rc=%d" % rc, rc == 1))
        return _battery(res)


classify_child = process_input


# ------------------------------------------------------------------------------------------ C05 (exact replay)
def _ref_tokens(data):
    toks, cur, quote, slash, sawq, err = [], bytearray(), 0, False, False, False
    amb = False
    for c in data:
        if quote:
            if c == quote:
                quote = 0
            else:
                cur.append(c)
        elif slash:
            cur.append(c); slash = False
        elif c in (0x27, 0x22):
            quote = c; sawq = True
        elif c == 0x5C:
            slash = True
        elif c in (0x20, 0x0A, 0x09):
            if cur:
                toks.append(bytes(cur)); cur = bytearray(); sawq = False
            elif sawq:
                amb = True
        else:
            cur.append(c)
    if quote:
        err = True
    elif cur:
        toks.append(bytes(cur))
    elif sawq:
        amb = True
    return toks, err, amb


def ws_reader(w, repo):
    """exact: feed the witness bytes to the real xargs and compare argv with the reference tokenizer"""
    if not build(repo):
        return None, "build failed"
    vals = [v["le_uint"] for v in w.get("concrete_vals", [])]
    m = __import__("re").search(r"c05_ws_len(\d)", w.get("harness_name", ""))
    n = int(m.group(1)) if m else 2
    data = bytes(v & 0xFF for v in vals[:n])
    toks, err, amb = _ref_tokens(data)
    if amb:
        return None, "witness contains '' as a whole token (outside the claim)"
    with Sandbox() as d:
        out_path = os.path.join(d, "argv.bin")
        script = os.path.join(d, "dump.sh")
        open(script, "w").write('#!/bin/sh\nfor a in "$@"; do printf "%s\\0" "$a" >> "' + out_path + '"; done\n')
        os.chmod(script, 0o755)
        ms = __import__("re").search(r"split(\d+)", w.get("harness_name", ""))
        # non-UTF-8 bytes are replaced by U+FFFD by the reader's lossy conversion: compare modulo that
        want = [t.decode("utf-8", errors="replace").encode() for t in toks]
        for pieces in chunkings(data, [int(c) for c in ms.group(1)] if ms else None):
            if os.path.exists(out_path):
                os.remove(out_path)
            rc, out, e = run_chunked([xargs_bin(repo), script], pieces, cwd=d)
            got = open(out_path, "rb").read().split(b"\0")[:-1] if os.path.exists(out_path) else []
            ok = (rc == 1) if err else (got == want and rc == 0)
            if not ok:
                return True, "input %r delivered as read()s %r: xargs delivered %r (rc=%d), reference %r%s" % (data, pieces, got, rc, want, " + error" if err else "")
        return False, "input %r behaves like the reference natively under every chunking tried" % data


# ------------------------------------------------------------------------------------------ C10
def delete_decision(w, repo):
    if not build(repo):
        return None, "build failed"
    res = []
    for mode in ("-P", "-H", "-L"):
        with Sandbox() as d:
            os.makedirs(os.path.join(d, "target_dir"))
            open(os.path.join(d, "target_file"), "w").write("x")
            os.symlink("target_dir", os.path.join(d, "ld"))
            os.symlink("target_file", os.path.join(d, "lf"))
            os.symlink("nowhere", os.path.join(d, "dang"))
            for name in ("ld", "lf", "dang"):
                rc, out, err = _find(repo, [mode, name, "-maxdepth", "0", "-delete"], d)
                gone = not os.path.lexists(os.path.join(d, name))
                kept = os.path.isdir(os.path.join(d, "target_dir")) and os.path.exists(os.path.join(d, "target_file"))
                res.append(("find %s %s -delete: rc=%d link_removed=%s targets_kept=%s" % (mode, name, rc, gone, kept), rc == 0 and gone and kept))
    with Sandbox() as d:
        os.makedirs(os.path.join(d, "t/full/x"))
        rc, out, err = _find(repo, ["t/full", "-maxdepth", "0", "-delete"], d)
        res.append(("non-empty directory: rc=%d" % rc, rc != 0 and os.path.isdir(os.path.join(d, "t/full/x"))))
    return _battery(res)


# ------------------------------------------------------------------------------------------ C13 / C14 / C15 / C16 (exact where the witness is a stat record)
def perm_bits(w, repo):
    v = decode(w)
    if not build(repo) or "meta" not in v:
        return None, "build failed or no witness"
    mode = v["meta"]["mode"] & 0o7777
    pat = v.get("pat", 0) & 0o7777
    form = {0: "", 1: "-", 2: "/"}[v.get("which", 0) % 3]
    with Sandbox() as d:
        p = os.path.join(d, "f")
        open(p, "w").close()
        os.chmod(p, mode)
        rc, out, err = _find(repo, ["f", "-perm", "%s%o" % (form, pat)], d)
        want = {"": mode == pat, "-": mode & pat == pat, "/": pat == 0 or mode & pat != 0}[form]
        os.chmod(p, 0o600)
        if (out.strip() == "f") != want:
            return True, "mode %o, -perm %s%o: selected=%s, expected %s" % (mode, form, pat, out.strip() == "f", want)
        return False, "mode %o, -perm %s%o selects as expected natively" % (mode, form, pat)


def size_round(w, repo):
    v = decode(w)
    if not build(repo):
        return None, "build failed"
    unit = "cwbkMG"[v.get("unit", 0) % 6]
    shift = {"c": 0, "w": 1, "b": 9, "k": 10, "M": 20, "G": 30}[unit]
    size = v.get("bytes", 0)
    if size > (1 << 33):
        size = (size % (1 << 32)) + (1 << shift)  # keep the relation to the unit boundary, stay creatable as a sparse file
    with Sandbox() as d:
        p = os.path.join(d, "f")
        with open(p, "wb") as f:
            f.truncate(size)
        want = -(-size // (1 << shift))
        rc, out, err = _find(repo, ["f", "-size", "%d%s" % (want, unit)], d)
        if out.strip() != "f":
            return True, "size %d: -size %d%s does not select it" % (size, want, unit)
        res = []
        for sz in (2048, 2049, 1, 0, 1024):
            with open(p, "wb") as f:
                f.truncate(sz)
            k = -(-sz // 1024)
            rc, out, err = _find(repo, ["f", "-size", "%dk" % k], d)
            res.append(("size %d -size %dk" % (sz, k), out.strip() == "f"))
        return _battery(res)


def _touch(path, a, m):
    os.utime(path, ns=(a, m))


def newer_xy(w, repo):
    if not build(repo):
        return None, "build failed"
    res = []
    with Sandbox() as d:
        ref, e = os.path.join(d, "ref"), os.path.join(d, "e")
        open(ref, "w").close(); open(e, "w").close()
        S = 1_600_000_000 * 10**9
        _touch(ref, S, S + 4 * 10**9)            # ref: atime = S, mtime = S+4s
        _touch(e, S - 10**9, S + 2 * 10**9)      # e:   atime = S-1s, mtime = S+2s
        for opt, want in (("-newerma", True), ("-newermm", False), ("-neweram", False), ("-neweraa", False), ("-newer", False)):
            rc, out, err = _find(repo, ["e", opt, "ref"], d)
            res.append(("%s: selected=%s" % (opt, out.strip() == "e"), (out.strip() == "e") == want))
        _touch(e, S, S + 4 * 10**9 + 1)          # 1 ns newer
        rc, out, err = _find(repo, ["e", "-newer", "ref"], d)
        res.append(("-newer at 1 ns: %r" % out, out.strip() == "e"))
        _touch(e, S, S + 4 * 10**9)
        rc, out, err = _find(repo, ["e", "-newer", "ref"], d)
        res.append(("-newer equal: %r" % out, out.strip() == ""))
        # ctime sub-second part: make ctime and mtime differ in their nanoseconds
        time.sleep(0.01)
        _touch(e, S, S + 123)
        st = os.stat(e)
        r2 = os.path.join(d, "r2"); open(r2, "w").close()
        _touch(r2, S, st.st_ctime_ns - 1)
        rc, out, err = _find(repo, ["e", "-newercm", "r2"], d)
        res.append(("-newercm with ctime 1 ns later than ref mtime: %r" % out, out.strip() == "e"))
        _touch(r2, S, st.st_ctime_ns + 1)
        rc, out, err = _find(repo, ["e", "-newercm", "r2"], d)
        res.append(("-newercm with ctime 1 ns earlier: %r" % out, out.strip() == ""))
    return _battery(res)


age_days = newer_xy


def printf_m(w, repo):
    v = decode(w)
    if not build(repo):
        return None, "build failed"
    mode = (v.get("meta", {}).get("mode", 0o4755)) & 0o7777
    with Sandbox() as d:
        p = os.path.join(d, "f"); open(p, "w").close(); os.chmod(p, mode)
        rc, out, err = _find(repo, ["f", "-printf", "%m"], d)
        os.chmod(p, 0o600)
        if int(out or "0", 8) != mode:
            return True, "mode %o printed as %r" % (mode, out)
        return False, "mode %o printed as %s" % (mode, out)


def printf_cli(w, repo):
    if not build(repo):
        return None, "build failed"
    with Sandbox() as d:
        open(os.path.join(d, "f"), "w").close()
        res = []
        for fmt, want in (("%é|", b"\xc3\xa9|"), ("\\101", b"A"), ("%f\\012", b"f\n"), ("x\\0y", b"x\0y"), ("\\tq", b"\tq")):
            rc, out, err = run([find_bin(repo), "f", "-printf", fmt], cwd=d)
            res.append(("-printf %r: rc=%d out=%r" % (fmt, rc, out), rc == 0 and out == want))
        for fmt in ("\\é", "\\12é", "\\q"):
            rc, out, err = run([find_bin(repo), "f", "-printf", fmt], cwd=d)
            res.append(("-printf %r must be diagnosed: rc=%d" % (fmt, rc), rc == 1))
        return _battery(res)


def printf_y(w, repo):
    if not build(repo):
        return None, "build failed"
    with Sandbox() as d:
        open(os.path.join(d, "f"), "w").close()
        os.symlink("f", os.path.join(d, "lf")); os.symlink("nowhere", os.path.join(d, "dang"))
        res = []
        for mode, name, want in (("-P", "lf", "l f"), ("-L", "lf", "f"), ("-L", "dang", "l N"), ("-P", "dang", "l N"), ("-H", "lf", "f")):
            rc, out, err = _find(repo, [mode, name, "-printf", "%y %Y"], d)
            ok = out.split()[0] == want.split()[0] and (len(want.split()) == 1 or out.split()[1] == want.split()[1])
            res.append(("find %s %s -printf '%%y %%Y' = %r" % (mode, name, out), ok))
        os.makedirs(os.path.join(d, "sub"))
        os.symlink("../f", os.path.join(d, "sub", "lf")); os.symlink("../nowhere", os.path.join(d, "sub", "ld"))
        for mode, want in (("-P", ["sub d", "sub/ld l", "sub/lf l"]), ("-H", ["sub d", "sub/ld l", "sub/lf l"]), ("-L", ["sub d", "sub/ld l", "sub/lf f"])):
            rc, out, err = _find(repo, [mode, "sub", "-sorted", "-printf", "%p %y\n"], d)
            got = [l for l in out.split("\n") if l]
            res.append(("find %s sub -printf '%%p %%y': %r" % (mode, got), got == want))
            for letter in "fdl":
                rc, o1, err = _find(repo, [mode, "sub", "-sorted", "-type", letter], d)
                rc, o2, err = _find(repo, [mode, "sub", "-sorted", "-printf", "%y %p\n"], d)
                sel = [l.split(" ", 1)[1] for l in o2.split("\n") if l.startswith(letter + " ")]
                res.append(("%s: -type %s selects %r, %%y prints %s for %r" % (mode, letter, o1.split(), letter, sel), o1.split() == sel))
        return _battery(res)


def lname_follow(w, repo):
    if not build(repo):
        return None, "build failed"
    with Sandbox() as d:
        open(os.path.join(d, "f"), "w").close()
        os.symlink("f", os.path.join(d, "lf")); os.symlink("nowhere", os.path.join(d, "dang"))
        res = []
        for mode, want in (("-P", ["./dang", "./lf"]), ("-L", ["./dang"])):
            rc, out, err = _find(repo, [mode, ".", "-lname", "*"], d)
            res.append(("find %s . -lname '*' = %r" % (mode, sorted(out.split())), sorted(out.split()) == want))
        rc, out, err = _find(repo, ["-H", "lf", "-lname", "*"], d)
        res.append(("find -H lf -lname '*' = %r" % out, out.strip() == ""))
        return _battery(res)


def system_budget(w, repo):
    if not build(repo):
        return None, "build failed"
    n = 300000
    rc, out, err = run([xargs_bin(repo), "true"], inp=b"x\n" * n, timeout=300)
    if rc == 126:
        return True, "%d one-byte arguments: xargs exit %d (%s)" % (n, rc, err.decode(errors='replace').strip()[:80])
    return False, "300000 one-byte arguments accepted (rc=%d)" % rc


# ------------------------------------------------------------------------------------------ C01/C11: MIR-level witnesses (exact)
def parser_tokens(w, repo):
    """run the real find on the witness expression over a single regular file and compare with the grammar's reference evaluation"""
    import sys
    sys.path.insert(0, os.path.join(os.path.dirname(os.path.dirname(os.path.abspath(__file__))), "mirsym"))
    from reference import reference
    if not build(repo):
        return None, "build failed"
    toks, env = w["tokens"], w.get("leaves", {})
    if "-readable" in toks and not env.get("t_readable", True) and os.geteuid() == 0:
        return None, "-readable false cannot be materialised as root"
    with Sandbox() as d:
        p = os.path.join(d, "f")
        with open(p, "w") as f:
            if not env.get("t_empty", True):
                f.write("x")
        rc, out, err = run([find_bin(repo), "f"] + toks, cwd=d)
        want = reference(toks, {"t_empty": env.get("t_empty", True), "t_readable": True})
        if want["accept"]:
            exp = b"".join(b"f\n" if e == "print\\n" else b"f\0" for e in want["trace"])
            ok = rc == 0 and out == exp
            detail = "find f %s: rc=%d stdout=%r, reference: accepted, stdout=%r" % (" ".join(toks), rc, out, exp)
        else:
            ok = rc != 0 and out == b""
            detail = "find f %s: rc=%d stdout=%r, reference: rejected (%s)" % (" ".join(toks), rc, out, want["why"])
        return (not ok), detail


# ------------------------------------------------------------------------------------------ C04/C19: MIR-level batching witnesses (exact)
def _ref_batching(lens, hard, cfg, n_lim, l_lim, s_lim, cmdlen, outcomes):
    """reference from the property: greedy, order-preserving batching under all limits; returns (batches, exit_code)"""
    def fits(ids):
        ok = True
        if cfg["n"]: ok = ok and len(ids) <= n_lim
        if cfg["L"]: ok = ok and 1 + sum(1 for i in ids[:-1] if hard[i]) <= l_lim
        if cfg["s"]: ok = ok and (cmdlen + 1) + sum(lens[i] + 1 for i in ids) <= s_lim
        return ok
    if not fits([]):
        return [], 1
    batches, cur, failed, ran = [], [], False, 0

    def run_batch(b):
        nonlocal failed, ran
        o = outcomes[ran] if ran < len(outcomes) else 0
        ran += 1
        batches.append(b)
        if o == 1: failed = True
        return o == 2
    for i in range(len(lens)):
        if fits(cur + [i]):
            cur.append(i)
            continue
        over_s = cfg["s"] and (cmdlen + 1) + sum(lens[j] + 1 for j in cur + [i]) > s_lim
        counts_ok = (not cfg["n"] or len(cur) + 1 <= n_lim) and (not cfg["L"] or 1 + sum(1 for j in cur if hard[j]) <= l_lim)
        # -x: an -s overflow inside an invocation that -n / -L still allow is fatal; when the count limit holds the argument back the invocation is simply complete
        if over_s and counts_ok and cfg["x"] and (cfg["n"] or cfg["L"]):
            return batches, 1
        if cur and run_batch(cur):
            return batches, 124
        cur = []
        if not fits([i]):
            return batches, 1
        cur = [i]
    if cur or not cfg["r"]:
        if run_batch(cur):
            return batches, 124
    return batches, 123 if failed else 0


def batching(w, repo):
    if not build(repo):
        return None, "build failed"
    wit, cfg = w.get("witness"), w.get("config")
    if not wit or not cfg:
        return None, "witness without values"
    g = lambda k, d=0: int(wit.get(k, d))
    nargs = w.get("nargs", 0)
    lens = [g("len%d" % i, 1) for i in range(nargs)]
    hard = [wit.get("hard%d" % i, "True") == "True" for i in range(nargs)]
    outcomes = [g("out%d" % i, 0) for i in range(nargs + 1)]
    n_lim, l_lim, s_lim, cmdlen = g("max_args", 1), g("max_lines", 1), g("max_chars", 0), g("cmdlen", 1)
    want_batches, want_rc = _ref_batching(lens, hard, cfg, n_lim, l_lim, s_lim, cmdlen, outcomes)
    with Sandbox() as d:
        cc = max(1, min(g("chars_cmd", cmdlen), cmdlen))
        if cc == cmdlen or cmdlen > 4 * cc:
            name = "c" * cmdlen
        else:                              # a command name of cmdlen bytes and fewer characters
            parts, left = [], cmdlen
            for k in range(cc):
                w_ = min(4, left - (cc - k - 1))
                parts.append({1: "c", 2: "\u00e9", 3: "\u20ac", 4: "\U0001f600"}[w_]); left -= w_
            name = "".join(parts)
        rec = os.path.join(d, name)
        open(rec, "w").write(_REC)
        os.chmod(rec, 0o755)
        log = os.path.join(d, "rec.log")
        open(log, "w").close()
        def text(i):
            """an argument of lens[i] bytes and (if the witness says so) fewer characters: multi-byte letters where needed"""
            L, C = lens[i], g("chars%d" % i, lens[i])
            C = max(1, min(C, L))
            if C == L or L > 4 * C:
                return (chr(97 + i) * L).encode()
            out, left = [], L
            for k in range(C):
                w_ = min(4, left - (C - k - 1))
                out.append({1: chr(97 + i), 2: "\u00e9", 3: "\u20ac", 4: "\U0001f600"}[w_]); left -= w_
            return "".join(out).encode()
        texts = [text(i) for i in range(nargs)]
        inp = b"".join(texts[i] + (b"\n" if hard[i] else b" ") for i in range(nargs))
        codes = ",".join({0: "0", 1: "1", 2: "255"}[o] for o in outcomes)
        args = []
        if cfg["n"]: args += ["-n", str(n_lim)]
        if cfg["L"]: args += ["-L", str(l_lim)]
        if cfg["s"]: args += ["-s", str(max(s_lim, 1))]
        if cfg["x"]: args += ["-x"]
        if cfg["r"]: args += ["-r"]
        env = dict(os.environ, REC_LOG=log, REC_CODES=codes, PATH=d + ":" + os.environ.get("PATH", ""))
        rc, out, err = run([xargs_bin(repo)] + args + [name], cwd=d, inp=inp, env=env)
        calls = [l.split(":", 1)[1].split() for l in open(log).read().splitlines()]
        want_calls = [[texts[i].decode() for i in b] for b in want_batches]
        ok = calls == want_calls and rc == want_rc
        detail = "xargs %s %s <%r: invocations %r rc=%d; reference %r rc=%d" % (" ".join(args), name, inp, calls, rc, want_calls, want_rc)
        if cfg["n"] and cfg["L"]:
            return None, "-n with -L is normalised by the option parser; not replayable as given"
        return (not ok), detail


def startpoints(w, repo):
    """exact: run the real find on the witness command line in a sandbox holding the vocabulary's starting points"""
    import sys
    sys.path.insert(0, os.path.join(os.path.dirname(os.path.dirname(os.path.abspath(__file__))), "mirsym"))
    if not build(repo):
        return None, "build failed"
    toks = w.get("tokens")
    if not toks:
        return None, "no tokens"
    what = w.get("what", "")
    with Sandbox() as d:
        os.makedirs(os.path.join(d, "w", "b"))
        open(os.path.join(d, "w", "-"), "w").close()
        open(os.path.join(d, "w", "(old)"), "w").close()
        open(os.path.join(d, "w", "!keep"), "w").close()
        # 'a' is deliberately missing: a starting point that cannot be examined
        cwd = os.path.join(d, "w")
        if "rejected, but the command line is well formed" in what:
            rc, out, err = run([find_bin(repo)] + toks, cwd=cwd)
            bad = b"nrecognized" in err or b"invalid expression" in err.lower()
            return (True if bad else False), "find %s: rc=%d stderr=%r" % (" ".join(toks), rc, err.decode(errors="replace").strip()[:120])
        if "follow mode" in what:
            # observable: a starting point that is a link to a directory holding a link to a directory.  Never: the link alone; Roots: its contents, the inner link not
            # descended; Always: the inner link descended as well
            flags = []
            for t in toks:
                if t in ("-H", "-L", "-P") or t.startswith("-O"):
                    flags.append(t)
                else:
                    break
            os.makedirs(os.path.join(d, "t", "real", "sub"))
            open(os.path.join(d, "t", "real", "sub", "f"), "w").close()
            os.symlink("sub", os.path.join(d, "t", "real", "inner"))
            os.symlink("real", os.path.join(d, "t", "lnk"))
            rc, out, err = run([find_bin(repo)] + flags + ["lnk"], cwd=os.path.join(d, "t"))
            lines = set(out.decode(errors="replace").split())
            got = "Always" if "lnk/inner/f" in lines else "Roots" if "lnk/sub/f" in lines else "Never"
            want = "Never"
            for t in flags:
                want = {"-H": "Roots", "-L": "Always", "-P": "Never"}.get(t, want)
            return (got != want), "find %s lnk: behaves as follow mode %s, the flags mean %s" % (" ".join(flags), got, want)
        rc, out, err = run([find_bin(repo)] + toks + ["-maxdepth", "0"] if not any(t in ("-print", "-true", "-quit", "!", "(", "-bogus") for t in toks) else [find_bin(repo)] + toks, cwd=cwd)
        missing = [t for t in toks if t == "a"]
        if "exit status zero" in what:
            # the defect class: an earlier failing starting point is forgotten when a later one succeeds
            rc2, out2, err2 = run([find_bin(repo), "a", "-"], cwd=cwd)
            if rc2 == 0:
                return True, "find a - (a missing, '-' present): exit status %d although 'a' could not be examined (%s)" % (rc2, err2.decode(errors="replace").strip()[:80])
            return False, "find a -: exit status %d" % rc2
        return None, "find %s: rc=%d stdout=%r (no exact observable for this kind of deviation)" % (" ".join(toks), rc, out[:80])


def exec_cli(w, repo):
    """scenario battery for -exec ... ; and -exec ... {} + with a recorder command"""
    if not build(repo):
        return None, "build failed"
    res = []
    with Sandbox() as d:
        os.makedirs(os.path.join(d, "r", "d"))
        for n in ("a b", "e'{}"):
            open(os.path.join(d, "r", n), "w").close()
        open(os.path.join(d, "r", "d", "-n"), "w").close()
        open(os.path.join(os.fsencode(d), b"r", b"n\xe9"), "w").close()          # a name that is not UTF-8
        rec = os.path.join(d, "rec.sh")
        open(rec, "w").write('#!/bin/sh\nprintf "%s|" "$PWD" >> "$REC_LOG"; for a in "$@"; do printf "<%s>" "$a" >> "$REC_LOG"; done; echo >> "$REC_LOG"\nexit ${REC_RC:-0}\n')
        os.chmod(rec, 0o755)
        log = os.path.join(d, "rec.log")

        def go(args, rc_env="0"):
            open(log, "w").close()
            rc, out, err = run([find_bin(repo), "r", "-sorted"] + args, cwd=d, env=dict(os.environ, REC_LOG=log, REC_RC=rc_env))
            return rc, out.decode(errors="replace"), [l for l in open(log, errors="surrogateescape").read().splitlines()]
        rc, out, calls = go(["-exec", rec, "x{}y", "{}", ";"])
        want = ["<x%sy><%s>" % (p, p) for p in ("r", "r/a b", "r/d", "r/d/-n", "r/e'{}", "r/n\udce9")]
        res.append(("-exec ; argv %r" % [c.split("|", 1)[1] for c in calls], [c.split("|", 1)[1] for c in calls] == want and rc == 0))
        rc, out, calls = go(["-name", "-n", "-execdir", rec, "x{}y", "{}", ";"])
        res.append(("-execdir ; substitutes ./basename also inside a longer argument: %r" % calls, [c.split("|", 1)[1] for c in calls] == ["<x./-ny><./-n>"] and calls[0].split("|")[0].endswith("/r/d")))
        rc, out, calls = go(["-exec", rec, "{}", ";", "-print"], "3")
        res.append(("failing -exec ; is false and leaves the status alone: rc=%d out=%r" % (rc, out), rc == 0 and out == ""))
        rc, out, calls = go(["-exec", rec, "fixed", "{}", "+"])
        res.append(("-exec + one invocation with all paths: %r" % calls, len(calls) == 1 and calls[0].endswith("<fixed><r><r/a b><r/d><r/d/-n><r/e'{}><r/n\udce9>")))
        rc, out, calls = go(["-exec", "false", "{}", "+", "-exec", "true", "{}", "+"])
        res.append(("a failed -exec + is not forgotten when a later batch action succeeds: rc=%d" % rc, rc != 0))
        rc, out, calls = go(["(", "-type", "d", "-exec", "false", "{}", "+", ")", "-o", "(", "-type", "f", "-execdir", "true", "{}", "+", ")"])
        res.append(("failed -exec + followed by a successful -execdir +: rc=%d" % rc, rc != 0))
        rc, out, calls = go(["-exec", rec, "{}", "+"], "1")
        res.append(("failing -exec + makes the status non-zero: rc=%d" % rc, rc != 0))
        rc, out, calls = go(["-execdir", rec, "{}", "+"])
        ok = all(("<./" in c) for c in calls) and len(calls) >= 3
        res.append(("-execdir + per directory: %r" % calls, ok))
        rc, out, calls = go(["-exec", rec, "{}", "+", "-quit"])
        res.append(("-exec + then -quit still runs the pending invocation: %r" % calls, len(calls) == 1 and calls[0].endswith("<r>")))
        # two starting points, one batch action: every path once (nothing of the first starting point is delivered again with the second)
        open(log, "w").close()
        rc, out, err = run([find_bin(repo), "r/d", "r/d", "-exec", rec, "fixed", "{}", "+"], cwd=d, env=dict(os.environ, REC_LOG=log, REC_RC="0"))
        calls = [l.split("|", 1)[1] for l in open(log, errors="surrogateescape").read().splitlines()]
        res.append(("find r/d r/d -exec + delivers each visited path once: %r" % calls, "".join(c.replace("<fixed>", "") for c in calls) == "<r/d><r/d/-n><r/d><r/d/-n>"))
        # -mindepth 2: consecutive entries of equal depth in different directories, the directories between them not visited
        os.makedirs(os.path.join(d, "r", "e2")); open(os.path.join(d, "r", "e2", "z"), "w").close(); open(os.path.join(d, "r", "d", "x y"), "w").close()
        for extra in ([], ["-depth"]):
            rc, out, calls = go(["-mindepth", "2"] + extra + ["-execdir", rec, "fixed", "{}", "+"])
            got = sorted((c.split("|")[0].rsplit("/", 2)[-2] + "/" + c.split("|")[0].rsplit("/", 1)[-1], c.split("|", 1)[1]) for c in calls)
            res.append(("-mindepth 2 %s-execdir +: one invocation per directory, in it: %r" % (" ".join(extra + [""]), got), got == [("r/d", "<fixed><./-n><./x y>"), ("r/e2", "<fixed><./z>")]))
    return _battery(res)


def reader_bytes(w, repo):
    """exact: pipe the witness bytes into the real xargs (default mode or -d) and compare argv with the reference"""
    if not build(repo):
        return None, "build failed"
    data = bytes(w.get("input") or [])
    kind, delim = w.get("kind"), w.get("delimiter")
    if not data:
        return None, "no input bytes"
    with Sandbox() as d:
        out_path = os.path.join(d, "argv.bin")
        script = os.path.join(d, "dump.sh")
        open(script, "w").write('#!/bin/sh\nfor a in "$@"; do printf "%s\\0" "$a" >> "' + out_path + '"; done\n')
        os.chmod(script, 0o755)
        if kind == "bytes":
            if delim is None or delim >= 0x80 or delim in (0x5C,):
                return None, "delimiter %r cannot be given as a single-byte -d operand" % (delim,)
            dstr = {0x0A: "\\n", 0x09: "\\t", 0x0B: "\\v"}.get(delim, chr(delim))
            toks = [t for t in data.split(bytes([delim])) if t]
            err = False
            # every argument reaches the command byte for byte (no lossy conversion), under the witness's read() sizes and with everything in one piece
            for pieces in chunkings(data, w.get("chunks")) + [[data]]:
                if os.path.exists(out_path):
                    os.remove(out_path)
                rc, out, e = run_chunked([xargs_bin(repo), "-d", dstr, script], pieces, cwd=d)
                got = open(out_path, "rb").read().split(b"\0")[:-1] if os.path.exists(out_path) else []
                if not (got == toks and rc == 0):
                    return True, "input %r -d %#x delivered as read()s %r: xargs delivered %r (rc=%d), reference %r" % (data, delim, pieces, got, rc, toks)
            return False, "input %r -d %#x: like the reference under every chunking tried" % (data, delim)
        else:
            toks, err, amb = _ref_tokens(data)
            if amb:
                return None, "'' as a whole token: outside the claim"
            want = list(toks)            # byte for byte: bytes that are not UTF-8 included
            for pieces in chunkings(data, w.get("chunks")):
                if os.path.exists(out_path):
                    os.remove(out_path)
                rc, out, e = run_chunked([xargs_bin(repo), script], pieces, cwd=d)
                got = open(out_path, "rb").read().split(b"\0")[:-1] if os.path.exists(out_path) else []
                ok = (rc == 1) if err else (got == want and rc == 0)
                if not ok:
                    return True, "input %r delivered as read()s %r: xargs delivered %r (rc=%d), reference %r%s" % (data, pieces, got, rc, want, " + error" if err else "")
            return False, "input %r: like the reference under every chunking tried" % data
        got = open(out_path, "rb").read().split(b"\0")[:-1] if os.path.exists(out_path) else []
        want = [t.decode("utf-8", errors="replace").encode() for t in toks]
        ok = (rc == 1) if err else (got == want and rc == 0)
        detail = "input %r%s: xargs delivered %r (rc=%d), reference %r%s" % (data, (" -d %#x" % delim) if kind == "bytes" else "", got, rc, want, " + error" if err else "")
        return (not ok), detail


def glob_pattern(w, repo):
    """exact: files named after the subject (and neighbours); compare find -name PATTERN with the reference fnmatch"""
    import sys
    sys.path.insert(0, os.path.join(os.path.dirname(os.path.dirname(os.path.abspath(__file__))), "mirsym"))
    if not build(repo):
        return None, "build failed"
    pat, subj = w.get("pattern"), w.get("subject")
    if pat is None:
        # a panic witness: look for it with the bracket patterns known to be delicate
        res = []
        with Sandbox() as d:
            open(os.path.join(d, "a"), "w").close()
            for p in ("[[.]", "[[:]", "[[=]", "[a[.]", "[[.a"):
                rc, out, err = run([find_bin(repo), ".", "-name", p], cwd=d)
                res.append(("find . -name %r: rc=%d" % (p, rc), rc in (0, 1)))
        return _battery(res)
    names = [s for s in {subj, "a", "b", "]", "[[", "[a", "."} if s and "/" not in s and s not in (".", "..")]
    with Sandbox() as d:
        for n in names:
            open(os.path.join(d, n), "w").close()
        rc, out, err = run([find_bin(repo), ".", "-mindepth", "1", "-name", pat], cwd=d)
        if rc not in (0, 1):
            return True, "find . -name %r: rc=%d (%s)" % (pat, rc, err.decode(errors="replace").strip()[:100])
        got = sorted(l[2:] for l in out.decode(errors="replace").splitlines())
        import importlib.util
        spec = importlib.util.spec_from_file_location("fnref", os.path.join(os.path.dirname(os.path.dirname(os.path.abspath(__file__))), "mirsym", "fnmatch_ref.py"))
        fnref = importlib.util.module_from_spec(spec); spec.loader.exec_module(fnref)
        want = sorted(n for n in names if fnref.fnmatch_ref(pat, n))
        return (got != want), "find . -name %r over %r selected %r, fnmatch reference %r" % (pat, sorted(names), got, want)


def replace_cli(w, repo):
    """scenario battery for xargs -I / -i / --replace: one run per line, textual replacement, empty input, option precedence"""
    if not build(repo):
        return None, "build failed"
    res = []
    with Sandbox() as d:
        rec = os.path.join(d, "rec.sh")
        open(rec, "w").write('#!/bin/sh\nfor a in "$@"; do printf "<%s>" "$a" >> "$REC_LOG"; done; echo >> "$REC_LOG"\ncase "$1" in *stop*) exit 255;; *fail*) exit 3;; esac\nexit 0\n')
        os.chmod(rec, 0o755)
        log = os.path.join(d, "rec.log")

        def go(opts, args, inp):
            open(log, "w").close()
            rc, out, err = run([xargs_bin(repo)] + opts + [rec] + args, cwd=d, inp=inp, env=dict(os.environ, REC_LOG=log))
            return rc, open(log).read().splitlines()
        kind = (w.get("kind") or "").split("/")[0]
        for opts in (["-I{}"], ["-i"], ["--replace"], ["-I{}", "-r"]) if kind != "normalize_options" else ():
            rc, calls = go(opts, ["x{}y"], b"")
            res.append(("%s on empty input: rc=%d calls=%r" % (" ".join(opts), rc, calls), rc == 0 and calls == []))
        if kind != "normalize_options":
            rc, calls = go(["-I{}"], ["x{}y"], b"\n\n")
            res.append(("-I{} on blank lines only: rc=%d calls=%r" % (rc, calls), rc == 0 and calls == []))
        rc, calls = go(["-I{}"], ["a{}b", "{}{}", "plain", "-{}"], b"l 1\n{}\n\nX\n")
        want = ["<a%sb><%s%s><plain><-%s>" % (l, l, l, l) for l in ("l 1", "{}", "X")]
        res.append(("-I{} argv per line %r" % calls, calls == want and rc == 0))
        rc, calls = go(["-I{}"], ["{{}}", "f({{}, {})", "{{{}"], b"v w\n")
        res.append(("-I{} with an occurrence right after R's own first byte %r" % calls, calls == ["<{v w}><f({v w, v w)><{{v w>"]))
        rc, calls = go(["-Iab"], ["aab", "abab", "aabb"], b"Z\n")
        res.append(("-Iab on aab / abab / aabb %r" % calls, calls == ["<aZ><ZZ><aZb>"]))
        rc, calls = go(["-IX"], ["aXb", "{}"], b"X X\n")
        res.append(("-IX with X in the line %r" % calls, calls == ["<aX Xb><{}>"]))
        rc, calls = go(["--replace=%%"], ["a%%", "%"], b"p q\n")
        res.append(("--replace=%%%% %r" % calls, calls == ["<ap q><%>"]))
        rc, calls = go(["-I{}"], ["{}"], b"one\nstop\nthree\n")
        res.append(("exit 255 stops at once: rc=%d calls=%r" % (rc, calls), rc == 124 and calls == ["<one>", "<stop>"]))
        rc, calls = go(["-I{}"], ["{}"], b"fail\ntwo\n")
        res.append(("exit 3 goes on, status 123: rc=%d calls=%r" % (rc, calls), rc == 123 and calls == ["<fail>", "<two>"]))
        I_MODE, N2, L2 = ["<xa by>", "<xc dy>"], ["<x{}y><a><b>", "<x{}y><c><d>"], ["<x{}y><a><b><c><d>"]
        for opts, want in () if kind == "pipeline" else ((["-n2", "-I{}"], I_MODE), (["-I{}", "-n2"], N2), (["-L2", "-I{}"], I_MODE), (["-I{}", "-L2"], L2), (["-n2", "-i"], I_MODE), (["-i", "-n2"], N2),
                           (["-L2", "--replace"], I_MODE), (["--replace", "-L2"], L2), (["-n2", "-i={}"], I_MODE), (["-n1", "-I{}"], I_MODE), (["-I{}", "-n1"], I_MODE),
                           (["-I{}", "-L1"], ["<x{}y><a><b>", "<x{}y><c><d>"]), (["-L1", "-n2", "-I{}"], I_MODE), (["-I{}", "-L1", "-n2"], N2), (["-n2", "-I{}", "-L2"], L2)):
            rc, calls = go(opts, ["x{}y"], b"a b\nc d\n")
            res.append(("%s: %r" % (" ".join(opts), calls), calls == want and rc == 0))
    return _battery(res)


def print0_pipe(w, repo):
    """scenario battery: find START -print0 | xargs -0 CMD over a tree of awkward names, byte for byte"""
    if not build(repo):
        return None, "build failed"
    res = []
    names = [" ", "  x ", "-n", "--", "a\nb", "q'1", 'q"2', "b\\s", "{}", "$(id)", "*", "?[a]", "\t", ";", "a b c", "é中", ".h"]
    with Sandbox() as d:
        for start in ("r", "./r/", "-r", "r x", " ", "\n\t"):
            root = os.path.join(d, start.rstrip("/")) if not start.startswith("./") else os.path.join(d, "r")
            if not os.path.isdir(root):
                os.makedirs(root)
                for n in names:
                    open(os.path.join(root, n), "w").close()
                os.makedirs(os.path.join(root, "sub dir", "-deep"))
                open(os.path.join(root, "sub dir", "-deep", "f\n"), "w").close()
        rec = os.path.join(d, "rec.sh")
        out_path = os.path.join(d, "argv.bin")
        open(rec, "w").write('#!/bin/sh\nfor a in "$@"; do printf "%s\\0" "$a" >> "' + out_path + '"; done\n')
        os.chmod(rec, 0o755)
        for start in ("r", "./r/", "-r", "r x", " ", "\n\t"):
            pre = ["--"] if start.startswith("-") else []
            base = start if not start.startswith("-") else "./" + start
            # expected: the starting point as given + '/'-joined names
            exp = set()
            top = os.path.join(d, base.rstrip("/") if base != "./r/" else "r")
            for dp, dns, fns in os.walk(top):
                rel = os.path.relpath(dp, top)
                here = base if rel == "." else (base if base.endswith("/") else base + "/") + rel
                exp.add(here)
                for n in fns:
                    exp.add((here if here.endswith("/") else here + "/") + n)
            rc, out, err = run([find_bin(repo), base, "-print0"], cwd=d)
            got = out.split(b"\0")
            ok = rc == 0 and got[-1] == b"" and sorted(got[:-1]) == sorted(e.encode() for e in exp)
            res.append(("find %s -print0: %d records, expected %d" % (base, len(got) - 1, len(exp)), ok))
            if os.path.exists(out_path):
                os.remove(out_path)
            rc2, o2, e2 = run([xargs_bin(repo), "-0", rec], cwd=d, inp=out)
            argv = open(out_path, "rb").read().split(b"\0")[:-1] if os.path.exists(out_path) else []
            res.append(("... | xargs -0 CMD delivers each path once: %d arguments" % len(argv), rc2 == 0 and argv == got[:-1]))
            rc, out, err = run([find_bin(repo), base, "-name", "-n", "-print"], cwd=d)
            res.append(("find %s -name -n -print: %r" % (base, out), out == ((base if base.endswith("/") else base + "/") + "-n\n").encode()))
    return _battery(res)


def printf_paths(w, repo):
    """exact-ish: run the witness format (or a battery of path directives) over a small tree for each spelling of the starting point;
    the reference is computed from the spelling and the names"""
    if not build(repo):
        return None, "build failed"
    fmts = [w["format"]] if w.get("format") else []
    fmts += ["%p", "%P", "%f", "%h", "[%5f]", "[%-5f]", "%d"]       # %H: only when the witness asks for it (known finding F-C16-H)
    dev = []
    with Sandbox() as d:
        os.makedirs(os.path.join(d, "r", "d e"))
        open(os.path.join(d, "r", "d e", "-x"), "w").close()
        os.makedirs(os.path.join(d, "r x"))
        for start in ([w["start"]] if w.get("start") in ("r", "./r/", "r x") else []) + ["r", "./r/", "r x"]:
            top = start.rstrip("/")
            ents = [(start, 0)] if start != "r x" else [(start, 0)]
            if top.endswith("r") and "x" not in start:
                j = start if start.endswith("/") else start + "/"
                ents += [(j + "d e", 1), (j + "d e/-x", 2)]
            for fmt in fmts:
                if any(c in fmt for c in "\\") or "%%" in fmt:
                    continue
                rc, out, err = run([find_bin(repo), start, "-sorted", "-printf", fmt + "\n"], cwd=d)
                lines = out.decode(errors="replace").split("\n")[:-1]
                want = []
                for p, depth in ents:
                    last = p.rstrip("/").rsplit("/", 1)
                    vals = {"p": p, "H": start, "P": p[len(start):].lstrip("/") if depth else "", "f": last[-1], "h": (last[0] if len(last) == 2 else "."), "d": str(depth)}
                    import re as _re
                    def sub(mo):
                        v = vals[mo.group(3)]
                        wd = int(mo.group(2) or 0)
                        return v.ljust(wd) if mo.group(1) else v.rjust(wd)
                    want.append(_re.sub(r"%(-?)(\d*)([pHPfhd])", sub, fmt))
                if lines != want or rc != 0:
                    dev.append("find %s -printf %r: %r, expected %r" % (start, fmt, lines, want))
    if dev:
        return True, "; ".join(dev[:3])
    return None, "path directives behave like the reference for the spellings tried"


def walk_depth(w, repo):
    """exact: the model's tree on disk (dangling and looping links, an unreadable directory); every (mindepth, maxdepth) pair,
    -depth, -P/-H/-L; the reference is computed from the tree"""
    if not build(repo):
        return None, "build failed"
    if os.geteuid() == 0:
        unread = False            # root can read everything: the unreadable directory is an ordinary empty one
    else:
        unread = True
    dev = []
    with Sandbox() as d:
        os.makedirs(os.path.join(d, "r", "d", "g"))
        for f in ("r/a", "r/d/f", "r/d/g/h", "r/z"):
            open(os.path.join(d, f), "w").close()
        os.symlink("..", os.path.join(d, "r", "d", "k"))
        os.symlink("missing", os.path.join(d, "r", "d", "m"))
        os.symlink("missing", os.path.join(d, "r", "l"))
        os.makedirs(os.path.join(d, "r", "x"))
        os.chmod(os.path.join(d, "r", "x"), 0 if unread else 0o755)
        depth = {"r": 0, "r/a": 1, "r/d": 1, "r/d/f": 2, "r/d/g": 2, "r/d/g/h": 3, "r/d/k": 2, "r/d/m": 2, "r/l": 1, "r/x": 1, "r/z": 1}
        for fl in ("-P", "-H", "-L"):
            for mn in range(0, 5):
                for mx in range(0, 5):
                    for df in (False, True):
                        rc, out, err = run([find_bin(repo), fl, "r", "-mindepth", str(mn), "-maxdepth", str(mx)] + (["-depth"] if df else []), cwd=d)
                        got = sorted(out.decode().split("\n")[:-1])
                        want = sorted(p for p, dd in depth.items() if mn <= dd <= mx and not (fl == "-L" and p == "r/d/k"))
                        if got != want:
                            dev.append("find %s r -mindepth %d -maxdepth %d%s: evaluated %r, expected %r" % (fl, mn, mx, " -depth" if df else "", got, want))
        # the starting point as a symbolic link to the directory (walkdir: follow_root_links)
        os.symlink("r", os.path.join(d, "rl"))
        for fl in ("-H", "-L"):
            for mn, mx in ((0, 4), (1, 1), (1, 2), (2, 2)):
                for df in (False, True):
                    rc, out, err = run([find_bin(repo), fl, "rl", "-mindepth", str(mn), "-maxdepth", str(mx)] + (["-depth"] if df else []), cwd=d)
                    got = out.decode().split("\n")[:-1]
                    want = sorted("rl" + p[1:] for p, dd in depth.items() if mn <= dd <= mx and not (fl == "-L" and p == "r/d/k"))
                    if sorted(got) != want:
                        dev.append("find %s rl -mindepth %d -maxdepth %d%s: evaluated %r, expected %r" % (fl, mn, mx, " -depth" if df else "", sorted(got), want))
                    elif df and mn == 0 and got and got[-1] != "rl":
                        dev.append("find %s rl -depth: the starting point is evaluated at position %d of %d, not last" % (fl, got.index("rl") + 1, len(got)))
        os.chmod(os.path.join(d, "r", "x"), 0o755)
    if dev:
        return True, "; ".join(dev[:2]) + (" (+%d more)" % (len(dev) - 2) if len(dev) > 2 else "")
    return None, "the depth-range configurations behave like the reference natively"


def operand_cli(w, repo):
    """exact: run the real find on the witness tokens (plus neighbours) over one file; a sentence the reference rejects must be
    refused (non-zero status, nothing printed), one it accepts must run"""
    if not build(repo):
        return None, "build failed"
    toks = w.get("tokens")
    cases = ([toks] if toks else []) + [["-size", "x5k"], ["-size", "5k"], ["-size", "5kk"], ["-newermmx", "ref"], ["-newermm", "ref"], ["-inum", "x5"], ["-type", "ff"], ["-mtime", "+"]]
    want_of = {("-size", "5k"): True, ("-newermm", "ref"): True}
    dev = []
    with Sandbox() as d:
        open(os.path.join(d, "f"), "w").close()
        open(os.path.join(d, "ref"), "w").close()
        for i, t in enumerate(cases):
            want = ("accepts" in w.get("what", "").split("reference")[-1]) if (i == 0 and toks) else want_of.get(tuple(t), False)
            rc, out, err = run([find_bin(repo), "f"] + list(t), cwd=d)
            ok = (rc == 0) if want else (rc != 0 and out == b"")
            if rc == 101 or rc < 0 or b"panicked at" in err:
                ok = False                  # "never a panic, abort or hang": a Rust panic ends the process with status 101
            if not ok:
                dev.append("find f %s: rc=%d stdout=%r%s, reference %s" % (" ".join(repr(x) for x in t), rc, out, " (panic)" if b"panicked at" in err else "", "accepts" if want else "rejects"))
    if dev:
        return True, "; ".join(dev[:3])
    return (False if toks else None), "the witness and %d neighbouring command lines behave like the reference natively" % (len(cases) - 1)


def files0_cli(w, repo):
    """exact: the witness command line with the model's files on disk; the starting points walked are read off -print"""
    import sys
    sys.path.insert(0, os.path.join(os.path.dirname(os.path.dirname(os.path.abspath(__file__))), "mirsym"))
    if not build(repo):
        return None, "build failed"
    files = {"F_ab": b"a\0./b/\0", "F_dash_nl": b"-n\0x\ny\0", "F_hole": b"a\0\0b\0", "F_empty": b"", "F_nofinal": b"a\0b", "F_onlynul": b"\0", "F_hole3": b"a\0\0b\0c\0"}
    toks = w.get("tokens") or ["-files0-from", "F_hole"]
    with Sandbox() as d:
        for n, c in files.items():
            open(os.path.join(d, n), "wb").write(c)
        for n in ("a", "-n", "x\ny", "b"):
            open(os.path.join(d, n), "w").close()
        os.makedirs(os.path.join(d, "b2")); 
        cases = [toks] + [["-files0-from", f] for f in files] + [["a", "-files0-from", "F_ab"], ["-files0-from", "F_missing"]]
        dev = []
        for t in cases:
            rc, out, err = run([find_bin(repo)] + list(t) + ([] if any(x in t for x in ("-print", "-quit")) else ["-maxdepth", "0", "-print0"]), cwd=d)
            f = t[t.index("-files0-from") + 1] if "-files0-from" in t and t.index("-files0-from") + 1 < len(t) else None
            if f in files and t[0] == "-files0-from" and len(t) == 2:
                names = [x.decode() for x in files[f].split(b"\0")]
                if names and names[-1] == "":
                    names = names[:-1]
                want = [x for x in names if x]
                got = [x.decode() for x in out.split(b"\0")[:-1]]
                got = [g for g in got]
                if [g.rstrip("/") for g in got if os.path.lexists(os.path.join(d, g))] != [x.rstrip("/") for x in want if os.path.lexists(os.path.join(d, x))]:
                    dev.append("find %s: walked %r, expected %r" % (" ".join(t), got, want))
            elif f == "F_missing" or (t[0] != "-files0-from" and "-files0-from" in t and t[0] not in (".", "-L", "--")):
                if rc == 0:
                    dev.append("find %s: accepted (rc=0)" % " ".join(t))
    if dev:
        return True, "; ".join(dev[:3])
    return None, "-files0-from behaves like the reference for the files tried"


def wiring_cli(w, repo):
    """scenario battery for do_xargs' wiring: -s alongside the system limit, -n/-L values, reader selection"""
    if not build(repo):
        return None, "build failed"
    res = []
    with Sandbox() as d:
        # a user -s far above what the kernel accepts must not replace the system limit: 30 arguments of 100 kB
        big = os.path.join(d, "big.txt")
        with open(big, "w") as f:
            for i in range(30):
                f.write("a" * 100000 + "\n")
        rc, out, err = run([xargs_bin(repo), "-a", big, "-s", "3000000", "true"], cwd=d, env={"PATH": os.environ.get("PATH", "/usr/bin:/bin")})
        res.append(("-s 3000000 with 3 MB of arguments: rc=%d %s" % (rc, err.decode(errors="replace").strip()[:80]), rc == 0))
        # the command and its fixed arguments are charged to the system budget also when -n is in force: 40 x 100 kB with a fixed 100 kB argument
        rc, out, err = run([xargs_bin(repo), "-a", big, "-n", "1000", "true", "x" * 100000], cwd=d, env={"PATH": os.environ.get("PATH", "/usr/bin:/bin")})
        res.append(("-n 1000 with a 100 kB fixed argument and 3 MB of input: rc=%d %s" % (rc, err.decode(errors="replace").strip()[:80]), rc == 0))
        rc, calls, err = _xargs(repo, d, ["-n2"], b"a b c d e\n")
        res.append(("-n2 %r" % calls, calls == [["a", "b"], ["c", "d"], ["e"]]))
        rc, calls, err = _xargs(repo, d, ["-L1"], b"a b\nc\n")
        res.append(("-L1 %r" % calls, calls == [["a", "b"], ["c"]]))
        rc, calls, err = _xargs(repo, d, ["-d", ","], b"a b,c")
        res.append(("-d , keeps blanks: %r" % calls, [" ".join(c) for c in calls] == ["a b c"] or calls == [["a", "b", "c"]]))
        rc, calls, err = _xargs(repo, d, ["-0"], b"a'b\0c")
        res.append(("-0 takes quotes literally: %r rc=%d" % (calls, rc), rc == 0 and calls == [["a'b", "c"]]))
    return _battery(res)


def regex_cli(w, repo):
    """exact: a file at the witness's path, `find START tokens...`; selected / not selected / rejected is compared with the C17 reference"""
    import sys
    mdir = os.path.join(os.path.dirname(os.path.dirname(os.path.abspath(__file__))), "mirsym")
    if mdir not in sys.path:
        sys.path.insert(0, mdir)
    import regex_ref
    if not build(repo):
        return None, "build failed"
    toks, subj = w.get("tokens"), w.get("subject")
    if not toks or not subj:
        return None, "witness without tokens / path"
    start, name = subj.rsplit("/", 1)
    want = regex_ref.reference(list(toks), subj)
    with Sandbox() as d:
        os.makedirs(os.path.join(d, start), exist_ok=True)
        open(os.path.join(d, start, name), "w").close()
        rc, out, err = run([find_bin(repo), start] + list(toks), cwd=d)
        lines = out.decode("utf-8", errors="surrogateescape").split("\n")      # (a path may hold bytes that are not UTF-8)
        if rc not in (0, 1):
            return True, "find %s %s: rc=%d (%s)" % (start, " ".join(toks), rc, err.decode(errors="replace").strip()[:120])
        shown = "".join("\ufffd" if 0xDC80 <= ord(c) <= 0xDCFF else c for c in subj)      # -print shows a byte that is not UTF-8 as U+FFFD (outside C07, which is about UTF-8 names)
        got = ("reject", "") if (rc != 0 and not out) else ("accept", subj in lines or shown in lines)
        detail = "find %s %s: rc=%d, %r %s; reference: %s" % (start, " ".join(toks), rc, subj, "rejected" if got[0] == "reject" else ("selected" if got[1] else "not selected"),
                                                             "rejected (%s)" % want[1] if want[0] == "reject" else ("selected" if want[1] else "not selected"))
        return (got[0] != want[0] or (got[0] == "accept" and got[1] != want[1])), detail


def clock_cli(w, repo):
    """scenario: the reference instant of the time tests is the start of find, not the first evaluation of a time test.
    A file is 57 s old when find starts; the first starting point costs 4 s (-exec sleep); -mmin -1 (age < 1 minute) must still select it."""
    if not build(repo):
        return None, "build failed"
    with Sandbox() as d:
        os.mkdir(os.path.join(d, "slow"))
        f = os.path.join(d, "f")
        open(f, "w").close()
        t = time.time() - 57
        os.utime(f, (t, t))
        rc, out, err = run([find_bin(repo), "slow", "f", "(", "-name", "slow", "-exec", "sleep", "4", ";", ")", "-o", "-name", "f", "-mmin", "-1", "-print"], cwd=d)
        got = out.decode(errors="replace").split()
        return _battery([("a file 57 s old at start, first time test evaluated 4 s later: -mmin -1 selected %r (rc=%d)" % (got, rc), got == ["f"])])


def subject_cli(w, repo):
    """exact: the witness's entry (file, or symbolic link with the witness's target) on disk; `find START PRIMARY GLOB` must select it iff the C12 reference says so"""
    import sys
    mdir = os.path.join(os.path.dirname(os.path.dirname(os.path.abspath(__file__))), "mirsym")
    if mdir not in sys.path:
        sys.path.insert(0, mdir)
    from fnmatch_ref import fnmatch_ref
    if not build(repo):
        return None, "build failed"
    prim, glob, ent = w.get("primary"), w.get("glob"), w.get("entry")
    if not prim or glob is None or not ent:
        return None, "witness without primary / glob / entry"
    path, kind, target = ent
    start = path if kind == "E" else ("./" + path.split("/")[1] if path.startswith("./") else path.split("/")[0])
    fold = prim.startswith("-i")
    if "lname" in prim:
        subj = target
    elif "name" in prim:
        subj = [c for c in path.split("/") if c][-1]
    else:
        subj = path
    want = False if subj is None else (fnmatch_ref(glob.lower(), subj.lower()) if fold else fnmatch_ref(glob, subj))
    with Sandbox() as d:
        full = os.path.join(d, path.rstrip("/"))
        os.makedirs(os.path.dirname(full), exist_ok=True)
        if path.endswith("/") or (kind == "E" and "/" not in path.rstrip("/") and path.rstrip("/") in ("r",)):
            os.makedirs(full, exist_ok=True)
        elif target is not None:
            os.symlink(target, full)
        elif not os.path.exists(full):
            open(full, "w").close()
        rc, out, err = run([find_bin(repo), start, prim, glob, "-print0"], cwd=d)       # (-print0: the entry's name may end in a newline)
        got = path in out.decode(errors="replace").split("\0")
        return (got != want), "find %s %s %r: %r %s (rc=%d); reference: %s" % (start, prim, glob, path, "selected" if got else "not selected", rc, "selected" if want else "not selected")


# ------------------------------------------------------------------------------------------ C13 (stat records)
def stat_cli(w, repo):
    """scenario battery with an independent reference: a tree of files, directories and links whose link and target differ in owner,
    group, size, link count and inode; every stat-based test under -P/-H/-L, at depth 0 and 1, against os.lstat / os.stat chosen by the
    property's rule. A mount point (where readdir's d_ino differs from st_ino) is included when the sandbox has one."""
    if not build(repo):
        return None, "build failed"
    res = []
    with Sandbox() as d:
        j = lambda *p: os.path.join(d, *p)
        os.makedirs(j("t", "d")); os.makedirs(j("t", "ed")); os.makedirs(j("t", "sub"))
        open(j("t", "d", "x"), "w").close()
        open(j("t", "f"), "w").write("0123456789"); open(j("t", "e"), "w").close()
        os.link(j("t", "f"), j("t", "h"))
        for name, target in (("lf", "f"), ("le", "e"), ("ld", "d"), ("led", "ed"), ("dang", "nowhere")):
            os.symlink(target, j("t", name)); os.symlink("../" + target, j("t", "sub", name))
        try:
            os.chown(j("t", "e"), 1, 1)
            for name in ("lf", "le", "ld", "led", "dang"):
                os.lchown(j("t", name), 7, 7); os.lchown(j("t", "sub", name), 7, 7)
        except OSError:
            pass
        def record(path, follows):
            if follows:
                try:
                    return os.stat(path)
                except FileNotFoundError:
                    return os.lstat(path)
                except OSError:
                    return None
            return os.lstat(path)
        import stat as st
        def want(test, rec, path):
            k, v = test
            if rec is None:
                return False
            if k == "-uid": return rec.st_uid == v
            if k == "-gid": return rec.st_gid == v
            if k == "-user": return rec.st_uid == v[1]
            if k == "-group": return rec.st_gid == v[1]
            if k == "-links": return rec.st_nlink == v
            if k == "-inum": return rec.st_ino == v
            if k == "-size": return rec.st_size == v
            if k == "-empty":
                if st.S_ISREG(rec.st_mode): return rec.st_size == 0
                if st.S_ISDIR(rec.st_mode): return not os.listdir(path)
                return False
            if k == "-samefile": return (rec.st_dev, rec.st_ino) == (v[1].st_dev, v[1].st_ino)
        ino = lambda p: os.lstat(j("t", p)).st_ino
        for mode in ("-P", "-H", "-L"):
            tests = [("-uid", 7), ("-uid", 0), ("-uid", 1), ("-gid", 7), ("-gid", 1), ("-user", ("daemon", 1)), ("-user", ("root", 0)), ("-user", ("7", 7)), ("-group", ("7", 7)), ("-group", ("daemon", 1)),
                     ("-links", 1), ("-links", 2), ("-inum", ino("f")), ("-inum", ino("lf")), ("-inum", ino("d")), ("-inum", ino("ld")), ("-size", 0), ("-size", 10), ("-empty", None)]
            for fname in ("f", "lf", "e", "d", "dang"):
                tests.append(("-samefile", (fname, record(j("t", fname), mode != "-P"))))
            for test in tests:
                k, v = test
                opnd = [] if v is None else [("%dc" % v) if k == "-size" else (v[0] if isinstance(v, tuple) else str(v))]
                # depth 0: every entry of t as a starting point; depth 1: below t/sub
                starts = ["f", "h", "e", "d", "ed", "lf", "le", "ld", "led", "dang"]
                for s in starts:
                    rc, out, err = _find(repo, [mode, s, "-maxdepth", "0", k] + opnd, j("t"))
                    got = s in out.split("\n")
                    exp = bool(want(test, record(j("t", s), mode != "-P"), j("t", s)))
                    if got != exp:
                        res.append(("find %s %s %s %s: %s, the %s record says %s" % (mode, s, k, " ".join(opnd), "selected" if got else "not selected", "stat" if mode != "-P" else "lstat", exp), False))
                    else:
                        res.append(("", True))
                rc, out, err = _find(repo, [mode, "sub", "-mindepth", "1", "-maxdepth", "1", k] + opnd, j("t"))
                got = sorted(l for l in out.split("\n") if l)
                exp = sorted("sub/" + n for n in os.listdir(j("t", "sub")) if want(test, record(j("t", "sub", n), mode == "-L"), j("t", "sub", n)))
                res.append(("find %s sub -mindepth 1 -maxdepth 1 %s %s: %r, reference %r" % (mode, k, " ".join(opnd), got, exp), got == exp))
        # mount points directly below /: readdir's d_ino is the covered directory's, lstat's st_ino the mounted root's
        try:
            top = [n for n in os.listdir("/") if os.path.ismount("/" + n) and not os.path.islink("/" + n)][:3]
        except OSError:
            top = []
        for n in top:
            i = os.lstat("/" + n).st_ino
            rc, out, err = _find(repo, ["/", "-maxdepth", "1", "-inum", str(i)], d)
            exp = sorted("/" + x for x in os.listdir("/") if os.lstat("/" + x).st_ino == i)
            res.append(("find / -maxdepth 1 -inum %d (the mount point /%s): %r, reference %r" % (i, n, sorted(out.split()), exp), sorted(out.split()) == exp))
    return _battery(res)


# ------------------------------------------------------------------------------------------ C04 (input lines as -L sees them)
def _ref_lines(data):
    """reference for -L 1: the arguments of each invocation. A token ends its line iff the byte right after it is a newline (a blank before the
    newline makes the line continue); empty lines do not count. -> (batches, error, ambiguous)"""
    batches, line, cur, quote, slash, sawq, amb = [], [], bytearray(), 0, False, False, False
    for c in data:
        if quote:
            if c == quote: quote = 0
            else: cur.append(c)
        elif slash:
            cur.append(c); slash = False
        elif c in (0x27, 0x22):
            quote = c; sawq = True
        elif c == 0x5C:
            slash = True
        elif c in (0x20, 0x0A, 0x09):
            if cur:
                line.append(bytes(cur)); cur = bytearray(); sawq = False
                if c == 0x0A:
                    batches.append(line); line = []
            elif sawq:
                amb = True
        else:
            cur.append(c)
    if quote:
        return batches, True, amb
    if cur:
        line.append(bytes(cur))
    elif sawq:
        amb = True
    if line:
        batches.append(line)
    return batches, False, amb


def reader_lines(w, repo):
    """exact: the witness bytes (alone and followed by text that makes the kind of the last argument observable) piped into `xargs -L 1`, one write()
    per read() of the witness; the arguments of each invocation against the reference's input lines"""
    if not build(repo):
        return None, "build failed"
    data = bytes(w.get("input") or [])
    if not data:
        return None, "no input bytes"
    tried = 0
    with Sandbox() as d:
        out_path = os.path.join(d, "argv.bin")
        script = os.path.join(d, "dump.sh")
        open(script, "w").write('#!/bin/sh\nfor a in "$@"; do printf "%s\\0" "$a" >> "' + out_path + '"; done\nprintf "\\1\\0" >> "' + out_path + '"\n')
        os.chmod(script, 0o755)
        for suffix in (b"", b" y\n", b"\ny\n", b" y z\n"):
            full = data + suffix
            want, err, amb = _ref_lines(full)
            if err or amb:
                continue
            for pieces in chunkings(data, w.get("chunks")):
                pieces = list(pieces) + ([suffix] if suffix else [])
                if os.path.exists(out_path):
                    os.remove(out_path)
                rc, out, e = run_chunked([xargs_bin(repo), "-L", "1", script], pieces, cwd=d)
                raw = open(out_path, "rb").read().split(b"\0")[:-1] if os.path.exists(out_path) else []
                got, cur = [], []
                for t in raw:
                    if t == b"\1":
                        got.append(cur); cur = []
                    else:
                        cur.append(t)
                got = [b for b in got if b] if not want else got
                tried += 1
                if got != want or rc != 0:
                    return True, "input %r delivered as read()s %r to xargs -L 1: invocations %r (rc=%d), the input lines are %r" % (full, pieces, got, rc, want)
    return False, "input %r (alone and with three continuations): xargs -L 1 like the reference in %d runs" % (data, tried)
