#!/usr/bin/env python3
"""C17: -regex / -iregex / -regextype - findutils' side of the property, with oniguruma under its contract.

The real parser (build_top_level_matcher -> build_matcher_tree, RegexType::from_str, RegexMatcher::new) builds the matcher
tree from command lines drawn from sentence templates whose slots (regex type names, patterns, -regex / -iregex) are
symbolic; the tree is then evaluated by the real <Box<dyn Matcher>>::matches / <RegexMatcher as Matcher>::matches on an
entry whose path is symbolic over a vocabulary of subjects.  oniguruma is a model (onig_model.py): Syntax::emacs() ... are
tagged values, Regex::with_options compiles the pattern text under the tagged syntax (or fails as onig does), is_match is
the crate's contract `onig_match at 0 == text.len()` over a backtracking matcher with onig's priority order.

Reference (the property): every -regex / -iregex operand is read in the syntax named by the nearest preceding -regextype
in command-line order (parentheses do not matter; emacs if none), and is true iff the whole path belongs to the language;
-iregex folds case; -regextype itself is true; an unknown type name or a pattern that is not well formed in the selected
syntax rejects the command line.  The outcome compared is: accepted / rejected, and whether the entry is printed.
"""
import itertools, json, os, re, subprocess, sys, tempfile, time, z3
import loader, models, interp, natives_fs
from interp import Machine, SliceRef, RStr, Ptr, Struct, Enum, Opaque, BoxObj, Unsupported, RustPanic, PathAbort, UNIT
from models import Some, NONE, Ok, Err, deref
from natives_fs import PStr, text_of
import onig_model as om
import c16_printf

from regex_ref import TYPES, reference
TYPE_WORDS = ["emacs", "grep", "posix-basic", "posix-extended", "ed", "sed", "bogus", "posix"]
PATTERNS = ["r/ab", ".*b", "r/a", "ab", "r/\\(a\\|ab\\)", "r/\\(ab\\|a\\)", "r/(a|ab)", "r/(ab|a)", "r/a+", "r/a\\+", "r/ab?", "r/A.", ".*/[xa]b", "r/\\(a", "r/(a", "r/a\\|ab", "R/.*",
            ".*/\\(.\\)\\1", ".*/(.)\\1", "\\./r/ab"]
SUBJECTS = ["r/a", "r/ab", "r/AB", "r/aab", "r/a+", "r/ab?", "r/(a|ab)", "r/xab", "r/abx", "r/a|ab", "r/(ab|a)", "r/b", "r/aa", "r/(a)1", "./r/ab",
            "r/\udcffab"]       # a path with a byte that is not UTF-8 (0xFF, carried as a lone surrogate): matched as the text -print shows for it
RX = ["-regex", "-iregex"]

# sentence templates: T = type slot, P = pattern slot, R = -regex / -iregex slot; everything else is literal
TEMPLATES = {
    "R P": ["R", "P"],
    "-regextype T R P": ["-regextype", "T", "R", "P"],
    "-regextype T -regextype T R P": ["-regextype", "T", "-regextype", "T", "R", "P"],
    "-regextype T ( R P )": ["-regextype", "T", "(", "R", "P", ")"],
    "( -regextype T ) R P": ["(", "-regextype", "T", ")", "R", "P"],
    "-regextype T ! R P": ["-regextype", "T", "!", "R", "P"],
    "R P -regextype T": ["R", "P", "-regextype", "T"],
    "-regex P -o -regextype T -regex P": ["-regex", "P", "-o", "-regextype", "T", "-regex", "P"],
    "-regextype T ( ( R P ) )": ["-regextype", "T", "(", "(", "R", "P", ")", ")"],
    "-false -o -regextype T , R P": ["-false", "-o", "-regextype", "T", ",", "R", "P"],
    "-regextype T -regex P -regex P": ["-regextype", "T", "-regex", "P", "-regex", "P"],
    "R": ["R"], "-regextype": ["-regextype"], "-regextype T": ["-regextype", "T"], "-regextype T R": ["-regextype", "T", "R"], "( R P": ["(", "R", "P"],
}
QUICK_SECOND_PATTERNS = ["r/a+", "r/(a|ab)"]
FULL_IN_QUICK = ("R P", "-regextype T R P", "R", "-regextype", "-regextype T", "-regextype T R", "( R P")
# quick tier: the remaining templates run over one representative per distinguishing feature
QUICK_TYPES = ["grep", "posix-extended", "sed", "bogus"]
QUICK_TYPES_FIRST = ["posix-extended", "bogus", "emacs"]      # first of two -regextype
QUICK_PATTERNS = ["r/ab", "r/\\(a\\|ab\\)", "r/(ab|a)", "r/a+", "r/a\\+", "r/A.", "r/\\(a", "r/a\\|ab", ".*/\\(.\\)\\1"]


# ----------------------------------------------------------------------------------------------- natives: the onig crate under its contract
def natives(state):
    nat = c16_printf.str_natives()
    c16_printf.with_closures(nat)

    def syntax(tag):
        return lambda m, a: Struct("OnigSyntax", [tag])

    def opt_value(v):
        v = deref(v)
        if isinstance(v, Struct) and v.ty == "OnigOptions":
            return v.fields[0]
        if isinstance(v, Struct) and str(v.ty).startswith("REGEX_OPTION_"):
            return frozenset() if v.ty == "REGEX_OPTION_NONE" else frozenset([v.ty[len("REGEX_OPTION_"):]])
        raise Unsupported("onig::RegexOptions value %r" % (v,))

    def bitor(m, a):
        return Struct("OnigOptions", [opt_value(a[0]) | opt_value(a[1])])

    def compile_(pattern, opts, syn):
        unknown = opts - {"IGNORECASE", "FIND_LONGEST", "DONT_CAPTURE_GROUP", "CAPTURE_GROUP"}
        if unknown:
            raise Unsupported("onig option outside the model: %s" % sorted(unknown))
        try:
            # CAPTURE_GROUP is what these four syntaxes do anyway; DONT_CAPTURE_GROUP makes plain groups non-capturing (both given: onig refuses)
            if "DONT_CAPTURE_GROUP" in opts and "CAPTURE_GROUP" in opts:
                raise om.RegexError("invalid combination of options")
            ast = om.parse(pattern, syn, capture="DONT_CAPTURE_GROUP" not in opts)
        except om.RegexError as e:
            return Err(Opaque("onig::Error(%s)" % e))
        state["compiled"].append((pattern, syn, sorted(opts)))
        return Ok(Struct("OnigRegex", [ast, "IGNORECASE" in opts, "FIND_LONGEST" in opts, pattern, syn]))

    def with_options(m, a):
        return compile_(text_of(m, a[0]), opt_value(a[1]), deref(a[2]).fields[0])

    def new(m, a):
        # Regex::new = with_options(pattern, REGEX_OPTION_NONE, Syntax::default()) and the default syntax is oniguruma's own (Ruby-like): not one of the four
        raise Unsupported("onig::Regex::new (default Oniguruma syntax, none of the syntaxes -regextype names)")

    def is_match(m, a):
        r, text = deref(a[0]), text_of(m, a[1])
        n = om.onig_match(r.fields[0], text, 0, r.fields[1])
        return n is not None and n == len(text)

    def find(m, a):
        r, text = deref(a[0]), text_of(m, a[1])
        if r.fields[2]:
            raise Unsupported("onig search with FIND_LONGEST")
        for at in range(len(text) + 1):
            n = om.onig_match(r.fields[0], text, at, r.fields[1])
            if n is not None:
                return Some(interp.Tuple([at, n]))
        return NONE()

    def match_with_options(m, a):
        r, text, at = deref(a[0]), text_of(m, a[1]), a[2]
        if not isinstance(at, int):
            raise Unsupported("symbolic offset")
        n = om.onig_match(r.fields[0], text[at:] if at else text, 0, r.fields[1])       # (offsets of the onig crate are byte offsets; `at` is 0 wherever findutils could call this)
        if at:
            raise Unsupported("onig match at a non-zero offset")
        return Some(len(text[:n].encode("utf-8", errors="surrogateescape"))) if n is not None else NONE()

    nat.update({
        "Syntax::emacs": syntax("emacs"), "Syntax::grep": syntax("grep"), "Syntax::posix_basic": syntax("posix_basic"), "Syntax::posix_extended": syntax("posix_extended"),
        "Regex::with_options": with_options, "Regex::new": new, "Regex::is_match": is_match, "Regex::find": find, "Regex::match_with_options": match_with_options,
        "OsStr::len": lambda m, a: len(text_of(m, a[0]).encode("utf-8", errors="surrogateescape")), "Path::as_os_str": lambda m, a: a[0],
        "<RegexOptions as BitOr>::bitor": bitor,
        "<impl Into<PathBuf> as Into>::into": lambda m, a: a[0],
        "<Printer as Matcher>::matches": lambda m, a: (state["printed"].append(1), True)[1],
        "parse_str_to_newer_args": lambda m, a: NONE(),
        "<str as ToString>::to_string": lambda m, a: RStr(text_of(m, a[0])),
    })
    return nat


SLOT_VOCAB = {"T": TYPE_WORDS, "P": PATTERNS, "R": RX}


def explore(template, funcs, index, enums, tier="quick"):
    shape = TEMPLATES[template]
    res = {"kind": "template: " + template, "slot_vocabularies": None, "paths": 0, "checks": 0, "violations": [], "unsupported": {}, "samples": []}
    state = {"subject": z3.Int("subject"), "compiled": [], "printed": []}
    m = Machine(funcs, index, enums, models, natives=natives(state), max_steps=4000000)
    slots = []
    for k, w in enumerate(shape):
        if w in SLOT_VOCAB:
            vocab = SLOT_VOCAB[w]
            if tier == "quick" and template not in FULL_IN_QUICK:
                if w == "T":
                    vocab = QUICK_TYPES_FIRST if sum(1 for x in shape if x == "T") > 1 and not any(s[1] == "T" for s in slots) else QUICK_TYPES
                elif w == "P":
                    vocab = QUICK_PATTERNS
            if w == "P" and sum(1 for x in shape if x == "P") > 1 and any(s[1] == "P" for s in slots):
                vocab = QUICK_SECOND_PATTERNS if tier == "quick" else PATTERNS[:10]
            slots.append((k, w, z3.Int("slot%d" % k), vocab))
    res["slot_vocabularies"] = {"%s@%d" % (w, k): voc for k, w, _v, voc in slots}
    m.base_constraints = [z3.And(v >= 0, v < len(voc)) for _k, _w, v, voc in slots] + [state["subject"] >= 0, state["subject"] < len(SUBJECTS)]
    m.pending = [[]]
    t0 = time.time()
    while m.pending:
        m.reset_path(m.pending.pop())
        state["compiled"], state["printed"] = [], []
        toks = []
        for k, w in enumerate(shape):
            sl = next((s for s in slots if s[0] == k), None)
            toks.append(RStr(sym=sl[2], vocab=sl[3]) if sl else RStr(w))
        args = SliceRef(toks)
        cfg = [m.call("<Config as Default>::default", [])]
        try:
            r = m.call("build_top_level_matcher", [args, Ptr(cfg, 0)])
            if r.variant == "Ok":
                io = [Struct("MatcherIO", [False, 0, False, Opaque("deps")])]
                box = [r.fields[0]]
                si = m.decide_int(state["subject"], list(range(len(SUBJECTS))))
                entry = [m.call("WalkEntry::new", [PStr(SUBJECTS[si]), 1, Enum("Follow", "Never", [])])]
                m.call("<Box<dyn Matcher> as Matcher>::matches", [Ptr(box, 0), Ptr(entry, 0), Ptr(io, 0)])
                outcome = ("accept", bool(state["printed"]))
            else:
                outcome = ("reject", "")
        except RustPanic as e:
            outcome = ("panic", str(e)[:80])
        except Unsupported as e:
            res["unsupported"][str(e)[:100]] = res["unsupported"].get(str(e)[:100], 0) + 1
            continue
        except PathAbort:
            continue
        res["paths"] += 1
        # every completion of what the path left free (slots of a rejected sentence behind the failing one, the subject of a rejected sentence)
        s = z3.Solver()
        for c in m.base_constraints + m.pc: s.add(c)
        allv = [v for _k, _w, v, _voc in slots] + [state["subject"]]
        while s.check() == z3.sat:
            mod = s.model()
            vals = [mod.eval(v, model_completion=True).as_long() for v in allv]
            s.add(z3.Or([v != x for v, x in zip(allv, vals)]))
            words = list(shape)
            for (k, _w, _v, voc), x in zip(slots, vals):
                words[k] = voc[x]
            subject = SUBJECTS[vals[-1]]
            want = reference(words, subject)
            res["checks"] += 1
            bad = None
            if outcome[0] == "panic":
                bad = "panic: " + outcome[1]
            elif outcome[0] != want[0]:
                bad = "implementation %ss, reference %ss%s" % (outcome[0], want[0], (" (%s)" % want[1]) if want[0] == "reject" else "")
            elif outcome[0] == "accept" and outcome[1] != want[1]:
                bad = "path %r is %s, reference: %s" % (subject, "selected" if outcome[1] else "not selected", "selected" if want[1] else "not selected")
            if bad:
                res["violations"].append({"tokens": words, "subject": subject, "what": bad, "compiled": list(state["compiled"]), "class": classify(words, subject, outcome, want, state["compiled"])})
            elif len(res["samples"]) < 3 and outcome == ("accept", True):
                res["samples"].append({"tokens": words, "subject": subject, "compiled": list(state["compiled"])})
    res["wall_s"] = round(time.time() - t0, 2)
    res["solver_calls"] = m.stats["solver_calls"]
    res["functions_executed"] = sorted(m.executed)
    return res


def classify(words, subject, outcome, want, compiled):
    """role of the failing input (used to key known findings): which part of the property is broken"""
    if outcome[0] == "panic":
        return "panic"
    # syntax handed to onig differs from the nearest preceding -regextype
    cur, k, want_syn = "emacs", 0, []
    for i, w in enumerate(words):
        if w == "-regextype" and i + 1 < len(words) and words[i + 1] in TYPES:
            cur = TYPES[words[i + 1]]
        if w in RX and i + 1 < len(words):
            want_syn.append((words[i + 1], cur, w == "-iregex"))
    for (pat, syn, fold), got in zip(want_syn, compiled):
        if got[1] != syn:
            depth = 0
            for w in words:
                depth += (w == "(") - (w == ")")
            return "syntax %s instead of %s%s" % (got[1], syn, " across parentheses" if "(" in words else "")
        if ("IGNORECASE" in got[2]) != fold:
            return "case option"
    if outcome[0] != want[0]:
        return "acceptance"
    for (pat, syn, fold) in want_syn:
        try:
            ast = om.parse(pat, syn)
        except om.RegexError:
            continue
        first = om.onig_match(ast, subject, 0, fold)
        if om.in_language(ast, subject, fold) and first is not None and first != len(subject):
            return "alternation order: whole path in the language but the first match in priority order covers only a prefix"
    return "other"


# ----------------------------------------------------------------------------------------------- model validation against the real binary
def calibrate(find_bin):
    """run the real find on every (type, pattern, subject, -regex/-iregex): is_match of the MODEL (not the reference) must agree with the binary, and so must the rejections"""
    tmp = tempfile.mkdtemp(prefix="c17cal")
    os.mkdir(os.path.join(tmp, "r"))
    for s in SUBJECTS:
        open(os.path.join(tmp, s), "w").close()
    diffs, n = [], 0
    for tname, syn in TYPES.items():
        for pat in PATTERNS:
            for rx in RX:
                for start in ("r", "./r"):
                    p = subprocess.run([find_bin, start, "-regextype", tname, rx, pat], cwd=tmp, capture_output=True, text=True)
                    got = set(p.stdout.split("\n")) - {""} if p.returncode == 0 else None
                    try:
                        ast = om.parse(pat, syn)
                        want = set()
                        for s in sorted({start + "/" + x.split("/")[-1] for x in SUBJECTS} | {start}):
                            e = om.onig_match(ast, s, 0, rx == "-iregex")
                            if e is not None and e == len(s):
                                want.add(s)
                    except om.RegexError:
                        want = None
                    n += 1
                    if got != want:
                        diffs.append((tname, rx, pat, start, sorted(got) if got is not None else None, sorted(want) if want is not None else None))
    subprocess.run(["rm", "-rf", tmp])
    return n, diffs


if __name__ == "__main__":
    if sys.argv[1:2] == ["calibrate"]:
        n, d = calibrate(sys.argv[2] if len(sys.argv) > 2 else "/repo/target/debug/find")
        print(n, "runs,", len(d), "differences")
        for x in d: print("  ", x)
        sys.exit(1 if d else 0)
    text = open(sys.argv[2]).read() if len(sys.argv) > 2 else None
    funcs, index, enums, secs, _ = loader.load(os.environ.get("FINDUTILS_REPO", "/repo"), text)
    for t in ([sys.argv[1]] if len(sys.argv) > 1 and sys.argv[1] in TEMPLATES else TEMPLATES):
        r = explore(t, funcs, index, enums)
        v = r.pop("violations")
        print(json.dumps({k: r[k] for k in ("kind", "paths", "checks", "wall_s", "unsupported")})[:600])
        seen = {}
        for x in v:
            seen.setdefault(x["class"], []).append(x)
        for c, xs in seen.items():
            print("   %4d  %s   e.g. %s on %r: %s" % (len(xs), c, " ".join(xs[0]["tokens"]), xs[0]["subject"], xs[0]["what"]))
