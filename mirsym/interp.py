"""Path-exploring symbolic interpreter for rustc MIR (the subset findutils' parser, builders and combinators use).

Control flow, aggregates, references, Vec/Box/Option/Result plumbing are executed from the MIR of the real functions;
calls into std/alloc are answered by small models (models.py).  Symbolic values are z3 expressions (token identities
as Int over a vocabulary, leaf results and flags as Bool).  A branch on a symbolic value is a decision point: both
sides are checked for satisfiability under the path condition and explored (depth-first, by re-execution with a
decision prefix, so no state has to be copied).
"""
import copy, re, z3
from mirparse import Place, compile_function

INT_BITS = {"u8": 8, "u16": 16, "u32": 32, "u64": 64, "u128": 128, "usize": 64, "i8": 8, "i16": 16, "i32": 32, "i64": 64, "i128": 128, "isize": 64}


class Unsupported(Exception):
    pass


class RustPanic(Exception):
    pass


class PathAbort(Exception):
    """raised to cut a path (infeasible or outside the modelled fragment)"""


# ----------------------------------------------------------------------------------------------- values
class Struct:
    __slots__ = ("ty", "fields", "names")

    def __init__(self, ty, fields, names=None):
        self.ty, self.fields, self.names = ty, fields, names

    def __repr__(self):
        return "%s%r" % (self.ty, self.fields)


class Enum:
    __slots__ = ("ty", "variant", "fields")

    def __init__(self, ty, variant, fields):
        self.ty, self.variant, self.fields = ty, variant, fields

    def __repr__(self):
        return "%s::%s%r" % (self.ty, self.variant, self.fields)


class Tuple:
    __slots__ = ("fields",)

    def __init__(self, fields):
        self.fields = fields

    def __repr__(self):
        return "T%r" % (self.fields,)


class VecObj:
    __slots__ = ("items",)

    def __init__(self, items=None):
        self.items = items if items is not None else []

    def __repr__(self):
        return "Vec%r" % (self.items,)


class BoxObj:
    """Box<T>, also Box<dyn Trait> (the dynamic type is the type of .cell[0])"""
    __slots__ = ("cell",)

    def __init__(self, v):
        self.cell = [v]

    def __repr__(self):
        return "Box(%r)" % (self.cell[0],)


class Ptr:
    """reference / raw pointer: a location = container[key]"""
    __slots__ = ("container", "key")

    def __init__(self, container, key):
        self.container, self.key = container, key

    def load(self):
        return self.container[self.key]

    def store(self, v):
        self.container[self.key] = v

    def __repr__(self):
        return "&%r" % (self.load(),)


class SliceRef:
    """&[T] / &mut [T]: a window into a Python list"""
    __slots__ = ("items", "start", "end")

    def __init__(self, items, start=0, end=None):
        self.items, self.start, self.end = items, start, len(items) if end is None else end

    def __len__(self):
        return self.end - self.start

    def __repr__(self):
        return "&%r" % (self.items[self.start:self.end],)


class RStr:
    """a string value (&str or String): concrete text, or a symbolic token drawn from a vocabulary"""
    __slots__ = ("text", "sym", "vocab")

    def __init__(self, text=None, sym=None, vocab=None):
        self.text, self.sym, self.vocab = text, sym, vocab

    def __repr__(self):
        return "str(%r)" % (self.text if self.sym is None else self.sym,)


class Opaque:
    """a value the models never look into (formatted messages, errors, files ...)"""
    __slots__ = ("what",)

    def __init__(self, what):
        self.what = what

    def __repr__(self):
        return "<%s>" % self.what


UNIT = Tuple([])

STD_ENUMS = {
    "Option": ["None", "Some"], "Result": ["Ok", "Err"], "ControlFlow": ["Continue", "Break"], "Ordering": ["Less", "Equal", "Greater"],
    "Cow": ["Borrowed", "Owned"],
}


def base_type(path):
    """'Option::<Box<dyn Matcher>>::Some' -> ('Option', 'Some');  'PrintDelimiter::Newline' -> ('PrintDelimiter','Newline'); 'TrueMatcher' -> (None,'TrueMatcher')"""
    p = re.sub(r"::<.*?>(?=::|$)", "", _strip_generics(path))
    segs = [s for s in p.split("::") if s]
    if len(segs) >= 2:
        return segs[-2], segs[-1]
    return None, segs[-1]


def _strip_generics(s):
    out, depth = [], 0
    for c in s:
        if c == "<":
            depth += 1
        elif c == ">":
            depth -= 1
        elif depth == 0:
            out.append(c)
    return "".join(out)


# ----------------------------------------------------------------------------------------------- the machine
class Machine:
    def __init__(self, funcs, index, enums, models, natives=None, max_steps=400000):
        self.funcs, self.index, self.enums, self.models = funcs, index, enums, models
        self.natives = natives or {}
        self.solver = z3.Solver()
        self.prefix, self.decisions = [], []
        self.pending = []          # alternative prefixes to explore
        self.pc = []
        self.steps, self.max_steps = 0, max_steps
        self.trace = []            # observable events of the current path (harness-defined)
        self.stats = {"paths": 0, "decisions": 0, "solver_calls": 0, "unsupported": {}}
        self.executed = set()      # names of the crate functions whose MIR was executed
        self.fresh = 0

    # ---- decisions -----------------------------------------------------------------------------
    def reset_path(self, prefix):
        self.prefix, self.decisions, self.pc, self.trace, self.steps = list(prefix), [], [], [], 0
        self.solver = z3.Solver()
        for c in getattr(self, "base_constraints", []):
            self.solver.add(c)

    def feasible(self, cond):
        self.stats["solver_calls"] += 1
        self.solver.push()
        self.solver.add(cond)
        r = self.solver.check()
        self.solver.pop()
        return r == z3.sat

    def decide(self, cond):
        """branch on a z3 Bool; returns the Python truth value chosen for this path"""
        cond = z3.simplify(cond)
        if z3.is_true(cond):
            return True
        if z3.is_false(cond):
            return False
        k = len(self.decisions)
        if k < len(self.prefix):
            choice = self.prefix[k]
        else:
            t_ok, f_ok = self.feasible(cond), self.feasible(z3.Not(cond))
            if not t_ok and not f_ok:
                raise PathAbort("infeasible path")
            if t_ok and f_ok:
                self.pending.append(self.decisions + [False])
                self.stats["decisions"] += 1
            choice = t_ok
        self.decisions.append(choice)
        c = cond if choice else z3.Not(cond)
        self.pc.append(c)
        self.solver.add(c)
        return choice

    def decide_int(self, expr, candidates):
        """branch on a z3 Int over explicit candidate values; returns the chosen candidate or None (= otherwise)"""
        for v in candidates:
            if self.decide(expr == v):
                return v
        return None

    def fresh_bool(self, name):
        self.fresh += 1
        return z3.Bool("%s#%d" % (name, self.fresh))

    # ---- calls -----------------------------------------------------------------------------------
    def resolve(self, callee):
        key = normalize_callee(callee)
        cands = self.index.get("?" + key)
        if cands:
            for f in cands:
                pty = f.params[0][1].lstrip("&").replace("mut ", "").strip() if f.params else ""
                if pty and (pty in callee or "::".join(pty.split("::")[-2:]) in callee):
                    return key, f
        return key, self.index.get(key)

    def call(self, callee, args):
        key, fn = self.resolve(callee)
        if key in self.natives:
            return self.natives[key](self, args)
        if fn is not None:
            return self.run(fn, args)
        m = self.models.lookup(key, callee)
        if m is not None:
            return m(self, args, callee)
        self.stats["unsupported"][key] = self.stats["unsupported"].get(key, 0) + 1
        raise Unsupported(callee)

    def run(self, fn, args):
        self.executed.add(fn.name)
        blocks = compile_function(fn)
        loc = {}
        for (pid, _ty), a in zip(fn.params, args):
            loc[pid] = a
        bb = 0
        while True:
            for st in blocks[bb]:
                self.steps += 1
                if self.steps > self.max_steps:
                    raise PathAbort("step budget exhausted")
                k = st[0]
                if k == "assign":
                    self.write(loc, st[1], self.rvalue(fn, loc, st[2], st[1]))
                elif k == "nop":
                    pass
                elif k == "goto":
                    bb = st[1]
                    break
                elif k == "call":
                    argv = [self.operand(loc, a) for a in st[3]]
                    ret = self.call(st[2], argv)
                    if st[4] is None:
                        raise RustPanic("diverging call %s returned" % st[2])
                    self.write(loc, st[1], ret)
                    bb = st[4]
                    break
                elif k == "switch":
                    v = self.operand(loc, st[1])
                    bb = self.switch(v, st[2])
                    break
                elif k == "return":
                    return loc.get(0, UNIT)
                elif k == "drop":
                    bb = st[2]
                    break
                elif k == "assert":
                    v = self.operand(loc, st[1])
                    ok = self.truth(v)
                    if st[2]:
                        ok = not ok
                    if not ok:
                        raise RustPanic(st[3])
                    bb = st[4]
                    break
                elif k == "setdisc":
                    raise Unsupported("SetDiscriminant")
                elif k == "unreachable":
                    raise RustPanic("entered unreachable code in %s bb%d" % (fn.name, bb))
                elif k == "resume":
                    raise RustPanic("unwinding")
                else:
                    raise Unsupported("statement kind %s" % k)
            else:
                raise Unsupported("block %d of %s has no terminator" % (bb, fn.name))

    def truth(self, v):
        if isinstance(v, bool):
            return v
        if isinstance(v, int):
            return v != 0
        if z3.is_expr(v):
            return self.decide(v if z3.is_bool(v) else v != 0)
        raise Unsupported("truth of %r" % (v,))

    def switch(self, v, targets):
        other = None
        if isinstance(v, bool):
            v = 1 if v else 0
        if isinstance(v, int):
            for val, bb in targets:
                if val is None:
                    other = bb
                elif val == v:
                    return bb
            return other
        if z3.is_expr(v):
            if z3.is_bool(v):
                t = self.decide(v)
                iv = 1 if t else 0
                for val, bb in targets:
                    if val is None:
                        other = bb
                    elif val == iv:
                        return bb
                return other
            for val, bb in targets:
                if val is None:
                    other = bb
                elif self.decide(v == val):
                    return bb
            return other
        raise Unsupported("switch on %r" % (v,))

    # ---- places ------------------------------------------------------------------------------------
    def resolve_place(self, loc, place):
        """-> (container, key) of the location the place denotes"""
        cont, key = loc, place.local
        for p in place.proj:
            cur = cont.get(key) if cont is loc else cont[key]
            kind = p[0]
            if kind == "deref":
                if isinstance(cur, Ptr):
                    cont, key = cur.container, cur.key
                elif isinstance(cur, BoxObj):
                    cont, key = cur.cell, 0
                elif isinstance(cur, (SliceRef, RStr)):
                    cont, key = [cur], 0        # unsized referent: the fat reference stands for it
                else:
                    raise Unsupported("deref of %r" % (cur,))
            elif kind == "field":
                if isinstance(cur, (Struct, Enum, Tuple)):
                    cont, key = cur.fields, p[1]
                elif isinstance(cur, BoxObj) and p[1] == 0:
                    pass                        # Box internals (Unique / NonNull): stay on the box
                elif isinstance(cur, Ptr) and p[1] == 0:
                    pass
                else:
                    raise Unsupported("field %d of %r" % (p[1], cur))
            elif kind == "downcast":
                if not isinstance(cur, Enum) or cur.variant != p[1]:
                    raise RustPanic("downcast of %r to %s" % (cur, p[1]))
            elif kind in ("index", "constindex"):
                i = loc[p[1]] if kind == "index" else p[1]
                if z3.is_expr(i):
                    raise Unsupported("symbolic index")
                if isinstance(cur, SliceRef):
                    cont, key = cur.items, cur.start + i
                elif isinstance(cur, VecObj):
                    cont, key = cur.items, i
                elif isinstance(cur, list):
                    cont, key = cur, i
                else:
                    raise Unsupported("index into %r" % (cur,))
            else:
                raise Unsupported("projection %r" % (p,))
        return cont, key

    def read(self, loc, place):
        cont, key = self.resolve_place(loc, place)
        try:
            return cont[key]
        except (KeyError, IndexError):
            raise RustPanic("read of uninitialised/out-of-range place %r" % (place,))

    def write(self, loc, place, v):
        cont, key = self.resolve_place(loc, place)
        cont[key] = v

    def operand(self, loc, op):
        k = op[0]
        if k == "copy":
            v = self.read(loc, op[1])
            return copy.copy(v) if isinstance(v, (Tuple,)) else v
        if k == "move":
            return self.read(loc, op[1])
        if k == "const":
            return self.const(op[1])
        raise Unsupported("operand %r" % (op,))

    def const(self, c):
        k = c[0]
        if k in ("bool",):
            return c[1]
        if k == "int":
            return c[1]
        if k == "str":
            return RStr(c[1])
        if k == "unit":
            return UNIT
        if k == "bytes":
            return SliceRef(list(c[1]))
        if k == "char":
            return ord(c[1]) if len(c[1]) == 1 else c[1]      # chars are carried as their scalar value
        if k == "zst":
            _, name = base_type(c[1]) if "closure" not in c[1] else (None, c[1])
            return Struct(name, [])
        if k == "other":
            if "promoted[" in c[1]:
                base, suffix = c[1].split("::promoted[", 1)
                f = self.index.get(normalize_callee(base) + "::promoted[" + suffix)
                if f is not None:
                    return self.run(f, [])
                for name, f in self.funcs.items():
                    if "promoted[" in name and c[1].endswith(name):
                        return self.run(f, [])
                # a promoted constant of a closure / nested item inside an impl method: the use site names the type (Type::method::{closure#0}::promoted[k]),
                # the dump names the impl block (<impl at file:line>::method::{closure#0}::promoted[k]); match on method path + suffix when unique
                # (generic arguments at the use site - method::<impl Trait>::{closure#0} - are not part of the dump's name)
                prev = None
                while prev != base:
                    prev, base = base, re.sub(r"::<[^<>]*>", "", base)
                tail = "::".join(base.split("::")[-2:]) if "{closure" in base.split("::")[-1] else base.split("::")[-1]
                cands = [f for name, f in self.funcs.items() if name.endswith("::" + tail + "::promoted[" + suffix) or name == tail + "::promoted[" + suffix]
                if len(cands) == 1:
                    return self.run(cands[0], [])
                raise Unsupported("promoted constant " + c[1])
            if "libc::" in c[1] and c[1].rsplit("::", 1)[-1] in LIBC_CONSTS:
                return LIBC_CONSTS[c[1].rsplit("::", 1)[-1]]
            plain = re.sub(r"::<[^<>]*>", "", c[1])
            if re.match(r"^[\w:]+$", plain):
                # a named constant of the crate (const ITEM: T = {..} in the dump)
                for cand in (plain, "::".join(plain.split("::")[-2:]), plain.split("::")[-1]):
                    f = self.funcs.get(cand)
                    if f is not None and not f.params and re.match(r"^[A-Z_0-9]+$", cand.split("::")[-1]):
                        return self.run(f, [])
            mm = re.match(r"^(?:core::num::<impl )?(u8|u16|u32|u64|usize|i8|i16|i32|i64|isize)>?::(MAX|MIN)$", c[1])
            if mm:
                bits, signed = INT_BITS[mm.group(1)], mm.group(1).startswith("i")
                if mm.group(2) == "MAX":
                    return (1 << (bits - 1)) - 1 if signed else (1 << bits) - 1
                return -(1 << (bits - 1)) if signed else 0
            last = c[1].rsplit("::", 1)[-1]
            if re.match(r"^[A-Z]\w*$", last) and "(" not in c[1]:
                ety, name = base_type(c[1])
                if ety is not None and self.is_variant(ety, name):
                    return Enum(ety, name, [])
                return Struct(name, [])
            return Opaque("const " + c[1])
        return Opaque("const %r" % (c,))

    # ---- rvalues -----------------------------------------------------------------------------------
    def rvalue(self, fn, loc, rv, dest):
        k = rv[0]
        if k == "use":
            return self.operand(loc, rv[1])
        if k == "ref":
            cont, key = self.resolve_place(loc, rv[1])
            cur = cont[key] if not (cont is loc and key not in loc) else None
            # a reference to an unsized referent reached through a deref is the fat reference itself
            if rv[1].proj and rv[1].proj[-1][0] == "deref" and isinstance(cur, (SliceRef, RStr)):
                return cur
            return Ptr(cont, key)
        if k == "binop":
            return self.binop(fn, rv[1], self.operand(loc, rv[2]), self.operand(loc, rv[3]), dest)
        if k == "unop":
            v = self.operand(loc, rv[2])
            if rv[1] == "Not":
                if isinstance(v, bool):
                    return not v
                if z3.is_expr(v) and z3.is_bool(v):
                    return z3.Not(v)
                raise Unsupported("Not of %r" % (v,))
            if rv[1] == "PtrMetadata":
                if isinstance(v, SliceRef):
                    return len(v)
                if isinstance(v, RStr) and v.text is not None:
                    return len(v.text.encode())
                if hasattr(v, "length"):
                    return v.length
                if isinstance(v, Ptr):
                    inner = v.load()
                    if isinstance(inner, (SliceRef, VecObj)):
                        return len(inner) if isinstance(inner, SliceRef) else len(inner.items)
                raise Unsupported("PtrMetadata of %r" % (v,))
            if rv[1] == "Neg":
                return -v
        if k == "discriminant":
            v = self.read(loc, rv[1])
            if isinstance(v, Enum):
                return self.variant_index(v)
            raise Unsupported("discriminant of %r" % (v,))
        if k == "len":
            v = self.read(loc, rv[1])
            return len(v.items) if isinstance(v, VecObj) else len(v)
        if k == "cast":
            v = self.operand(loc, rv[1])
            kind = rv[3]
            if kind.startswith("PointerCoercion") or kind in ("Transmute", "PtrToPtr", "IntToInt", "FnPtrToPtr"):
                if isinstance(v, BoxObj) and kind == "Transmute":
                    return Ptr(v.cell, 0)
                if isinstance(v, Ptr) and kind.startswith("PointerCoercion(Unsize"):
                    inner = v.load()
                    if isinstance(inner, list):
                        return SliceRef(inner)
                    if isinstance(inner, VecObj):
                        return SliceRef(inner.items)
                return v
            raise Unsupported("cast %s" % kind)
        if k == "aggregate":
            return self.aggregate(loc, rv)
        if k == "repeat":
            # [operand; N] with a literal length
            mlen = re.match(r"^(?:const )?(\d+)(?:_usize)?$", rv[2])
            if not mlen or int(mlen.group(1)) > 4096:
                raise Unsupported("array repeat with length %s" % rv[2])
            v = self.operand(loc, rv[1])
            if not isinstance(v, (bool, int)):
                raise Unsupported("array repeat of %r" % (v,))
            return [v] * int(mlen.group(1))
        raise Unsupported("rvalue %r" % (rv,))

    def aggregate(self, loc, rv):
        _, kind, path, ops = rv
        if kind == "tuple":
            return Tuple([self.operand(loc, o) for o in ops])
        if kind == "array":
            return [self.operand(loc, o) for o in ops]
        if kind == "struct":
            ety, last = base_type(path)
            vals = [self.operand(loc, o) for _n, o in ops]
            names = [n for n, _o in ops]
            if ety is not None and self.is_variant(ety, last):
                return Enum(ety, last, vals)
            return Struct(last, vals, names)
        if kind == "ctor":
            ety, last = base_type(path)
            vals = [self.operand(loc, o) for o in ops]
            if ety is not None and self.is_variant(ety, last):
                return Enum(ety, last, vals)
            return Struct(last, vals)
        raise Unsupported("aggregate %s" % kind)

    def is_variant(self, ety, name):
        vs = STD_ENUMS.get(ety) or self.enums.get(ety)
        return vs is not None and name in vs

    def variant_index(self, e):
        vs = STD_ENUMS.get(e.ty) or self.enums.get(e.ty)
        if vs is None:
            raise Unsupported("enum %s unknown" % e.ty)
        return vs.index(e.variant)

    def binop(self, fn, op, a, b, dest):
        sym = z3.is_expr(a) or z3.is_expr(b)
        if op in ("Eq", "Ne", "Lt", "Le", "Gt", "Ge"):
            if isinstance(a, bool) and isinstance(b, bool) or not sym:
                r = {"Eq": a == b, "Ne": a != b, "Lt": a < b, "Le": a <= b, "Gt": a > b, "Ge": a >= b}[op]
                return r
            ea, eb = _z(a), _z(b)
            return {"Eq": ea == eb, "Ne": ea != eb, "Lt": ea < eb, "Le": ea <= eb, "Gt": ea > eb, "Ge": ea >= eb}[op]
        if op in ("AddWithOverflow", "SubWithOverflow", "MulWithOverflow"):
            if sym:
                ty = fn.local_types.get(dest.local, "(usize, bool)")
                mt = re.match(r"\((\w+), bool\)", ty)
                tname = mt.group(1) if mt else "usize"
                bits = INT_BITS.get(tname, 64)
                if tname.startswith("i") or op == "MulWithOverflow":
                    raise Unsupported("symbolic signed/multiplying checked arithmetic")
                ea, eb = _z(a), _z(b)
                if op == "AddWithOverflow":
                    r = ea + eb
                    return Tuple([r, r > z3.IntVal((1 << bits) - 1)])
                r = ea - eb
                return Tuple([r, r < 0])
            ty = fn.local_types.get(dest.local, "(usize, bool)")
            m = re.match(r"\((\w+), bool\)", ty)
            bits = INT_BITS.get(m.group(1) if m else "usize", 64)
            signed = (m.group(1) if m else "usize").startswith("i")
            r = {"AddWithOverflow": a + b, "SubWithOverflow": a - b, "MulWithOverflow": a * b}[op]
            lo, hi = (-(1 << (bits - 1)), (1 << (bits - 1)) - 1) if signed else (0, (1 << bits) - 1)
            ov = r < lo or r > hi
            if ov:
                r = (r - lo) % (1 << bits) + lo
            return Tuple([r, ov])
        if op in ("Add", "Sub", "Mul", "AddUnchecked", "SubUnchecked", "MulUnchecked"):
            if sym:
                ea, eb = _z(a), _z(b)
                return {"A": ea + eb, "S": ea - eb, "M": ea * eb}[op[0]]
            return {"A": a + b, "S": a - b, "M": a * b}[op[0]]
        if op == "BitAnd":
            if isinstance(a, bool) and isinstance(b, bool):
                return a and b
            if sym and (z3.is_bool(_z(a)) or isinstance(a, bool)):
                return z3.And(_zb(a), _zb(b))
            return a & b
        if op == "BitOr":
            if isinstance(a, bool) and isinstance(b, bool):
                return a or b
            if sym:
                return z3.Or(_zb(a), _zb(b))
            return a | b
        if op == "BitXor":
            if isinstance(a, bool) and isinstance(b, bool):
                return a != b
            if sym:
                return z3.Xor(_zb(a), _zb(b))
            return a ^ b
        raise Unsupported("binop %s" % op)


# errno values of the target the MIR was built for (x86_64-unknown-linux-gnu)
LIBC_CONSTS = {"ENOENT": 2, "EACCES": 13, "ENOTDIR": 20, "ELOOP": 40, "EPERM": 1, "EEXIST": 17, "E2BIG": 7}


def _z(v):
    if z3.is_expr(v):
        return v
    if isinstance(v, bool):
        return z3.BoolVal(v)
    return z3.IntVal(v)


def _zb(v):
    return v if z3.is_expr(v) else z3.BoolVal(bool(v))


def normalize_callee(c):
    """call-site path -> lookup key: drop turbofish, lifetimes and generic arguments of the self type"""
    c = c.strip()
    c = re.sub(r"::<'[_a-z]+>", "", c)
    # <X as Trait>::m  -> keep X and Trait base names
    m = re.match(r"^<(.*) as (.*)>::(\w+)(?:::<.*>)?$", c)
    if m:
        return "<%s as %s>::%s" % (type_key(m.group(1)), type_key(m.group(2)), m.group(3))
    segs = split_path(c)                      # depth-aware; turbofish / <impl ..> segments are dropped
    if len(segs) >= 2:
        return "%s::%s" % (type_key(segs[-2]), segs[-1])
    return segs[-1]


def split_path(c):
    segs, depth, cur = [], 0, []
    i = 0
    while i < len(c):
        ch = c[i]
        if ch == "<":
            depth += 1
        elif ch == ">" and not (i > 0 and c[i - 1] == "-"):
            depth -= 1
        elif ch in "({":
            depth += 1
        elif ch in ")}":
            depth -= 1
        if depth == 0 and c.startswith("::", i):
            segs.append("".join(cur)); cur = []; i += 2
            continue
        cur.append(ch)
        i += 1
    segs.append("".join(cur))
    return [s for s in segs if s and not s.startswith("<")]


def type_key(t):
    t = t.strip()
    t = re.sub(r"^&(?:'\w+ )?(?:mut )?", "&", t)
    if t.startswith("dyn "):
        return "dyn " + type_key(t[4:])
    m = re.match(r"^(&?)([\w:]+)(<.*>)?$", t)
    if m:
        base = m.group(2).split("::")[-1]
        if base in ("Box", "Vec", "Option", "Result", "From") and m.group(3):
            inner = m.group(3)[1:-1]
            return "%s%s<%s>" % (m.group(1), base, ",".join(type_key(x) for x in _split_generic_args(inner)))
        return m.group(1) + base
    return t


def _split_generic_args(s):
    out, depth, cur = [], 0, []
    for ch in s:
        if ch in "<([":
            depth += 1
        elif ch in ">)]":
            depth -= 1
        if ch == "," and depth == 0:
            out.append("".join(cur).strip()); cur = []
        else:
            cur.append(ch)
    if "".join(cur).strip():
        out.append("".join(cur).strip())
    return out
