"""Reference POSIX fnmatch() without flags for the constructs in the C12 bound (pure Python)."""


# ----------------------------------------------------------------------------------------------- reference fnmatch (POSIX, no flags)
def fnmatch_ref(p, s, bracket_backslash="quote"):
    """bracket_backslash: 'quote' = POSIX fnmatch() without FNM_NOESCAPE (a backslash quotes the next character, also inside a bracket
    expression: glibc, and what GNU find does); 'literal' = regular-expression bracket semantics (the backslash is a member)"""
    def bracket(pi):
        """p[pi] == '['; -> (negated, members, next index) or None if not a bracket expression"""
        j = pi + 1
        neg = j < len(p) and p[j] == "!"
        if neg: j += 1
        members = []
        if j < len(p) and p[j] == "]":
            members.append("]"); j += 1
        def atom(j):
            """-> (char, next index, quoted) or None"""
            if p[j] == "\\" and bracket_backslash == "quote":
                if j + 1 >= len(p):
                    return None
                return p[j + 1], j + 2, True
            return p[j], j + 1, False
        if members:                       # a leading ']' may start a range
            if j + 1 < len(p) and p[j] == "-" and p[j + 1] != "]":
                hi = atom(j + 1)
                if hi is None: return None
                members[-1] = ("]", hi[0]); j = hi[1]
        while j < len(p) and p[j] != "]":
            lo = atom(j)
            if lo is None: return None
            c, j, _q = lo
            if j + 1 < len(p) and p[j] == "-" and p[j + 1] != "]":
                hi = atom(j + 1)
                if hi is None: return None
                members.append((c, hi[0])); j = hi[1]
            else:
                members.append(c)
        if j >= len(p) or not members:
            return None
        return neg, members, j + 1

    def in_members(ch, members):
        for mbr in members:
            if isinstance(mbr, tuple):
                if mbr[0] <= ch <= mbr[1]: return True
            elif mbr == ch:
                return True
        return False

    def go(pi, si):
        while pi < len(p):
            c = p[pi]
            if c == "*":
                for k in range(si, len(s) + 1):
                    if go(pi + 1, k): return True
                return False
            if c == "?":
                if si >= len(s): return False
                pi += 1; si += 1; continue
            if c == "\\":
                if pi + 1 >= len(p): return False          # trailing backslash: no match
                if si >= len(s) or s[si] != p[pi + 1]: return False
                pi += 2; si += 1; continue
            if c == "[":
                b = bracket(pi)
                if b is not None:
                    neg, members, nxt = b
                    if si >= len(s) or (in_members(s[si], members) == neg): return False
                    pi = nxt; si += 1; continue
            if si >= len(s) or s[si] != c: return False
            pi += 1; si += 1
        return si == len(s)
    return go(0, 0)


def has_reversed_range(p, bracket_backslash="quote"):
    """a range whose start sorts after its end is undefined in POSIX: such patterns are outside the comparison.
    Only ranges inside something that parses as a bracket expression count (found with the reference's own bracket parser)."""
    found = []

    class Probe(str):
        pass
    # re-use fnmatch_ref's parser by walking the pattern the way go() does, on a subject that never matches
    def scan(pi):
        while pi < len(p):
            c = p[pi]
            if c == "\\":
                pi += 2; continue
            if c == "[":
                j = pi + 1
                if j < len(p) and p[j] == "!": j += 1
                first = True
                items = []
                ok = False
                while j < len(p):
                    if p[j] == "]" and not first:
                        ok = True; break
                    if p[j] == "\\" and bracket_backslash == "quote":
                        if j + 1 >= len(p): break
                        items.append(p[j + 1]); j += 2
                    else:
                        items.append(("raw", p[j])); j += 1
                    first = False
                if ok:
                    flat = [x[1] if isinstance(x, tuple) else x for x in items]
                    raw_dash = [isinstance(x, tuple) and x[1] == "-" for x in items]
                    k = 0
                    while k < len(flat):
                        if k + 2 < len(flat) and raw_dash[k + 1]:
                            if flat[k] > flat[k + 2]: found.append((flat[k], flat[k + 2]))
                            k += 3
                        else:
                            k += 1
                    pi = j + 1; continue
            pi += 1
    scan(0)
    return bool(found)
