// harnesses for module m_user (included into /repo under cfg(kani))
