// harnesses for module m_logical_matchers (included into /repo under cfg(kani))
