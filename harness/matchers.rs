// Harness support living in find::matchers (re-exports for find/mod.rs harnesses) and C01 action flags.
use super::*;
pub(crate) use super::entry::verif_kani as common;
pub(crate) use super::prune::verif_kani::PruneProbe;
use common::{fmt_stub, hae_stub, he_stub, noop_stub, Deps};

/// Always-true leaf usable from find/mod.rs harnesses.
pub struct VerifTrue;
impl Matcher for VerifTrue { fn matches(&self, _: &WalkEntry, _: &mut MatcherIO) -> bool { true } }

// @harness props=C01 tier=quick cost=30
// @replay quit_no_action
// @exec has_side_effects of Printer, DeleteMatcher, PruneMatcher, QuitMatcher, TrueMatcher, FalseMatcher, Printf, Single/MultiExecMatcher, TypeMatcher-like tests
// @sym which primary (index)
// @bounds one primary
/// The "is an action" table behind the implicit -print: -print/-print0/-printf/-ls/-delete/-exec* are actions; -prune, -quit and tests are not.
#[kani::proof]
#[kani::unwind(4)]
#[kani::stub(alloc::fmt::format, fmt_stub)]
#[kani::stub(alloc::raw_vec::handle_error, he_stub)]
#[kani::stub(std::alloc::handle_alloc_error, hae_stub)]
#[kani::stub(std::rt::thread_cleanup, noop_stub)]
fn c01_action_flags() {
    let which: u8 = kani::any();
    kani::assume(which < 12);
    let (got, want) = match which {
        0 => (Printer::new(PrintDelimiter::Newline, None).has_side_effects(), true),
        1 => (Printer::new(PrintDelimiter::Null, None).has_side_effects(), true),
        2 => (DeleteMatcher::new().has_side_effects(), true),
        3 => (PruneMatcher::new().has_side_effects(), false),
        4 => (QuitMatcher.has_side_effects(), false),
        5 => (TrueMatcher.has_side_effects(), false),
        6 => (FalseMatcher.has_side_effects(), false),
        7 => (PruneMatcher::new().has_side_effects(), false),
        8 => { let m = printf::verif_kani::printf_empty(); let r = m.has_side_effects(); std::mem::forget(m); (r, true) }
        9 => { let m = exec::verif_kani::single_exec_empty(); let r = m.has_side_effects(); std::mem::forget(m); (r, true) }
        10 => { let m = exec::verif_kani::multi_exec_empty(); let r = m.has_side_effects(); std::mem::forget(m); (r, true) }
        _ => (EmptyMatcher::new().has_side_effects(), false),
    };
    assert!(got == want);
    kani::cover!(which == 8); kani::cover!(which == 4); kani::cover!(which == 10);
}
#[kani::proof]
#[kani::unwind(4)]
#[kani::stub(alloc::fmt::format, fmt_stub)]
fn c01_action_flags_canary() {
    assert!(!DeleteMatcher::new().has_side_effects()); // must FAIL
}

// ---------------------------------------------------------------------------------------------
// C01: the implicit -print wrapper of build_top_level_matcher (expression parser and And-builder abstracted)
// ---------------------------------------------------------------------------------------------
use super::logical_matchers::verif_kani::Probe;
static mut BT_ACTION: bool = false;
static mut BT_PUSHED: usize = 0;
static mut BT_PUSH_IS_PRINTER: [bool; 4] = [false; 4];
static mut BT_BUILT: usize = 0;
fn tree_script(_args: &[&str], _config: &mut Config, _i: usize, _b: bool, _rt: &mut super::regex::RegexType) -> Result<(usize, Box<dyn Matcher>), Box<dyn Error>> {
    unsafe { Ok((0, Box::new(Probe { id: 1, result: true, quits: false, action: BT_ACTION }))) }
}
fn nac_rec<M: Matcher>(_b: &mut AndMatcherBuilder, m: M) {
    unsafe {
        if BT_PUSHED < 4 { BT_PUSH_IS_PRINTER[BT_PUSHED] = std::any::TypeId::of::<M>() == std::any::TypeId::of::<Printer>(); }
        BT_PUSHED += 1;
    }
    std::mem::forget(m);
}
fn build_rec(b: AndMatcherBuilder) -> Box<dyn Matcher> { unsafe { BT_BUILT += 1; } std::mem::forget(b); Box::new(VerifTrue) }

// @harness props=C01 tier=quick cost=30 flags=nomem
// @replay quit_no_action
// @exec build_top_level_matcher (the "no action => add -print" decision), Matcher::has_side_effects of the parsed expression
// @sym whether the parsed expression contains an action
// @bounds build_matcher_tree replaced by a script returning an arbitrary expression; AndMatcherBuilder::{new_and_condition,build} replaced by recorders (their semantics: c01_and_builder)
/// -print is conjoined after the whole expression iff the expression contains no action; otherwise the expression is returned as is.
#[kani::proof]
#[kani::unwind(4)]
#[kani::stub(alloc::fmt::format, fmt_stub)]
#[kani::stub(alloc::raw_vec::handle_error, he_stub)]
#[kani::stub(std::alloc::handle_alloc_error, hae_stub)]
#[kani::stub(std::rt::thread_cleanup, noop_stub)]
#[kani::stub(build_matcher_tree, tree_script)]
#[kani::stub(AndMatcherBuilder::new_and_condition, nac_rec)]
#[kani::stub(AndMatcherBuilder::build, build_rec)]
fn c01_default_print() {
    unsafe { BT_ACTION = kani::any(); BT_PUSHED = 0; BT_BUILT = 0; }
    let mut config = Config::default();
    let m = match build_top_level_matcher(&["x"], &mut config) { Ok(m) => m, Err(e) => { std::mem::forget(e); assert!(false); return; } };
    unsafe {
        if BT_ACTION {
            assert!(BT_PUSHED == 0 && BT_BUILT == 0);
        } else {
            // expression first, then -print, combined by "and"
            assert!(BT_PUSHED == 2 && BT_BUILT == 1);
            assert!(!BT_PUSH_IS_PRINTER[0] && BT_PUSH_IS_PRINTER[1]);
        }
        kani::cover!(BT_ACTION);
        kani::cover!(!BT_ACTION);
    }
    std::mem::forget(m);
}
#[kani::proof]
#[kani::unwind(4)]
#[kani::stub(alloc::fmt::format, fmt_stub)]
#[kani::stub(alloc::raw_vec::handle_error, he_stub)]
#[kani::stub(std::alloc::handle_alloc_error, hae_stub)]
#[kani::stub(std::rt::thread_cleanup, noop_stub)]
#[kani::stub(build_matcher_tree, tree_script)]
#[kani::stub(AndMatcherBuilder::new_and_condition, nac_rec)]
#[kani::stub(AndMatcherBuilder::build, build_rec)]
fn c01_default_print_canary() {
    unsafe { BT_ACTION = kani::any(); BT_PUSHED = 0; BT_BUILT = 0; }
    let mut config = Config::default();
    let m = build_top_level_matcher(&["x"], &mut config);
    unsafe { assert!(BT_PUSHED == 2); } // "always print": must FAIL
    std::mem::forget(m);
}
