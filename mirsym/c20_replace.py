#!/usr/bin/env python3
"""C20 (+ C19's classification, C04's "command and initial arguments unchanged"): MIR-level symbolic execution of
CommandBuilder::execute (argv assembly with and without -I replacement; classification of the child's fate) and of
normalize_options (which of -n / -L / -I wins; the delimiter)."""
import json, os, sys, time, z3
import loader, models, interp, natives_fs
from interp import Machine, SliceRef, RStr, Ptr, Struct, Enum, Opaque, BoxObj, VecObj, Tuple, Unsupported, RustPanic, PathAbort, UNIT
from models import model, Some, NONE, Ok, Err, deref, as_list
from natives_fs import PStr, text_of

REPL = ["{}", "X", "%%"]
INIT = ["a{}b", "{}{}", "plain", "X", "", "{", "-{}", "{{}}", "XXX%%%"]      # the last two: an occurrence of R right after R's own first byte
LINES = ["l 1", "{}", "", "X", "a'b", "t \t"]          # the last one ends in blanks (only leading blanks are excluded by the property)


@model("str::replace")
def _replace(m, args, raw):
    return PStr(text_of(m, args[0]).replace(text_of(m, args[1]), text_of(m, args[2])))


@model("OsStr::to_string_lossy", "<Cow as Deref>::deref", "^<OsString as From(<.*>)?>::from$")
def _text_identity(m, args, raw):
    return PStr(text_of(m, args[0]))


@model("str::trim_matches", "str::trim_start_matches", "str::trim_end_matches", "str::trim", "str::trim_start", "str::trim_end")
def _trim(m, args, raw):
    t = text_of(m, args[0])
    if len(args) > 1:
        pat = deref(args[1])
        chars = "".join(chr(c) for c in (pat if isinstance(pat, list) else [pat]))
    else:
        chars = " \t\n\x0b\x0c\r"
    name = raw.split("::<")[0].rsplit("::", 1)[-1]
    if "start" in name: return PStr(t.lstrip(chars))
    if "end" in name: return PStr(t.rstrip(chars))
    return PStr(t.strip(chars))


@model("Stdio::null")
def _stdio_null(m, args, raw):
    return Opaque("Stdio::null")


def _vname(v):
    return v.variant if isinstance(v, Enum) else v.ty


# ----------------------------------------------------------------------------------------------- execute()
def explore_execute(funcs, index, enums):
    res = {"kind": "execute", "paths": 0, "checks": 0, "violations": [], "unsupported": {}, "samples": []}
    r_i, a_i, b_i, l_i = z3.Int("repl"), z3.Int("init1"), z3.Int("init2"), z3.Int("line")
    use_replace = z3.Bool("use_replace")
    exited, code, sig, spawn = z3.Bool("exited"), z3.Int("code"), z3.Int("sig"), z3.Int("spawn")    # spawn: 0 started, 1 not found, 2 other error
    state = {}

    def cmd_new(m, args):
        c = Struct("Cmd", [text_of(m, args[0]), [], None, False, False])
        state["cmd"] = c
        return c

    def cmd_args(m, args):
        items, a, b = as_list(args[1])
        deref(args[0]).fields[1].extend(text_of(m, x) for x in items[a:b])
        return args[0]

    def cmd_env_clear(m, args):
        deref(args[0]).fields[3] = True
        return args[0]

    def cmd_envs(m, args):
        deref(args[0]).fields[4] = True
        return args[0]

    def cmd_status(m, args):
        state["ran"] = state.get("ran", 0) + 1
        sp = m.decide_int(spawn, [0, 1])
        state["spawn"] = 2 if sp is None else sp
        if state["spawn"] != 0:
            return Err(Struct("IoError", ["NotFound" if state["spawn"] == 1 else "PermissionDenied"]))
        ex = m.decide(exited)
        state["exited"] = ex
        return Ok(Struct("ExitStatusV", [ex]))

    natives = {"Command::new": cmd_new, "Command::args": cmd_args, "Command::env_clear": cmd_env_clear, "Command::envs": cmd_envs,
               "Command::stdin": lambda m, a: a[0], "Command::status": cmd_status,
               "ExitStatus::success": lambda m, a: (z3.And(exited, code == 0) if deref(a[0]).fields[0] else False),
               "ExitStatus::code": lambda m, a: (Some(code) if deref(a[0]).fields[0] else models.NONE()),
               "<ExitStatus as ExitStatusExt>::signal": lambda m, a: (models.NONE() if deref(a[0]).fields[0] else Some(sig)),
               "Error::kind": lambda m, a: Enum("ErrorKind", deref(a[0]).fields[0], []),
               "<ErrorKind as PartialEq>::eq": lambda m, a: _vname(deref(a[0])) == _vname(deref(a[1]))}
    # strings as bytes, for code that substitutes on the raw bytes instead of going through str::replace (std's documented behaviour on concrete text)
    def _bytes_of(m, v):
        return list(text_of(m, v).encode("utf-8", errors="surrogateescape"))
    def _extend(m, a):
        items, x, y = as_list(a[1])
        deref(a[0]).items.extend(items[x:y])
        return UNIT
    natives.update({
        "str::as_bytes": lambda m, a: SliceRef(_bytes_of(m, a[0])), "<OsStr as OsStrExt>::as_bytes": lambda m, a: SliceRef(_bytes_of(m, a[0])),
        "OsStr::len": lambda m, a: len(_bytes_of(m, a[0])), "Vec::with_capacity": lambda m, a: VecObj(), "Vec::extend_from_slice": _extend,
        "<OsString as OsStringExt>::from_vec": lambda m, a: PStr(bytes(deref(a[0]).items).decode("utf-8", errors="surrogateescape")),
        "OsStr::to_os_string": lambda m, a: PStr(text_of(m, a[0])),
    })
    m = Machine(funcs, index, enums, models, natives=natives)
    m.enums.setdefault("ErrorKind", ["NotFound", "PermissionDenied", "Other"])
    m.base_constraints = [r_i >= 0, r_i < len(REPL), a_i >= 0, a_i < len(INIT), b_i >= 0, b_i < len(INIT), l_i >= 0, l_i < len(LINES),
                          code >= 0, code <= 255, sig >= 1, sig <= 64, spawn >= 0, spawn <= 2]
    m.pending = [[]]
    t0 = time.time()
    while m.pending:
        m.reset_path(m.pending.pop())
        state.clear()
        try:
            rep = m.decide(use_replace)
            action = Enum("ExecAction", "Command", [VecObj([PStr("cmd"), RStr(sym=a_i, vocab=INIT), RStr(sym=b_i, vocab=INIT)])])
            opts = [Struct("CommandBuilderOptions", [action, Opaque("env"), Struct("LimiterCollection", [VecObj()]), False, False,
                                                     Some(RStr(sym=r_i, vocab=REPL)) if rep else models.NONE()])]
            extra = VecObj([RStr(sym=l_i, vocab=LINES)])
            b = Struct("CommandBuilder", [Ptr(opts, 0), extra, Struct("LimiterCollection", [VecObj()])])
            r = m.call("CommandBuilder::execute", [b])
        except RustPanic as e:
            res["violations"].append({"what": "panic: " + str(e)[:100]})
            res["paths"] += 1
            continue
        except Unsupported as e:
            res["unsupported"][str(e)[:100]] = res["unsupported"].get(str(e)[:100], 0) + 1
            continue
        except PathAbort:
            continue
        res["paths"] += 1
        s = z3.Solver()
        for c in m.base_constraints + m.pc: s.add(c)
        s.check()
        mod = s.model()
        val = lambda v: mod.eval(v, model_completion=True).as_long()
        R, A, B, L = REPL[val(r_i)], INIT[val(a_i)], INIT[val(b_i)], LINES[val(l_i)]
        cmd = state.get("cmd")
        bad = []
        want = ["cmd"] if False else ([A.replace(R, L), B.replace(R, L)] if rep else [A, B, L])
        if cmd is None or cmd.fields[0] != "cmd" or cmd.fields[1] != want:
            bad.append("argv %r, expected cmd + %r (replace=%s R=%r line=%r)" % (cmd and [cmd.fields[0]] + cmd.fields[1], want, rep, R, L))
        if cmd is not None and not (cmd.fields[3] and cmd.fields[4]):
            bad.append("environment not reset to the captured one")
        if state.get("ran") != 1:
            bad.append("command started %r times" % state.get("ran"))
        # classification (C19), decided by z3 over the symbolic wait status
        def prove(claim, what):
            res["checks"] += 1
            ps = z3.Solver()
            for c in m.base_constraints + m.pc: ps.add(c)
            ps.add(z3.Not(claim))
            if ps.check() == z3.sat:
                bad.append(what + " (witness %s)" % ps.model())
        if isinstance(r, Enum) and r.ty == "Result":
            kind = (r.variant, r.fields[0].variant if r.fields and isinstance(r.fields[0], Enum) else None)
        elif isinstance(r, Enum) and r.variant in ("Success", "Failure"):
            kind = ("Ok", r.variant)                        # an interface that returns the result without a Result around it
        elif isinstance(r, Enum) and r.fields and isinstance(r.fields[0], Enum):
            kind = ("Err", r.fields[0].variant); r = Err(r.fields[0])      # ... and carries the fatal outcome inside it
        else:
            raise Unsupported("execute returned %r" % (r,))
        sp = state.get("spawn")
        if sp == 1:
            if kind != ("Err", "NotFound"): bad.append("missing command classified %r" % (kind,))
        elif sp == 2:
            if kind != ("Err", "CannotRun"): bad.append("unstartable command classified %r" % (kind,))
        elif state.get("exited"):
            if kind == ("Ok", "Success"): prove(code == 0, "Success for a non-zero exit")
            elif kind == ("Ok", "Failure"): prove(z3.And(code >= 1, code <= 254), "Failure outside 1..254")
            elif kind == ("Err", "UrgentlyFailed"): prove(code == 255, "UrgentlyFailed for a status other than 255")
            else: bad.append("exited child classified %r" % (kind,))
        else:
            if kind != ("Err", "Killed"): bad.append("signalled child classified %r" % (kind,))
            else:
                sv = r.fields[0].fields[0]
                prove(interp._z(sv) == sig, "Killed carries another signal")
        for w in bad:
            res["violations"].append({"what": w, "R": R, "init": [A, B], "line": L, "replace": rep})
        if len(res["samples"]) < 3 and rep:
            res["samples"].append({"R": R, "initial": [A, B], "line": L, "argv": cmd and cmd.fields[1], "result": kind})
    res["wall_s"] = round(time.time() - t0, 2)
    res["solver_calls"] = m.stats["solver_calls"]
    res["functions_executed"] = sorted(m.executed)
    return res


# ----------------------------------------------------------------------------------------------- normalize_options
def replace_arg_chain(text):
    """the clap builder calls do_xargs applies to the -i/--replace argument, read from the MIR (the model of ArgMatches::indices_of
    depends on one of them: an occurrence without a value has an index only if a default_missing_value supplies the value)"""
    import re
    i = text.find("clap::Arg::new::<&str>(const xargs::options::REPLACE)")
    if i < 0:
        return None
    j = text.find("clap::Command::arg::<clap::Arg>", i)
    return sorted(set(re.findall(r"clap::Arg::(\w+)", text[i:j])))


def explore_normalize(funcs, index, enums, text=None):
    res = {"kind": "normalize_options", "paths": 0, "checks": 0, "violations": [], "unsupported": {}, "samples": []}
    chain = replace_arg_chain(text) if text else None
    if chain is None:
        res["unsupported"]["definition of the -i/--replace argument not found in do_xargs"] = 1
        chain = []
    res["replace_arg_definition"] = chain
    default_missing = any(c.startswith("default_missing_value") for c in chain)
    form_i, form_val = z3.Bool("replace_given_as_I"), z3.Bool("replace_has_value")
    has = {k: z3.Bool("has_" + k) for k in ("n", "L", "I", "d", "null")}
    pos = {k: z3.Int("pos_" + k) for k in ("n", "L", "I", "d", "null")}
    nval, lval, dval = z3.Int("n_val"), z3.Int("l_val"), z3.Int("d_val")
    NAMES = {"max-args": "n", "max-lines": "L", "replace-I": "I", "replace": "I", "delimiter": "d", "null": "null"}
    state = {}

    def indices_of(m, args):
        name = text_of(m, args[1])
        k = NAMES.get(name)
        if k is None or not state["has"][k]:
            return models.NONE()
        if k == "I":
            # -I R is the argument "replace-I"; -i[=R] / --replace[=R] is the argument "replace", possibly without a value
            if (name == "replace-I") != (state["form"] == "I"):
                return models.NONE()
            if state["form"] == "i_noval" and not default_missing:
                return models.NONE()
        return Some(Struct("Indices", [[pos[k]]]))

    def next_back(m, args):
        it = deref(args[0])
        return Some(it.fields[0].pop()) if it.fields[0] else models.NONE()

    def and_then(m, args, raw):
        v = args[0]
        if v.variant != "Some":
            return models.NONE()
        import re
        mc = re.search(r"\{closure@[^}]*\}", raw)
        return m.run(m.index[mc.group(0)], [args[1], v.fields[0]])

    def flat_map_max(kind):
        def flat_map(m, args, raw):
            import re
            mc = re.search(r"\{closure@[^}]*\}", raw)
            return Struct("FlatMapIter", [deref(args[0]), mc.group(0), args[1]])

        def imax(m, args, raw):
            fm = deref(args[0])
            it, clos, env = fm.fields
            items, p, end = it.fields
            best = None
            while p < end:
                o = m.run(m.index[clos], [Ptr([env], 0), Ptr(items, p)])
                p += 1
                if o.variant == "Some":
                    v = o.fields[0]
                    best = v if best is None else z3.If(interp._z(v) > interp._z(best), interp._z(v), interp._z(best))
            return models.NONE() if best is None else Some(best)
        return flat_map if kind == "fm" else imax

    def opt_gt(m, args):
        a, b = deref(args[0]), deref(args[1])
        if a.variant == "None":
            return False
        if b.variant == "None":
            return True
        return interp._z(a.fields[0]) > interp._z(b.fields[0])

    models.EXACT["Option::and_then"] = and_then
    models.EXACT["<Iter as Iterator>::flat_map"] = flat_map_max("fm")
    models.EXACT["<FlatMap as Iterator>::max"] = flat_map_max("max")
    natives = {"ArgMatches::indices_of": indices_of, "<Indices as DoubleEndedIterator>::next_back": next_back,
               "^": None, "Arguments::from_str": lambda m, a: Opaque("fmt"), "io::_eprint": lambda m, a: UNIT, "_eprint": lambda m, a: UNIT,
               "Option::as_ref": lambda m, a: (Some(Ptr(deref(a[0]).fields, 0)) if deref(a[0]).variant == "Some" else models.NONE())}
    natives.pop("^")
    natives["<Option<usize> as PartialOrd>::gt"] = opt_gt
    m = Machine(funcs, index, enums, models, natives=natives)
    allpos = list(pos.values())
    m.base_constraints = [z3.And(p >= 1, p <= 9) for p in allpos] + [z3.Distinct(*allpos), nval >= 1, nval <= 5, lval >= 1, lval <= 5, dval >= 1, dval <= 127]
    m.pending = [[]]
    t0 = time.time()
    while m.pending:
        m.reset_path(m.pending.pop())
        try:
            hv = {k: m.decide(has[k]) for k in has}
            state["has"] = hv
            state["form"] = "none"
            if hv["I"]:
                state["form"] = "I" if m.decide(form_i) else ("i_val" if m.decide(form_val) else "i_noval")
            repl = [Some(RStr("{}")) if hv["I"] else models.NONE()]
            opts = [Struct("Options", [models.NONE(), Some(dval) if hv["d"] else models.NONE(), False, Some(nval) if hv["n"] else models.NONE(), models.NONE(),
                                       Some(lval) if hv["L"] else models.NONE(), False, hv["null"], repl[0], False])]
            r = m.call("normalize_options", [Ptr(opts, 0), Opaque("matches")])
        except RustPanic as e:
            res["violations"].append({"what": "panic: " + str(e)[:100]})
            res["paths"] += 1
            continue
        except Unsupported as e:
            res["unsupported"][str(e)[:100]] = res["unsupported"].get(str(e)[:100], 0) + 1
            continue
        except PathAbort:
            continue
        res["paths"] += 1
        max_args, max_lines, replace, delim = r.fields
        replace = deref(replace)
        got_mode = "I" if replace.variant == "Some" else ("L" if max_lines.variant == "Some" else ("n" if max_args.variant == "Some" else "none"))
        bad = []

        def prove(claim, what):
            res["checks"] += 1
            ps = z3.Solver()
            for c in m.base_constraints + m.pc: ps.add(c)
            ps.add(z3.Not(claim))
            if ps.check() == z3.sat:
                bad.append(what + " (witness %s)" % ps.model())
        given = [k for k in ("n", "L", "I") if hv[k]]
        # the property: the option given last determines the mode; -I with -n 1 is not a conflict (it stays -I)
        if not given:
            if got_mode != "none": bad.append("mode %s without -n/-L/-I" % got_mode)
        elif len(given) == 1:
            if got_mode != given[0]: bad.append("mode %s although only -%s was given" % (got_mode, given[0]))
        else:
            last = lambda k: z3.And([pos[k] > pos[o] for o in given if o != k])
            if given == ["n", "I"]:
                prove(z3.Or(nval == 1, last(got_mode) if got_mode in given else False, ) if got_mode == "I" else last(got_mode) if got_mode in given else z3.BoolVal(False),
                      "mode %s with -n and -I" % got_mode)
                if got_mode == "n":
                    prove(nval != 1, "-I with -n 1 treated as a conflict won by -n")
            else:
                prove(last(got_mode) if got_mode in given else z3.BoolVal(False), "mode %s is not the option given last among %s" % (got_mode, given))
        if got_mode == "I":
            if max_args.variant != "Some": bad.append("-I mode without max_args")
            else: prove(interp._z(max_args.fields[0]) == 1, "-I mode does not run one line per invocation")
            if max_lines.variant != "None": bad.append("-I mode keeps -L")
        if got_mode == "n":
            prove(interp._z(max_args.fields[0]) == nval, "-n value changed")
            if max_lines.variant != "None": bad.append("-n mode keeps -L")
        if got_mode == "L":
            prove(interp._z(max_lines.fields[0]) == lval, "-L value changed")
            if max_args.variant != "None": bad.append("-L mode keeps -n")
        # delimiter: -0 / -d: the later one; -I without either: newline
        if hv["d"] and hv["null"]:
            if delim.variant != "Some": bad.append("no delimiter with -0 and -d")
            else: prove(interp._z(delim.fields[0]) == z3.If(pos["null"] > pos["d"], 0, dval), "delimiter with -0 and -d is not the later one")
        elif hv["d"]:
            prove(interp._z(delim.fields[0]) == dval if delim.variant == "Some" else z3.BoolVal(False), "-d value lost")
        elif hv["null"]:
            if delim.variant != "Some" or not (isinstance(delim.fields[0], int) and delim.fields[0] == 0): bad.append("-0 does not select NUL")
        else:
            if got_mode == "I":
                if delim.variant != "Some" or delim.fields[0] != 10: bad.append("-I without -0/-d does not split at newlines only")
            elif delim.variant != "None": bad.append("delimiter %r without -0/-d/-I" % (delim,))
        for w in bad:
            res["violations"].append({"what": w, "given": given, "has": {k: v for k, v in hv.items()}, "form": state["form"]})
        if len(res["samples"]) < 3 and len(given) >= 2:
            res["samples"].append({"given": given, "mode": got_mode, "delimiter": str(delim)})
    res["wall_s"] = round(time.time() - t0, 2)
    res["solver_calls"] = m.stats["solver_calls"]
    res["functions_executed"] = sorted(m.executed)
    return res


# ----------------------------------------------------------------------------------------------- the -I pipeline: process_input + real execute
PIPE_INIT = ["a{}b", "X%%", "plain", "{}{}"]
PIPE_LINES = ["l 1", "{}", "X", "t \t"]


def explore_pipeline(nlines, funcs, index, enums):
    """process_input, CommandBuilderOptions::new, CommandBuilder::{new,add_arg,execute}, the -n 1 limiter and CommandResult::combine
    from their MIR, in the configuration normalize_options selects for -I (max_args = 1, replace = Some(R)); the reader hands out
    nlines hard-terminated lines (symbolic texts), every child has a symbolic fate, -r is a symbolic flag."""
    res = {"kind": "pipeline/%d lines" % nlines, "paths": 0, "checks": 0, "violations": [], "unsupported": {}, "samples": []}
    r_i = z3.Int("repl")
    l_i = [z3.Int("line%d" % i) for i in range(nlines)]
    outc = [z3.Int("out%d" % i) for i in range(nlines + 1)]         # 0 exit 0, 1 exit 1..254, 2 exit 255
    no_run = z3.Bool("no_run_if_empty")
    state = {}

    def reader_next(m, args):
        i = state["read"]
        if i >= nlines:
            return Ok(models.NONE())
        state["read"] = i + 1
        return Ok(Some(Struct("Argument", [RStr(sym=l_i[i], vocab=PIPE_LINES), Enum("ArgumentKind", "HardTerminated", [])])))

    def cmd_new(m, args):
        c = Struct("Cmd", [text_of(m, args[0]), [], None, False, False])
        state["cmds"].append(c)
        return c

    def cmd_args(m, args):
        items, a, b = as_list(args[1])
        deref(args[0]).fields[1].extend(text_of(m, x) for x in items[a:b])
        return args[0]

    def cmd_status(m, args):
        k = len(state["outs"])
        o = m.decide_int(outc[k], [0, 1]) if k < len(outc) else 0
        o = 2 if o is None else o
        state["outs"].append(o)
        return Ok(Struct("ExitStatusV", [o]))

    natives = {"<IdReader as ArgumentReader>::next": reader_next, "Command::new": cmd_new, "Command::args": cmd_args,
               "Command::env_clear": lambda m, a: a[0], "Command::envs": lambda m, a: a[0], "Command::stdin": lambda m, a: a[0], "Command::status": cmd_status,
               "ExitStatus::success": lambda m, a: deref(a[0]).fields[0] == 0,
               "ExitStatus::code": lambda m, a: Some({0: 0, 1: 7, 2: 255}[deref(a[0]).fields[0]])}
    m = Machine(funcs, index, enums, models, natives=natives)
    m.base_constraints = [r_i >= 0, r_i < len(REPL)] + [z3.And(l >= 0, l < len(PIPE_LINES)) for l in l_i] + [z3.And(o >= 0, o <= 2) for o in outc]
    m.pending = [[]]
    t0 = time.time()
    while m.pending:
        m.reset_path(m.pending.pop())
        state.update(read=0, cmds=[], outs=[])
        try:
            nr = m.decide(no_run)
            action = Enum("ExecAction", "Command", [VecObj([PStr("cmd")] + [PStr(x) for x in PIPE_INIT])])
            coll = Struct("LimiterCollection", [VecObj([BoxObj(Struct("MaxArgsCommandSizeLimiter", [0, 1]))])])
            r = m.call("CommandBuilderOptions::new", [action, Opaque("env"), coll, Some(RStr(sym=r_i, vocab=REPL))])
            if r.variant != "Ok":
                res["violations"].append({"what": "command rejected by -n 1 alone"})
                res["paths"] += 1
                continue
            bo = [r.fields[0]]
            opts = [Struct("InputProcessOptions", [False, Some(1), models.NONE(), nr])]
            rr = m.call("process_input", [Ptr(bo, 0), BoxObj(Struct("IdReader", [])), Ptr(opts, 0)])
        except RustPanic as e:
            res["violations"].append({"what": "panic: " + str(e)[:100], "lines": nlines, "no_run_if_empty": nr, "invocations": len(state["cmds"])})
            res["paths"] += 1
            continue
        except Unsupported as e:
            res["unsupported"][str(e)[:100]] = res["unsupported"].get(str(e)[:100], 0) + 1
            continue
        except PathAbort:
            continue
        res["paths"] += 1
        s = z3.Solver()
        for c in m.base_constraints + m.pc: s.add(c)
        s.check()
        mod = s.model()
        val = lambda v: mod.eval(v, model_completion=True).as_long()
        R = REPL[val(r_i)]
        lines = [PIPE_LINES[val(v)] for v in l_i]
        outs = state["outs"]
        fatal = [k for k, o in enumerate(outs) if o == 2]
        ran = len(lines) if not fatal else fatal[0] + 1
        bad = []
        res["checks"] += 1
        got = [[c.fields[0]] + c.fields[1] for c in state["cmds"]]
        want = [["cmd"] + [a.replace(R, ln) for a in PIPE_INIT] for ln in lines[:ran]]
        if got != want:
            bad.append("invocations %r, expected %r" % (got, want))
        if fatal:
            if not (rr.variant == "Err" and len(outs) == fatal[0] + 1):
                bad.append("exit 255 did not stop xargs at once: result %s after outcomes %s" % (rr.variant, outs))
        else:
            wres = "Failure" if any(o == 1 for o in outs) else "Success"
            if rr.variant != "Ok" or rr.fields[0].variant != wres:
                bad.append("result %s, expected Ok(%s) for outcomes %s" % (rr.variant if rr.variant != "Ok" else "Ok(%s)" % rr.fields[0].variant, wres, outs))
        for w in bad:
            res["violations"].append({"what": w, "R": R, "lines": lines, "no_run_if_empty": nr})
        if len(res["samples"]) < 2 and nlines >= 2 and not fatal:
            res["samples"].append({"R": R, "lines": lines, "invocations": got})
    res["wall_s"] = round(time.time() - t0, 2)
    res["solver_calls"] = m.stats["solver_calls"]
    res["functions_executed"] = sorted(m.executed)
    return res


if __name__ == "__main__":
    text = open(sys.argv[2]).read() if len(sys.argv) > 2 else None
    funcs, index, enums, secs, text = loader.load(os.environ.get("FINDUTILS_REPO", "/repo"), text)
    for which in (sys.argv[1].split(",") if len(sys.argv) > 1 else ["execute", "normalize"]):
        r = (explore_execute(funcs, index, enums) if which == "execute" else explore_normalize(funcs, index, enums, text) if which == "normalize"
             else explore_pipeline(int(which[4:]), funcs, index, enums))
        v = r.pop("violations")
        print(json.dumps({k: r[k] for k in ("kind", "paths", "checks", "solver_calls", "wall_s", "unsupported", "samples")})[:900])
        print(len(v), "violations")
        seen = set()
        for x in v:
            if x["what"][:50] in seen: continue
            seen.add(x["what"][:50]); print("  ", json.dumps(x, default=str)[:400])
