import sys, time, z3
import loader, models, interp
from interp import *
text=open('/tmp/dev/mir.txt').read()
funcs,index,enums,secs,_=loader.load('/repo', text)
print(len(funcs), len(index), len(enums))
for k in ["ListMatcherBuilder::new","<AndMatcher as Matcher>::matches","build_matcher_tree","build_top_level_matcher","<Box<dyn Matcher> as Matcher>::matches","Matcher::into_box","<Config as Default>::default","Printer::new","are_more_expressions"]:
    print(k, index.get(k))
m=Machine(funcs,index,enums,models)
m.reset_path([])
toks=sys.argv[1:] or ["-true","-o","-print"]
args=SliceRef([RStr(t) for t in toks])
cfg=m.call("<Config as Default>::default",[])
cell=[cfg]
try:
    r=m.call("build_top_level_matcher",[args,Ptr(cell,0)])
    print("RESULT",r)
except Exception as e:
    import traceback; traceback.print_exc()
    print(m.stats)
