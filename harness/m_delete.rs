// C10: -delete removes the entry itself with the right system call and reports failure.
use super::*;
use crate::find::matchers::entry::verif_kani::*;
use crate::find::matchers::Follow;
use std::path::Path;

static mut RMDIR: usize = 0;
static mut UNLINK: usize = 0;
static mut FAIL: bool = false;
static mut ARG_OK: bool = true;
fn note_path(p: &Path) { unsafe { if p.as_os_str().as_encoded_bytes() != b"a" { ARG_OK = false; } } }
fn rmdir_stub<P: AsRef<Path>>(p: P) -> io::Result<()> { note_path(p.as_ref()); unsafe { RMDIR += 1; if FAIL { Err(io::Error::from_raw_os_error(libc::ENOTEMPTY)) } else { Ok(()) } } }
fn unlink_stub<P: AsRef<Path>>(p: P) -> io::Result<()> { note_path(p.as_ref()); unsafe { UNLINK += 1; if FAIL { Err(io::Error::from_raw_os_error(libc::EACCES)) } else { Ok(()) } } }

// @harness props=C10 tier=quick cost=300 flags=nomem
// @exec DeleteMatcher::{matches,delete,has_side_effects}, WalkEntry::{file_type,path_is_symlink,metadata,path}, MatcherIO::set_exit_code
// @sym world (every file type; links to dirs/files; dangling), follow P/H/L, depth 0..1, removal fails or not
// @bounds one entry named "a"; depth <= 1
// @assume kernel contract for stat vs lstat; remove_dir/remove_file replaced by recorders with a symbolic outcome
// @replay delete_decision
/// Exactly one removal call on the entry's own path; rmdir iff the entry itself (lstat) is a directory, so a symbolic
/// link is unlinked, never its target; failure => false and exit status 1; success => true; -delete is an action.
#[kani::proof]
#[kani::unwind(3)]
#[kani::stub(alloc::fmt::format, fmt_stub)]
#[kani::stub(<std::io::Stderr as std::io::Write>::write_fmt, wf_stub)]
#[kani::stub(std::fs::metadata, stat_stub)]
#[kani::stub(std::fs::symlink_metadata, lstat_stub)]
#[kani::stub(std::fs::remove_dir, rmdir_stub)]
#[kani::stub(std::fs::remove_file, unlink_stub)]
fn c10_delete_decision() {
    let (lst, sst, s_ok, _s_err) = any_world(&[libc::ENOENT]);
    unsafe { RMDIR = 0; UNLINK = 0; FAIL = kani::any(); ARG_OK = true; }
    let follow = any_follow();
    let depth: usize = kani::any();
    kani::assume(depth <= 1);
    let entry = WalkEntry::new("a", depth, follow);
    let deps = Deps::new();
    let mut io = MatcherIO::new(&deps);
    let m = DeleteMatcher::new();
    assert!(m.has_side_effects());
    let got = m.matches(&entry, &mut io);
    unsafe {
        assert!(RMDIR + UNLINK == 1);
        assert!(ARG_OK);
        assert!((RMDIR == 1) == is_type(lst.st_mode, libc::S_IFDIR));
        assert!(got == !FAIL);
        assert!((io.exit_code() == 1) == FAIL);
        assert!(io.exit_code() == 0 || io.exit_code() == 1);
        kani::cover!(UNLINK == 1 && is_type(lst.st_mode, libc::S_IFLNK) && s_ok && is_type(sst.st_mode, libc::S_IFDIR) && follow == Follow::Always);
        kani::cover!(RMDIR == 1 && FAIL);
        kani::cover!(UNLINK == 1 && follow == Follow::Roots && depth == 0 && is_type(lst.st_mode, libc::S_IFLNK));
    }
    std::mem::forget(entry);
}
#[kani::proof]
#[kani::unwind(3)]
#[kani::stub(alloc::fmt::format, fmt_stub)]
#[kani::stub(<std::io::Stderr as std::io::Write>::write_fmt, wf_stub)]
#[kani::stub(std::fs::metadata, stat_stub)]
#[kani::stub(std::fs::symlink_metadata, lstat_stub)]
#[kani::stub(std::fs::remove_dir, rmdir_stub)]
#[kani::stub(std::fs::remove_file, unlink_stub)]
fn c10_delete_decision_canary() {
    let (_lst, sst, s_ok, _s_err) = any_world(&[libc::ENOENT]);
    unsafe { RMDIR = 0; UNLINK = 0; FAIL = false; ARG_OK = true; }
    let entry = WalkEntry::new("a", 0, Follow::Always);
    let deps = Deps::new();
    let mut io = MatcherIO::new(&deps);
    DeleteMatcher::new().matches(&entry, &mut io);
    // wrong on purpose: "rmdir iff the followed record is a directory" (would remove through links)
    unsafe { if s_ok { assert!((RMDIR == 1) == is_type(sst.st_mode, libc::S_IFDIR)); } }
    std::mem::forget(entry);
}

// @harness props=C10 tier=quick cost=30 flags=nomem
// @exec DeleteMatcher::matches on the path "."
// @sym removal outcome
// @bounds path "."
/// "." is never removed (rmdir(".") is EINVAL); the action is still true.
#[kani::proof]
#[kani::unwind(3)]
#[kani::stub(alloc::fmt::format, fmt_stub)]
#[kani::stub(<std::io::Stderr as std::io::Write>::write_fmt, wf_stub)]
#[kani::stub(std::fs::metadata, stat_stub)]
#[kani::stub(std::fs::symlink_metadata, lstat_stub)]
#[kani::stub(std::fs::remove_dir, rmdir_stub)]
#[kani::stub(std::fs::remove_file, unlink_stub)]
fn c10_delete_dot() {
    let (_lst, _sst, _s_ok, _s_err) = any_world(&[libc::ENOENT]);
    unsafe { RMDIR = 0; UNLINK = 0; FAIL = kani::any(); }
    let entry = WalkEntry::new(".", 0, any_follow());
    let deps = Deps::new();
    let mut io = MatcherIO::new(&deps);
    assert!(DeleteMatcher::new().matches(&entry, &mut io));
    unsafe { assert!(RMDIR + UNLINK == 0); kani::cover!(FAIL); }
    assert!(io.exit_code() == 0);
    std::mem::forget(entry);
}
