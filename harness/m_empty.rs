// C13: -empty on non-directories is "regular file of size 0" on the selected record.
use super::*;
use crate::find::matchers::entry::verif_kani::*;
use crate::find::matchers::Follow;

fn read_dir_cut<P: AsRef<std::path::Path>>(_p: P) -> std::io::Result<std::fs::ReadDir> { kani::assume(false); unreachable!() }

// @harness props=C13 tier=quick cost=20 flags=nomem
// @exec EmptyMatcher::matches, WalkEntry::{file_type,metadata} on a cached record
// @sym status record (all types except directory, all sizes)
// @bounds one entry; directories excluded (read_dir is FFI: cut); which record is cached is c13_entry_metadata_record's subject
/// -empty on a non-directory: true iff the record says regular file of size 0.
#[kani::proof]
#[kani::unwind(3)]
#[kani::stub(alloc::fmt::format, fmt_stub)]
#[kani::stub(<std::io::Stderr as std::io::Write>::write_fmt, wf_stub)]
#[kani::stub(std::fs::read_dir, read_dir_cut)]
fn c13_empty_regular() {
    let (m, st) = any_metadata();
    kani::assume(!is_type(st.st_mode, libc::S_IFDIR));
    let entry = entry_with(m, 1, any_follow());
    let deps = Deps::new();
    let mut io = MatcherIO::new(&deps);
    let got = EmptyMatcher::new().matches(&entry, &mut io);
    assert!(got == (is_type(st.st_mode, libc::S_IFREG) && st.st_size == 0));
    kani::cover!(got);
    kani::cover!(!got && is_type(st.st_mode, libc::S_IFREG));
    kani::cover!(!got && st.st_size == 0);
    std::mem::forget(entry);
}
#[kani::proof]
#[kani::unwind(3)]
#[kani::stub(alloc::fmt::format, fmt_stub)]
#[kani::stub(<std::io::Stderr as std::io::Write>::write_fmt, wf_stub)]
#[kani::stub(std::fs::read_dir, read_dir_cut)]
fn c13_empty_regular_canary() {
    let (m, st) = any_metadata();
    kani::assume(!is_type(st.st_mode, libc::S_IFDIR));
    let entry = entry_with(m, 1, Follow::Never);
    let deps = Deps::new();
    let mut io = MatcherIO::new(&deps);
    let got = EmptyMatcher::new().matches(&entry, &mut io);
    assert!(got == (st.st_size == 0)); // forgets "regular file": must FAIL
    std::mem::forget(entry);
}
