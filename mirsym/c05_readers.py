#!/usr/bin/env python3
"""C05: MIR-level symbolic execution of xargs' two argument readers on symbolic input bytes and symbolic read() chunking.

WhitespaceDelimitedArgumentReader::next and ByteDelimitedArgumentReader::next are executed from their MIR until the input
is exhausted; input bytes are z3 Int variables over an alphabet, the size of every read() result is a symbolic choice
(every way of cutting the stream), the delimiter of the byte reader is a symbolic byte.  Each path's token sequence is
compared with a reference tokenizer on every completion of the bytes the path left unconstrained."""
import itertools, json, os, sys, time, z3
import loader, models, interp
from interp import Machine, SliceRef, RStr, Ptr, Struct, Enum, Opaque, BoxObj, VecObj, Tuple, Unsupported, RustPanic, PathAbort, UNIT
from models import model, Some, NONE, Ok, Err, deref, as_list

ALPHA_FULL = [0x61, 0x20, 0x0A, 0x09, 0x27, 0x22, 0x5C, 0xA0, 0x0B, 0x85, 0x0C, 0x0D, 0xC3]      # a, blank, newline, tab, quotes, backslash, 0xA0, VT, 0x85, FF, CR, 0xC3 (C3 A0 is a two-byte character, each alone is not UTF-8)
ALPHA_SMALL = [0x61, 0x20, 0x0A, 0x27, 0x5C]


# ----------------------------------------------------------------------------------------------- byte-vector models
@model("Vec::clear")
def _clear(m, args, raw):
    deref(args[0]).items.clear()
    return UNIT


@model("Vec::resize")
def _resize(m, args, raw):
    v = deref(args[0])
    n = args[1]
    if n <= len(v.items):
        del v.items[n:]
    else:
        v.items.extend([args[2]] * (n - len(v.items)))
    return UNIT


@model("Vec::split_off")
def _split_off(m, args, raw):
    v = deref(args[0])
    k = args[1]
    if k > len(v.items):
        raise interp.RustPanic("split_off out of bounds")
    tail = v.items[k:]
    del v.items[k:]
    return VecObj(tail)


@model("mem::swap")
def _swap(m, args, raw):
    a, b = args[0], args[1]
    x, y = a.load(), b.load()
    a.store(y); b.store(x)
    return UNIT


@model("num::is_ascii_whitespace", "u8::is_ascii_whitespace")
def _is_ws(m, args, raw):
    c = deref(args[0])
    if isinstance(c, int):
        return c in (0x20, 0x09, 0x0A, 0x0C, 0x0D)
    return z3.Or([c == v for v in (0x20, 0x09, 0x0A, 0x0C, 0x0D)])


@model("String::from_utf8_lossy", "Cow::into_owned", "^<String as Into(<.*>)?>::into$", "^<Vec<u8> as Into(<.*>)?>::into$",
       "<OsStr as OsStrExt>::from_bytes", "OsStrExt::from_bytes", "OsStr::to_os_string")
def _bytes_identity(m, args, raw):
    """global (inherited by the modules that import this one): the lossy conversion as the identity - right for the ASCII / valid UTF-8 text those modules
    feed it; this module's own Machine overrides String::from_utf8_lossy with std's contract (READER_NATIVES)"""
    v = deref(args[0])
    if isinstance(v, SliceRef):
        return Struct("Bytes", [list(v.items[v.start:v.end])])
    return v


def _bytes_raw(m, args):
    """conversions that keep the bytes as they are (std's contract for the unix OsStr / OsString extension traits)"""
    v = deref(args[0])
    if isinstance(v, SliceRef):
        return Struct("Bytes", [list(v.items[v.start:v.end])])
    if isinstance(v, VecObj):
        return Struct("Bytes", [list(v.items)])
    return v


def _bytes_of(v):
    v = deref(v)
    if isinstance(v, Struct) and v.ty == "Bytes":
        return v.fields[0]
    if isinstance(v, SliceRef):
        return list(v.items[v.start:v.end])
    if isinstance(v, VecObj):
        return list(v.items)
    raise Unsupported("bytes of %r" % (v,))


# a String built by a reader is carried as its bytes; these are natives of this module's Machine only (other modules import this one and must not inherit them)
def _string_push_str(m, args):
    deref(args[0]).fields[0].extend(_bytes_of(args[1]))
    return UNIT




def _from_utf8_lossy(m, args):
    """std's contract: valid UTF-8 is kept, every maximal invalid sequence becomes U+FFFD (EF BF BD).  A byte below 0x80 stays as it is whatever its
    neighbours are, so it is not pinned; a byte >= 0x80 is pinned (the path forks over the alphabet's non-ASCII members) and decoded with its neighbours."""
    v = deref(args[0])
    items = list(v.items[v.start:v.end]) if isinstance(v, SliceRef) else list(v.items)
    conc = []
    for b in items:
        if isinstance(b, int):
            conc.append(b)
        elif m.decide(interp._z(b) < 0x80):
            conc.append(b)                       # some ASCII byte: unchanged by the conversion
        else:
            hi = sorted(a for a in getattr(m, "alphabet", []) if a >= 0x80)
            val = m.decide_int(interp._z(b), hi)
            if val is None:
                raise Unsupported("from_utf8_lossy on a byte outside the alphabet")
            conc.append(val)
    out, i = [], 0
    while i < len(conc):
        b = conc[i]
        if not isinstance(b, int) or b < 0x80:
            out.append(b); i += 1
            continue
        need = 1 if 0xC2 <= b <= 0xDF else 2 if 0xE0 <= b <= 0xEF else 3 if 0xF0 <= b <= 0xF4 else 0
        tail = conc[i + 1:i + 1 + need]
        if need and len(tail) == need and all(isinstance(t, int) and 0x80 <= t <= 0xBF for t in tail):
            try:
                bytes([b] + tail).decode("utf-8")
                out.extend([b] + tail); i += 1 + need
                continue
            except UnicodeDecodeError:
                pass
        # invalid: Rust replaces the maximal invalid prefix; for the alphabets used here (lone continuation bytes, a lead byte without its tail) that is one byte
        out.extend([0xEF, 0xBF, 0xBD]); i += 1
    return Struct("Bytes", [out])


STRING_NATIVES = {
    "String::new": lambda m, a: Struct("Bytes", [[]]), "String::push_str": _string_push_str,
    "String::is_empty": lambda m, a: len(_bytes_of(a[0])) == 0, "str::is_empty": lambda m, a: len(_bytes_of(a[0])) == 0,
    "String::len": lambda m, a: len(_bytes_of(a[0])), "str::len": lambda m, a: len(_bytes_of(a[0])),
    "<Cow as Deref>::deref": lambda m, a: deref(a[0]), "<String as Deref>::deref": lambda m, a: deref(a[0]), "String::as_str": lambda m, a: deref(a[0]),
    "<Cow as AsRef>::as_ref": lambda m, a: deref(a[0]),
    "String::from_utf8_lossy": _from_utf8_lossy,
    "slice::to_vec": _bytes_raw, "<[u8] as ToOwned>::to_owned": _bytes_raw, "<OsString as OsStringExt>::from_vec": _bytes_raw, "OsStringExt::from_vec": _bytes_raw,
    "<OsStr as OsStrExt>::from_bytes": _bytes_raw, "OsStrExt::from_bytes": _bytes_raw, "<OsStr as ToOwned>::to_owned": _bytes_raw, "OsStr::to_os_string": _bytes_raw,
}


@model("Error::new", "Error::kind")
def _io_error(m, args, raw):
    return Opaque("io::Error")


@model("<char as From>::from", "^<char as From(<.*>)?>::from$")
def _char_from_u8(m, args, raw):
    return args[0]          # chars are carried as their scalar value


@model("char::is_whitespace", "methods::is_whitespace")
def _char_is_whitespace(m, args, raw):
    c = deref(args[0])
    ws = (0x09, 0x0A, 0x0B, 0x0C, 0x0D, 0x20, 0x85, 0xA0)
    if isinstance(c, int):
        return c in ws
    return z3.Or([c == v for v in ws])


def _dec_eq(m, x, y):
    if isinstance(x, int) and isinstance(y, int):
        return x == y
    return m.decide(interp._z(x) == interp._z(y))


def _dec_ws(m, c):
    if isinstance(c, int):
        return c in (0x20, 0x09, 0x0A, 0x0C, 0x0D)
    return m.decide(z3.Or([c == v for v in (0x20, 0x09, 0x0A, 0x0C, 0x0D)]))


@model("slice::strip_suffix", "slice::strip_prefix")
def _strip_fix(m, args, raw):
    items, a, b = as_list(args[0])
    pi, pa, pb = as_list(args[1])
    n = pb - pa
    if n > b - a:
        return NONE()
    if "suffix" in raw:
        ok = all(_dec_eq(m, items[b - n + k], pi[pa + k]) for k in range(n))
        return Some(SliceRef(items, a, b - n)) if ok else NONE()
    ok = all(_dec_eq(m, items[a + k], pi[pa + k]) for k in range(n))
    return Some(SliceRef(items, a + n, b)) if ok else NONE()


@model("ascii::trim_ascii", "ascii::trim_ascii_end", "ascii::trim_ascii_start")
def _trim_ascii(m, args, raw):
    items, a, b = as_list(args[0])
    if not raw.endswith("trim_ascii_end"):
        while a < b and _dec_ws(m, items[a]):
            a += 1
    if not raw.endswith("trim_ascii_start"):
        while b > a and _dec_ws(m, items[b - 1]):
            b -= 1
    return SliceRef(items, a, b)


@model("Option::unwrap_or")
def _unwrap_or(m, args, raw):
    return args[0].fields[0] if args[0].variant in ("Some", "Ok") else args[1]


# ----------------------------------------------------------------------------------------------- reference
def ref_ws(data):
    toks, cur, quote, slash, sawq = [], [], 0, False, False
    amb = False
    for c in data:
        if quote:
            if c == quote: quote = 0
            else: cur.append(c)
        elif slash:
            cur.append(c); slash = False
        elif c in (0x27, 0x22):
            quote = c; sawq = True
        elif c == 0x5C:
            slash = True
        elif c in (0x20, 0x0A, 0x09):              # <blank> (space, tab) and newline - not the other members of isspace()
            if cur:
                toks.append((cur, c == 0x0A)); cur = []; sawq = False
            elif sawq:
                amb = True
        else:
            cur.append(c)
    err = bool(quote)
    if not err:
        if cur: toks.append((cur, False))
        elif sawq: amb = True
    return toks, err, amb


def ref_bytes(data, delim):
    toks, cur = [], []
    for c in data:
        if c == delim:
            if cur: toks.append((cur, True))
            cur = []
        else:
            cur.append(c)
    if cur: toks.append((cur, True))
    return toks


# ----------------------------------------------------------------------------------------------- exploration
def explore(kind, n, alphabet, funcs, index, enums):
    res = {"kind": kind, "bytes": n, "alphabet": alphabet, "paths": 0, "inputs_covered": 0, "violations": [], "unsupported": {}, "samples": [], "chunkings": set()}
    data = [z3.Int("b%d" % i) for i in range(n)]
    delim = z3.Int("delim")
    state = {}

    def read(m, args):
        """one read() result: a symbolic number of bytes between 1 and what is left (0 only at end of input)"""
        buf = args[1]
        left = n - state["pos"]
        if left == 0:
            return Ok(0)
        k = left
        for cand in range(1, left):
            if m.decide(state["chunkvars"][len(state["chunks"])] == cand):
                k = cand
                break
        for j in range(k):
            buf.items[buf.start + j] = data[state["pos"] + j]
        state["pos"] += k
        state["chunks"].append(k)
        return Ok(k)

    def read_until(m, args):
        """BufRead::read_until on the remaining input: append up to and including the delimiter; return the count"""
        d, out = args[1], deref(args[2])
        cnt = 0
        while state["pos"] < n:
            b = data[state["pos"]]
            state["pos"] += 1
            out.items.append(b)
            cnt += 1
            hit = (b == d) if isinstance(d, int) else m.decide(b == d)
            if hit:
                break
        return Ok(cnt)

    def fill_buf(m, args):
        """BufRead::fill_buf: what is left of the current chunk; when it is used up, the next read() result (a symbolic number of bytes)"""
        if state["buf"][0] == state["buf"][1]:
            left = n - state["pos"]
            k = left
            for cand in range(1, left):
                if m.decide(state["chunkvars"][len(state["chunks"])] == cand):
                    k = cand
                    break
            state["buf"] = [state["pos"], state["pos"] + k]
            state["pos"] += k
            if k:
                state["chunks"].append(k)
        return Ok(SliceRef(data, state["buf"][0], state["buf"][1]))

    def consume(m, args):
        k = args[1]
        if not isinstance(k, int) or state["buf"][0] + k > state["buf"][1]:
            raise Unsupported("consume(%r) beyond the buffer" % (k,))
        state["buf"][0] += k
        return UNIT

    natives = {"<R as Read>::read": read, "<BufReader as BufRead>::read_until": read_until, "<BufReader as BufRead>::fill_buf": fill_buf, "<BufReader as BufRead>::consume": consume}
    natives.update(STRING_NATIVES)
    m = Machine(funcs, index, enums, models, natives=natives, max_steps=2000000)
    m.alphabet = alphabet
    m.base_constraints = [z3.Or([b == a for a in alphabet]) for b in data] + ([z3.Or([delim == a for a in alphabet])] if kind == "bytes" else [])
    m.pending = [[]]
    t0 = time.time()
    while m.pending:
        m.reset_path(m.pending.pop())
        state.update(pos=0, chunks=[], chunkvars=[z3.Int("chunk%d" % i) for i in range(n + 1)], buf=[0, 0])
        if kind == "ws":
            rd = [Struct("WhitespaceDelimitedArgumentReader", [Struct("ScriptRead", []), VecObj()])]
            key = "<WhitespaceDelimitedArgumentReader as ArgumentReader>::next"
        else:
            rd = [Struct("ByteDelimitedArgumentReader", [Struct("BufReader", []), delim])]
            key = "<ByteDelimitedArgumentReader as ArgumentReader>::next"
        got, err = [], False
        try:
            for _ in range(n + 2):
                r = m.call(key, [Ptr(rd, 0)])
                if r.variant == "Err":
                    err = True
                    break
                o = r.fields[0]
                if o.variant == "None":
                    break
                a = o.fields[0]
                got.append((a.fields[0].fields[0], a.fields[1].variant))
            else:
                res["violations"].append({"what": "reader does not terminate"})
        except RustPanic as e:
            res["violations"].append({"what": "panic: " + str(e)[:100], "chunks": list(state["chunks"])})
            res["paths"] += 1
            continue
        except Unsupported as e:
            res["unsupported"][str(e)[:100]] = res["unsupported"].get(str(e)[:100], 0) + 1
            continue
        except PathAbort:
            continue
        res["paths"] += 1
        res["chunkings"].add(tuple(state["chunks"]))
        # all inputs of this path
        s = z3.Solver()
        for c in m.base_constraints + m.pc: s.add(c)
        vars_ = data + ([delim] if kind == "bytes" else [])
        while s.check() == z3.sat:
            mod = s.model()
            vals = [mod.eval(v, model_completion=True).as_long() for v in vars_]
            s.add(z3.Or([v != x for v, x in zip(vars_, vals)]))
            res["inputs_covered"] += 1
            dv = vals[:n]
            conc = lambda e: e if isinstance(e, int) else mod.eval(e, model_completion=True).as_long()
            got_c = [([conc(b) for b in bs], k == "HardTerminated") for bs, k in got]
            if kind == "ws":
                want, werr, amb = ref_ws(dv)
                if amb:
                    continue
                bad = None
                if err != werr:
                    bad = "error=%s, reference error=%s" % (err, werr)
                elif not err and got_c != want:
                    bad = "tokens %r, reference %r" % (got_c, want)
                elif err and got_c != want[:len(got_c)]:
                    bad = "tokens before the error %r, reference %r" % (got_c, want)
            else:
                want = ref_bytes(dv, vals[n])
                bad = None if (got_c == want and not err) else "tokens %r, reference %r (delimiter %#x)" % (got_c, want, vals[n])
            if bad:
                res["violations"].append({"what": bad, "input": dv, "chunks": list(state["chunks"]), "delimiter": vals[n] if kind == "bytes" else None})
        if len(res["samples"]) < 3 and len(got) >= 2:
            res["samples"].append({"chunks": list(state["chunks"]), "tokens": [(str(bs), k) for bs, k in got]})
    res["wall_s"] = round(time.time() - t0, 2)
    res["solver_calls"] = m.stats["solver_calls"]
    res["functions_executed"] = sorted(m.executed)
    res["chunkings"] = sorted(res["chunkings"])
    return res


if __name__ == "__main__":
    kind = sys.argv[1] if len(sys.argv) > 1 else "ws"
    n = int(sys.argv[2]) if len(sys.argv) > 2 else 2
    text = open(sys.argv[3]).read() if len(sys.argv) > 3 else None
    funcs, index, enums, secs, _ = loader.load(os.environ.get("FINDUTILS_REPO", "/repo"), text)
    alpha = ALPHA_FULL if os.environ.get("ALPHA") == "full" else ALPHA_SMALL
    r = explore(kind, n, alpha, funcs, index, enums)
    v = r.pop("violations")
    print(json.dumps({k: r[k] for k in ("kind", "bytes", "paths", "inputs_covered", "solver_calls", "wall_s", "unsupported", "chunkings")}))
    print(len(v), "violations")
    for x in v[:6]:
        print("  ", x)

