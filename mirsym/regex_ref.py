"""Reference for C17 (pure Python, no solver): which syntax each -regex / -iregex operand is read in, and whether the whole
path belongs to its language.  Used by mirsym/c17_regex.py and by the native replayer."""
import onig_model as om

TYPES = {"emacs": "emacs", "grep": "grep", "posix-basic": "posix_basic", "posix-extended": "posix_extended", "ed": "posix_basic", "sed": "posix_basic"}
RX = ["-regex", "-iregex"]


# ----------------------------------------------------------------------------------------------- reference
def reference(words, subject):
    """-> ("reject", why) | ("accept", printed)"""
    cur = "emacs"
    leaves = {}
    i = 0
    flat = []
    while i < len(words):
        w = words[i]
        if w in ("-regextype", "-regex", "-iregex"):
            if i + 1 >= len(words):
                return ("reject", "missing argument to " + w)
            op = words[i + 1]
            if w == "-regextype":
                if op not in TYPES:
                    return ("reject", "invalid regex type " + op)
                cur = TYPES[op]
                flat.append(True)
            else:
                try:
                    ast = om.parse(op, cur)
                except om.RegexError as e:
                    return ("reject", "invalid pattern %r in %s: %s" % (op, cur, e))
                flat.append(om.in_language(ast, subject, w == "-iregex"))
            i += 2
        else:
            flat.append(w)
            i += 1
    # evaluate the boolean structure (list > or > and > not > primary) over the flattened leaves
    pos = [0]

    class Rej(Exception):
        pass

    def peek():
        return flat[pos[0]] if pos[0] < len(flat) else None

    def primary():
        t = peek()
        if t is None: raise Rej("missing operand")
        pos[0] += 1
        if t is True or t is False: return lambda: t
        if t == "-false": return lambda: False
        if t == "-true": return lambda: True
        if t == "(":
            if peek() == ")": raise Rej("empty parentheses")
            e = expr()
            if peek() != ")": raise Rej("missing )")
            pos[0] += 1
            return e
        raise Rej("unexpected %s" % t)

    def notx():
        if peek() == "!":
            pos[0] += 1
            e = notx()
            return lambda: not e()
        return primary()

    def andx():
        l = [notx()]
        while peek() is not None and peek() not in ("-o", ",", ")"):
            if peek() == "-a": pos[0] += 1
            l.append(notx())
        return lambda: all(e() for e in l)

    def orx():
        l = [andx()]
        while peek() == "-o":
            pos[0] += 1
            l.append(andx())
        return lambda: any(e() for e in l)

    def expr():
        l = [orx()]
        while peek() == ",":
            pos[0] += 1
            l.append(orx())
        return lambda: [e() for e in l][-1]
    try:
        e = expr()
        if pos[0] != len(flat): raise Rej("trailing %s" % flat[pos[0]])
    except Rej as r:
        return ("reject", str(r))
    return ("accept", bool(e()))


