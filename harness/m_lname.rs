// harnesses for module m_lname (included into /repo under cfg(kani))
