// C16: -printf record directives; C11: the format parser's leaf functions never panic.
use super::*;
use crate::find::matchers::entry::verif_kani::*;
use crate::find::matchers::Follow;

pub fn printf_empty() -> Printf { Printf { format: FormatString { components: Vec::new() }, output_file: None } }
/// Constructor cut for parser harnesses.
pub fn printf_new_stub(_f: &str, _o: Option<File>) -> Result<Printf, Box<dyn Error>> { Err(From::from("stub")) }

// ------------------------------------------------------------------ C11 leaves
// @harness props=C11,C16 tier=quick cost=10
// @exec FormatStringParser::{front,advance_one}
// @sym the text after '%' or '\': one character, ASCII or any 2-byte UTF-8 sequence
// @bounds one character (1 or 2 bytes)
// @replay printf_cli
/// Consuming one character consumes the whole character: no panic, the parser ends up at the next character boundary.
#[kani::proof]
#[kani::unwind(4)]
#[kani::stub(alloc::fmt::format, fmt_stub)]
#[kani::stub(alloc::raw_vec::handle_error, he_stub)]
#[kani::stub(std::alloc::handle_alloc_error, hae_stub)]
fn c11_printf_advance_one() {
    let b: [u8; 3] = kani::any();
    let two: bool = kani::any();
    let clen = if two { kani::assume(b[0] >= 0xC2 && b[0] <= 0xDF && b[1] >= 0x80 && b[1] <= 0xBF); 2 } else { kani::assume(b[0] < 0x80); 1 };
    // optionally one more ASCII byte after it
    let more: bool = kani::any();
    kani::assume(b[clen] < 0x80);
    let len = clen + if more { 1 } else { 0 };
    let s = unsafe { std::str::from_utf8_unchecked(&b[..len]) };
    let mut p = FormatStringParser { string: s };
    let r = p.advance_one();
    assert!(r.is_ok());
    assert!(p.string.len() == len - clen);
    kani::cover!(two && more);
    kani::cover!(!two && !more);
    std::mem::forget(r);
}
#[kani::proof]
#[kani::unwind(4)]
#[kani::stub(alloc::fmt::format, fmt_stub)]
#[kani::stub(alloc::raw_vec::handle_error, he_stub)]
#[kani::stub(std::alloc::handle_alloc_error, hae_stub)]
fn c11_printf_advance_one_canary() {
    let b: [u8; 2] = kani::any();
    kani::assume(b[0] >= 0xC2 && b[0] <= 0xDF && b[1] >= 0x80 && b[1] <= 0xBF);
    let s = unsafe { std::str::from_utf8_unchecked(&b[..]) };
    let mut p = FormatStringParser { string: s };
    let r = p.advance_one();
    assert!(p.string.len() == 1); // "one character = one byte": must FAIL
    std::mem::forget(r);
}

/// A symbolic UTF-8 string of exactly N bytes with at most one 2-byte character at a symbolic position.
fn utf8_with_one_wide<const N: usize>(b: &[u8; N]) {
    let wide_at: usize = kani::any();
    kani::assume(wide_at <= N); // == N: no wide character
    let mut i = 0;
    while i < N {
        if i == wide_at && i + 1 < N { kani::assume(b[i] >= 0xC2 && b[i] <= 0xDF); }
        else if wide_at < N && i == wide_at + 1 { kani::assume(b[i] >= 0x80 && b[i] <= 0xBF); }
        else { kani::assume(b[i] < 0x80); }
        i += 1;
    }
    kani::assume(wide_at == N || wide_at + 1 < N);
}

// @harness props=C11,C16 tier=quick cost=40
// @replay printf_cli
// @exec FormatStringParser::{peek,advance_by}
// @sym 4-byte text with at most one 2-byte character at any position; count 0..5
// @bounds text of 4 bytes
/// peek/advance_by never slice inside a character: no panic for any count; Ok => exactly `count` bytes.
#[kani::proof]
#[kani::unwind(6)]
#[kani::stub(alloc::fmt::format, fmt_stub)]
#[kani::stub(alloc::raw_vec::handle_error, he_stub)]
#[kani::stub(std::alloc::handle_alloc_error, hae_stub)]
fn c11_printf_peek_advance() {
    let b: [u8; 4] = kani::any();
    utf8_with_one_wide(&b);
    let s = unsafe { std::str::from_utf8_unchecked(&b[..]) };
    let count: usize = kani::any();
    kani::assume(count <= 5);
    let mut p = FormatStringParser { string: s };
    match p.peek(count) { Ok(x) => assert!(x.len() == count), Err(e) => { assert!(count > 4 || !s.is_char_boundary(count)); std::mem::forget(e); } }
    match p.advance_by(count) { Ok(x) => { assert!(x.len() == count); } Err(e) => { std::mem::forget(e); } }
    kani::cover!(count == 3 && !s.is_char_boundary(3));
    kani::cover!(count == 4);
}
#[kani::proof]
#[kani::unwind(6)]
#[kani::stub(alloc::fmt::format, fmt_stub)]
#[kani::stub(alloc::raw_vec::handle_error, he_stub)]
#[kani::stub(std::alloc::handle_alloc_error, hae_stub)]
fn c11_printf_peek_advance_canary() {
    let b: [u8; 4] = kani::any();
    utf8_with_one_wide(&b);
    let s = unsafe { std::str::from_utf8_unchecked(&b[..]) };
    let p = FormatStringParser { string: s };
    let r = p.peek(3);
    assert!(r.is_ok()); // a wide character may straddle offset 3: must FAIL
    std::mem::forget(r);
}

fn oct(c: u8) -> bool { c >= b'0' && c <= b'7' }
// @harness props=C11,C16 tier=quick cost=60
// @exec FormatStringParser::{parse_escape_sequence,front,peek,advance_by,advance_one}
// @sym the 4 bytes after a backslash: ASCII with at most one 2-byte character at any position
// @bounds 4 bytes of text
// @replay printf_cli
/// Escapes: \a \b \f \n \r \t \v \\ \0 and \NNN (three octal digits) give their character, \c is flush, every other
/// escape is an error; never a panic, whatever follows.
#[kani::proof]
#[kani::unwind(6)]
#[kani::stub(alloc::fmt::format, fmt_stub)]
#[kani::stub(alloc::raw_vec::handle_error, he_stub)]
#[kani::stub(std::alloc::handle_alloc_error, hae_stub)]
fn c16_printf_escape() {
    let b: [u8; 4] = kani::any();
    utf8_with_one_wide(&b);
    let s = unsafe { std::str::from_utf8_unchecked(&b[..]) };
    let mut p = FormatStringParser { string: s };
    let r = p.parse_escape_sequence();
    let c = b[0];
    if c < 0x80 {
        if oct(c) && oct(b[1]) && oct(b[2]) {
            let code = ((c - b'0') as u32) * 64 + ((b[1] - b'0') as u32) * 8 + (b[2] - b'0') as u32;
            match &r { Ok(FormatComponent::Literal(l)) => { assert!(l.chars().next() == char::from_u32(code)); assert!(p.string.len() == 1); } _ => assert!(false) }
        } else {
            let want: Option<u8> = match c { b'a' => Some(7), b'b' => Some(8), b'f' => Some(12), b'n' => Some(10), b'r' => Some(13), b't' => Some(9), b'v' => Some(11), b'0' => Some(0), b'\\' => Some(b'\\'), _ => None };
            match &r {
                Ok(FormatComponent::Literal(l)) => { assert!(want.is_some() && l.len() == 1 && l.as_bytes()[0] == want.unwrap()); assert!(p.string.len() == 3); }
                Ok(FormatComponent::Flush) => assert!(c == b'c'),
                Ok(_) => assert!(false),
                Err(_) => assert!(want.is_none() && c != b'c'),
            }
        }
    } else {
        assert!(r.is_err());
    }
    kani::cover!(r.is_ok() && oct(c) && oct(b[1]) && oct(b[2]));
    kani::cover!(oct(c) && oct(b[1]) && b[2] >= 0x80);
    kani::cover!(r.is_err() && c >= 0x80);
    std::mem::forget(r);
}
#[kani::proof]
#[kani::unwind(6)]
#[kani::stub(alloc::fmt::format, fmt_stub)]
#[kani::stub(alloc::raw_vec::handle_error, he_stub)]
#[kani::stub(std::alloc::handle_alloc_error, hae_stub)]
fn c16_printf_escape_canary() {
    let b: [u8; 4] = kani::any();
    kani::assume(b[0] < 0x80 && b[1] < 0x80 && b[2] < 0x80 && b[3] < 0x80);
    let s = unsafe { std::str::from_utf8_unchecked(&b[..]) };
    let mut p = FormatStringParser { string: s };
    let r = p.parse_escape_sequence();
    if b[0] == b'e' { assert!(r.is_ok()); } // \e is not an escape here: must FAIL
    std::mem::forget(r);
}

// ------------------------------------------------------------------ C16 record directives
fn dec(mut v: u64, out: &mut [u8; 20]) -> usize {
    let mut tmp = [0u8; 20]; let mut n = 0;
    if v == 0 { out[0] = b'0'; return 1; }
    while v > 0 { tmp[n] = b'0' + (v % 10) as u8; v /= 10; n += 1; }
    let mut i = 0; while i < n { out[i] = tmp[n - 1 - i]; i += 1; }
    n
}
fn check_decimal(r: Result<Cow<'_, str>, Box<dyn Error>>, v: u64) {
    match r {
        Ok(s) => {
            let mut want = [0u8; 20];
            let n = dec(v, &mut want);
            let b = s.as_bytes();
            assert!(b.len() == n);
            let mut i = 0; while i < 6 { if i < n { assert!(b[i] == want[i]); } i += 1; }
            std::mem::forget(s);
        }
        Err(e) => { std::mem::forget(e); assert!(false); }
    }
}

macro_rules! decimal_directive {
    ($name:ident, $canary:ident, $which:expr, $unwind:expr) => {
        #[kani::proof]
        #[kani::unwind($unwind)]
        #[kani::stub(alloc::raw_vec::handle_error, he_stub)]
        #[kani::stub(std::alloc::handle_alloc_error, hae_stub)]
        #[kani::stub(std::rt::thread_cleanup, noop_stub)]
        fn $name() { run_decimal($which, false); }
        #[kani::proof]
        #[kani::unwind($unwind)]
        #[kani::stub(alloc::raw_vec::handle_error, he_stub)]
        #[kani::stub(std::alloc::handle_alloc_error, hae_stub)]
        #[kani::stub(std::rt::thread_cleanup, noop_stub)]
        fn $canary() { run_decimal($which, true); }
    };
}
fn run_decimal(which: u8, canary: bool) {
    let (m, st) = any_metadata();
    let depth: usize = kani::any();
    kani::assume(depth < 100_000);
    let entry = entry_with(m, depth, Follow::Never);
    let (d, v) = match which {
        0 => (FormatDirective::Size, st.st_size as u64),
        1 => (FormatDirective::HardlinkCount, st.st_nlink),
        2 => (FormatDirective::Inode, st.st_ino),
        3 => (FormatDirective::User { as_name: false }, st.st_uid as u64),
        4 => (FormatDirective::Group { as_name: false }, st.st_gid as u64),
        _ => (FormatDirective::Depth, depth as u64),
    };
    kani::assume(v < 100_000);
    // canary: compare against a neighbouring field (wrong on purpose)
    let expect = if canary { match which { 0 => st.st_nlink, 1 => st.st_ino, 2 => st.st_nlink, 3 => st.st_gid as u64, 4 => st.st_uid as u64, _ => st.st_size as u64 } } else { v };
    kani::assume(expect < 100_000);
    check_decimal(format_directive(&entry, &d), expect);
    kani::cover!(v == 99_999);
    kani::cover!(v == 0);
    std::mem::forget(entry);
}
// @harness props=C16 tier=quick cost=60 flags=nomem
// @exec format_directive(%s), u64::to_string (real integer formatting)
// @sym status record; size below 100000 (keeps the decimal oracle loop short)
// @bounds value < 10^5; cached record (which record is cached: c13_entry_metadata_record)
// %s renders the size in decimal
decimal_directive!(c16_directive_s, c16_directive_s_canary, 0, 8);
// @harness props=C16 tier=quick cost=60 flags=nomem
// @exec format_directive(%n)
// @sym status record; link count below 100000
// @bounds value < 10^5
decimal_directive!(c16_directive_n, c16_directive_n_canary, 1, 8);
// @harness props=C16 tier=quick cost=60 flags=nomem
// @exec format_directive(%i)
// @sym status record; inode below 100000
// @bounds value < 10^5
decimal_directive!(c16_directive_i, c16_directive_i_canary, 2, 8);
// @harness props=C16 tier=quick cost=60 flags=nomem
// @exec format_directive(%U)
// @sym status record; uid below 100000
// @bounds value < 10^5
decimal_directive!(c16_directive_uid, c16_directive_uid_canary, 3, 8);
// @harness props=C16 tier=quick cost=60 flags=nomem
// @exec format_directive(%G)
// @sym status record; gid below 100000
// @bounds value < 10^5
decimal_directive!(c16_directive_gid, c16_directive_gid_canary, 4, 8);
// @harness props=C16 tier=quick cost=60 flags=nomem
// @exec format_directive(%d), usize::to_string
// @sym depth below 100000
// @bounds value < 10^5
decimal_directive!(c16_directive_d, c16_directive_d_canary, 5, 8);

// @harness props=C16 tier=quick cost=120 flags=nomem
// @exec format_directive(%m) with the real format!("{:>03o}")
// @sym status record (all mode bits)
// @bounds none beyond the type
// @replay printf_m
/// %m prints all twelve permission bits in octal (at least three digits).
#[kani::proof]
#[kani::unwind(8)]
#[kani::stub(alloc::raw_vec::handle_error, he_stub)]
#[kani::stub(std::alloc::handle_alloc_error, hae_stub)]
#[kani::stub(std::rt::thread_cleanup, noop_stub)]
fn c16_directive_m() {
    let (m, st) = any_metadata();
    let entry = entry_with(m, 1, Follow::Never);
    let r = format_directive(&entry, &FormatDirective::Permissions(PermissionsFormat::Octal));
    match r {
        Ok(s) => {
            let b = s.as_bytes();
            assert!(b.len() >= 3 && b.len() <= 4);
            let mut v = 0u32; let mut i = 0;
            while i < 6 { if i < b.len() { assert!(b[i] >= b'0' && b[i] <= b'7'); v = v * 8 + (b[i] - b'0') as u32; } i += 1; }
            assert!(v == (st.st_mode & 0o7777));
            kani::cover!(b.len() == 4);
            kani::cover!(v == 0);
            std::mem::forget(s);
        }
        Err(e) => { std::mem::forget(e); assert!(false); }
    }
    std::mem::forget(entry);
}
// %y / %Y: the Kani harnesses that used to stand here (c16_directive_y, c16_directive_big_y) exhaust 24 GiB; the property
// is decided by the MIR-level check mirsym/c16_types.py instead (same symbolic stat world, plus walkdir entries and depth 1).
