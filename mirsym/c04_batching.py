#!/usr/bin/env python3
"""C04 (and C19's outcome sequences): MIR-level symbolic execution of xargs' batching with the REAL limiters.

CommandBuilderOptions::new, CommandBuilder::{new,add_arg}, LimiterCollection::{try_arg,clone}, LimiterCursor::try_next, the
three limiters' try_arg/dyn_clone, count_osstr_chars_for_exec, CommandResult::combine and process_input are executed from
their MIR.  Argument lengths, the limits, the line structure and the children's outcomes are symbolic (z3 Int / Bool); only
CommandBuilder::execute (spawning a process) is a recorder.  Per path the property's clauses are discharged by z3 under the
path condition.
"""
import itertools, json, os, sys, time, z3
import loader, models, interp
from interp import Machine, Ptr, Struct, Enum, Opaque, BoxObj, VecObj, Tuple, Unsupported, RustPanic, PathAbort
from models import OsVal, Some, NONE, Ok, Err, deref, as_list

MAXLEN = 40


SYS_BUDGET = 1000000


def explore(nargs, cfg, funcs, index, enums, order=None, sys_as_s=False):
    """cfg: dict(n=bool, L=bool, s=bool, x=bool, r=bool); order: the limiter chain as do_xargs installs it (c06_wiring reads it off the MIR),
    e.g. ('n', 's', 'sys'); default: n, L, s.  sys_as_s (C06): the system limiter carries the symbolic budget -s stands for in the reference
    (cfg["s"] must be set, the chain has no user -s limiter): every invocation stays within the SYSTEM budget.  Returns result dict."""
    if order is None:
        order = tuple(k for k in ("n", "L", "s") if cfg[k])
    res = {"config": cfg, "args": nargs, "chain": list(order), "paths": 0, "violations": [], "panics": [], "unsupported": {}, "obligations": 0, "samples": []}
    lens = [z3.Int("len%d" % i) for i in range(nargs)]
    hard = [z3.Bool("hard%d" % i) for i in range(nargs)]
    outc = [z3.Int("out%d" % i) for i in range(nargs + 1)]          # 0 success, 1 failure(1..125), 2 exit 255
    cmdlen = z3.Int("cmdlen")
    n_lim, l_lim, s_lim = z3.Int("max_args"), z3.Int("max_lines"), z3.Int("max_chars")
    base = [z3.And(l >= 1, l <= MAXLEN) for l in lens] + [z3.And(o >= 0, o <= 2) for o in outc] + [
        cmdlen >= 1, cmdlen <= 8, n_lim >= 1, n_lim <= 4, l_lim >= 1, l_lim <= 4, s_lim >= 0, s_lim <= 4 * MAXLEN + 20]

    state = {}

    def reader_next(m, args):
        i = state["read"]
        if i >= nargs:
            return Ok(NONE())
        state["read"] = i + 1
        # kind: the path must know whether the argument ends a line
        h = m.decide(hard[i])
        state["hardv"][i] = h
        kind = Enum("ArgumentKind", "HardTerminated" if h else "SoftTerminated", [])
        return Ok(Some(Struct("Argument", [OsVal(i, lens[i]), kind])))

    def execute(m, args):
        b = args[0]
        ids = [a.ident for a in b.fields[1].items]
        k = len(state["batches"])
        state["batches"].append(ids)
        o = m.decide_int(outc[k], [0, 1]) if k < len(outc) else 0
        state["outcomes"].append(2 if o is None else o)
        if o == 0:
            return Ok(Enum("CommandResult", "Success", []))
        if o == 1:
            return Ok(Enum("CommandResult", "Failure", []))
        return Err(Enum("CommandExecutionError", "UrgentlyFailed", []))

    # the number of characters of an argument is symbolic too: 1 <= chars <= bytes (multi-byte text); code that counts characters where the
    # property speaks of bytes then breaks the -s obligation
    nchars = {i: z3.Int("chars%d" % i) for i in range(nargs)}
    nchars["cmd"] = z3.Int("chars_cmd")
    base += [z3.And(nchars[i] >= 1, nchars[i] <= lens[i]) for i in range(nargs)] + [nchars["cmd"] >= 1, nchars["cmd"] <= cmdlen]

    def osval_of(v):
        v = models.deref(v)
        for _ in range(6):
            if isinstance(v, BoxObj): v = v.cell[0]
            elif isinstance(v, Ptr): v = v.load()
            elif isinstance(v, Struct) and v.ty in ("LossyV", "CharsV"): v = v.fields[0]
            else: break
        return v
    # By default the REAL CommandBuilder::execute runs (from MIR) and std::process::Command is the recorder: the argv an invocation is started with
    # and the child's wait status are what the property speaks about, whatever execute's own signature and return type are (a refactoring
    # of that interface must neither blind the check nor raise an alarm). C04_EXECUTE_RECORDER=1 selects the older recorder at execute itself.
    def cmd_new(m, args):
        return Struct("Cmd", [[osval_of(args[0])]])

    def cmd_args(m, args):
        items, a, b = as_list(args[1])
        deref(args[0]).fields[0].extend(osval_of(x) for x in items[a:b])
        return args[0]

    def cmd_status(m, args):
        argv = deref(args[0]).fields[0]
        if not isinstance(argv[0], OsVal) or argv[0].ident != "cmd":
            raise Unsupported("Command::new with %r" % (argv[0],))
        state["batches"].append([a.ident for a in argv[1:]])
        k = len(state["batches"]) - 1
        o = m.decide_int(outc[k], [0, 1]) if k < len(outc) else 0
        o = 2 if o is None else o
        state["outcomes"].append(o)
        return Ok(Struct("ExitStatusV", [o]))

    real = {"Command::new": cmd_new, "Command::args": cmd_args, "Command::env_clear": lambda m, a: a[0], "Command::envs": lambda m, a: a[0],
            "Command::stdin": lambda m, a: a[0], "Command::status": cmd_status, "ExitStatus::success": lambda m, a: deref(a[0]).fields[0] == 0,
            "ExitStatus::code": lambda m, a: Some({0: 0, 1: 7, 2: 255}[deref(a[0]).fields[0]])}
    natives = {"<IdReader as ArgumentReader>::next": reader_next,
               "OsStr::to_string_lossy": lambda m, a: Struct("LossyV", [osval_of(a[0])]), "<Cow as Deref>::deref": lambda m, a: a[0],
               "str::chars": lambda m, a: Struct("CharsV", [osval_of(a[0])]), "<Chars as Iterator>::count": lambda m, a: nchars[osval_of(a[0]).ident],
               "str::len": lambda m, a: osval_of(a[0]).length}
    if os.environ.get("C04_EXECUTE_RECORDER") == "1":
        natives["CommandBuilder::execute"] = execute
    else:
        natives.update(real)
    m = Machine(funcs, index, enums, models, natives=natives)
    m.base_constraints = base
    m.pending = [[]]
    t0 = time.time()
    while m.pending:
        prefix = m.pending.pop()
        m.reset_path(prefix)
        state.update(read=0, batches=[], outcomes=[], hardv={})
        limiters = VecObj()
        for k in order:
            limiters.items.append(BoxObj({"n": lambda: Struct("MaxArgsCommandSizeLimiter", [0, n_lim]), "L": lambda: Struct("MaxLinesCommandSizeLimiter", [1, l_lim]),
                                          "s": lambda: Struct("MaxCharsCommandSizeLimiter", [0, s_lim]),
                                          "sys": lambda: Struct("MaxCharsCommandSizeLimiter", [0, s_lim if sys_as_s else SYS_BUDGET])}[k]()))
        coll = Struct("LimiterCollection", [limiters])
        action = Enum("ExecAction", "Command", [VecObj([OsVal("cmd", cmdlen)])])
        outcome = None
        try:
            r = m.call("CommandBuilderOptions::new", [action, Opaque("env"), coll, NONE()])
            if r.variant == "Err":
                outcome = {"kind": "base_too_large"}
            else:
                bo = [r.fields[0]]
                opts = [Struct("InputProcessOptions", [cfg["x"], Some(n_lim) if cfg["n"] else NONE(), Some(l_lim) if cfg["L"] else NONE(), cfg["r"]])]
                rr = m.call("process_input", [Ptr(bo, 0), BoxObj(Struct("IdReader", [])), Ptr(opts, 0)])
                if rr.variant == "Ok" and rr.fields[0].variant in ("Success", "Failure"):
                    outcome = {"kind": "ok", "result": rr.fields[0].variant}
                elif rr.variant == "Ok":
                    # a result that is neither Success nor Failure: the run was cut short by a child's fate, however the interface encodes that
                    outcome = {"kind": "err", "error": "CommandExecution", "encoded_as": rr.fields[0].variant}
                else:
                    e = rr.fields[0]
                    outcome = {"kind": "err", "error": e.variant if isinstance(e, Enum) else str(e)}
        except RustPanic as e:
            res["panics"].append({"panic": str(e)[:120], "batches": list(state["batches"])})
            res["paths"] += 1
            continue
        except Unsupported as e:
            res["unsupported"][str(e)[:100]] = res["unsupported"].get(str(e)[:100], 0) + 1
            continue
        except PathAbort:
            continue
        res["paths"] += 1
        check_path(m, res, cfg, nargs, outcome, state, lens, hard, outc, cmdlen, n_lim, l_lim, s_lim)
        if len(res["samples"]) < 4 and outcome.get("kind") == "ok" and len(state["batches"]) >= 2:
            mod = model_of(m)
            res["samples"].append({"batches": state["batches"], "outcomes": state["outcomes"], "result": outcome,
                                   "example": {str(d): str(mod[d]) for d in mod.decls()}})
    res["wall_s"] = round(time.time() - t0, 2)
    res["solver_calls"] = m.stats["solver_calls"]
    res["functions_executed"] = sorted(m.executed)
    return res


def model_of(m):
    s = z3.Solver()
    for c in m.base_constraints + m.pc:
        s.add(c)
    s.check()
    return s.model()


def prove(m, res, what, claim, state, outcome):
    """claim must hold for every input of the path: pc /\\ not claim unsat"""
    res["obligations"] += 1
    s = z3.Solver()
    for c in m.base_constraints + m.pc:
        s.add(c)
    s.add(z3.Not(claim))
    m.stats["solver_calls"] += 1
    if s.check() == z3.sat:
        mod = s.model()
        res["violations"].append({"what": what, "batches": state["batches"], "outcomes": state["outcomes"], "outcome": outcome,
                                  "witness": {str(d): str(mod[d]) for d in mod.decls()}})


def check_path(m, res, cfg, nargs, outcome, state, lens, hard, outc, cmdlen, n_lim, l_lim, s_lim):
    batches, outs, hv = state["batches"], state["outcomes"], state["hardv"]
    T, F = z3.BoolVal(True), z3.BoolVal(False)

    def cost(ids):
        return (cmdlen + 1) + sum((lens[i] + 1 for i in ids), z3.IntVal(0))

    def lines(ids):
        """input lines a batch draws from: hard terminations before its last argument + 1"""
        return 1 + sum(1 for i in ids[:-1] if hv.get(i))

    def fits(ids):
        """the property's limits for a batch that would contain exactly these appended arguments"""
        c = []
        if cfg["n"]:
            c.append(z3.IntVal(len(ids)) <= n_lim)
        if cfg["L"]:
            c.append(z3.IntVal(lines(ids)) <= l_lim)
        if cfg["s"]:
            c.append(cost(ids) <= s_lim)
        return z3.And(c) if c else T

    if outcome["kind"] == "base_too_large":
        prove(m, res, "command alone rejected although it fits", z3.Not(fits([])), state, outcome)
        return
    fatal = [k for k, o in enumerate(outs) if o == 2]
    flat = [i for b in batches for i in b]
    if outcome["kind"] == "ok":
        # lossless / order preserving
        if flat != list(range(nargs)):
            res["violations"].append({"what": "arguments lost, duplicated or reordered", "batches": batches, "outcome": outcome})
        if nargs == 0:
            want = 0 if cfg["r"] else 1
            if len(batches) != want:
                res["violations"].append({"what": "empty input: %d invocations, expected %d" % (len(batches), want), "batches": batches})
        else:
            if any(len(b) == 0 for b in batches):
                res["violations"].append({"what": "invocation without appended arguments", "batches": batches})
        want_res = "Failure" if any(o == 1 for o in outs) else "Success"
        if outcome["result"] != want_res or fatal:
            res["violations"].append({"what": "result %s with outcomes %s" % (outcome["result"], outs), "batches": batches})
    elif outcome["error"] == "CommandExecution":
        if not fatal or fatal[0] != len(outs) - 1:
            res["violations"].append({"what": "stopped with a command error but outcomes are %s" % outs, "batches": batches})
        if flat != list(range(len(flat))):
            res["violations"].append({"what": "arguments reordered before the fatal invocation", "batches": batches})
    elif outcome["error"] == "ArgumentTooLarge":
        nxt = len(flat) + (0 if not batches or outs and len(outs) == len(batches) and False else 0)
        # the argument that could not be placed is the first one not delivered (after the pending batch, if any was flushed)
        # find it: it is state["read"]-1 (the last one read)
        j = state["read"] - 1
        alone_fits = fits([j])
        if cfg["x"] and (cfg["n"] or cfg["L"]) and cfg["s"]:
            # with -x an -s overflow is fatal even if the argument would fit alone; otherwise it must not fit alone
            pending = [i for i in range(j) if i not in flat]
            over_s = cost(pending + [j]) > s_lim
            # ... but only an overflow of -s in an invocation that -n / -L still allow: when the count limit is what holds the argument back, the pending
            # invocation is complete and has to run (the argument then starts the next one) - nothing may be lost to a merely hypothetical -s overflow
            counts = []
            if cfg["n"]: counts.append(z3.IntVal(len(pending) + 1) <= n_lim)
            if cfg["L"]: counts.append(z3.IntVal(lines(pending + [j])) <= l_lim)
            prove(m, res, "'argument too large' although it fits alone and -x does not apply (no -s overflow within the -n / -L limits)",
                  z3.Or(z3.Not(alone_fits), z3.And(over_s, *counts)), state, outcome)
        else:
            prove(m, res, "'argument too large' for an argument that fits in an empty invocation", z3.Not(alone_fits), state, outcome)
        return
    else:
        res["violations"].append({"what": "unexpected error %s" % outcome["error"], "batches": batches})
        return
    # every executed batch satisfies all limits simultaneously
    for b in batches:
        prove(m, res, "an invocation exceeds a limit", fits(b), state, outcome)
    # maximality: a batch ended only because the next argument would not fit (or the input ended / a fatal outcome)
    for k, b in enumerate(batches[:-1] if outcome["kind"] == "ok" else batches):
        nxt_ids = [i for i in range(nargs) if i not in [x for bb in batches[:k + 1] for x in bb]]
        if not nxt_ids or not b:
            continue
        nxt = nxt_ids[0]
        if k < len(batches) - 1 or outcome["kind"] != "ok":
            if k + 1 < len(batches) and batches[k + 1] and batches[k + 1][0] == nxt:
                prove(m, res, "batch closed although the next argument would still fit", z3.Not(fits(b + [nxt])), state, outcome)


CONFIGS = [
    {"n": True, "L": False, "s": False, "x": False, "r": False},
    {"n": False, "L": False, "s": True, "x": False, "r": False},
    {"n": True, "L": False, "s": True, "x": False, "r": False},
    {"n": True, "L": False, "s": True, "x": True, "r": False},
    {"n": False, "L": True, "s": True, "x": False, "r": False},
    {"n": False, "L": True, "s": True, "x": True, "r": False},
    {"n": False, "L": True, "s": False, "x": False, "r": True},
    {"n": False, "L": False, "s": False, "x": False, "r": True},
]

if __name__ == "__main__":
    nargs = int(sys.argv[1]) if len(sys.argv) > 1 else 2
    text = open(sys.argv[2]).read() if len(sys.argv) > 2 else None
    funcs, index, enums, secs, _ = loader.load(os.environ.get("FINDUTILS_REPO", "/repo"), text)
    for cfg in CONFIGS[: int(os.environ.get("NCFG", "8"))]:
        r = explore(nargs, cfg, funcs, index, enums)
        v = r["violations"]
        print(json.dumps({k: r[k] for k in ("config", "paths", "obligations", "solver_calls", "wall_s", "unsupported")}))
        print("   panics:", r["panics"][:2])
        for x in v[:5]:
            print("   VIOLATION", x)
