// harnesses for module m_printf (included into /repo under cfg(kani))
