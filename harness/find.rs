// harnesses for module find (included into /repo under cfg(kani))
