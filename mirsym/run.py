#!/usr/bin/env python3
"""Entry point used by check.py: run the MIR-level symbolic checks of one property, write a JSON summary.
usage: run.py <PROPERTY> <tier> <out.json>"""
import json, os, sys, time
sys.path.insert(0, os.path.dirname(os.path.abspath(__file__)))
import loader

PARSER_BOUNDS = {"quick": [1, 2, 3], "thorough": [1, 2, 3, 4]}
# quick also explores 4 tokens over a reduced vocabulary (one representative per kind of primary)
SMALL_VOCAB = ["-true", "-false", "-print", "-quit", "-empty", "!", "-a", "-o", ",", "(", ")"]
TINY_VOCAB = ["-true", "-print", "!", "-a", ","]
MID_VOCAB = ["-true", "-print", "!", "-a", "-o", ",", "(", ")"]
PRIMS = {"-true", "-false", "-print", "-print0", "-prune", "-quit", "-empty", "-readable"}
BATCH_BOUNDS = {"quick": [0, 1, 2, 3], "thorough": [0, 1, 2, 3, 4]}


def run_parser(tier, funcs, index, enums, res):
    import c01_parser
    res["target"] = "build_top_level_matcher + <Box<dyn Matcher> as Matcher>::matches on symbolic token sequences"
    res["vocabulary"] = c01_parser.VOCAB
    plans = [(n, c01_parser.VOCAB) for n in PARSER_BOUNDS[tier]]
    if tier == "quick":
        plans.append((4, SMALL_VOCAB))
    plans.append((5, TINY_VOCAB if tier == "quick" else MID_VOCAB))
    for n, vocab in plans:
        r = c01_parser.explore(n, funcs, index, enums, vocab=vocab)
        res["functions_executed"].update(r.pop("functions_executed"))
        for v in r.pop("violations"):
            shape = " ".join("P" if t in PRIMS else t for t in v["tokens"]) + " | " + v["what"].split("(")[0].strip()
            res["violations"].append({"key": shape, "summary": "%s: %s" % (" ".join(v["tokens"]), v["what"]), "replayer": "parser_tokens",
                                      "tokens": v["tokens"], "leaves": v["leaves"], "n": n})
        for k, c in r.pop("unsupported").items():
            res["unsupported"][k] = res["unsupported"].get(k, 0) + c
        r["bound"] = "%d tokens over %d words" % (n, len(vocab))
        r["inputs_covered"] = r.pop("sentences_checked")
        res["runs"].append(r)
    res["bounds"] = "every token sequence of length %s over the %d-word vocabulary %s%s; two symbolic leaf tests; one abstract file (a directory)" % (
        PARSER_BOUNDS[tier], len(c01_parser.VOCAB), c01_parser.VOCAB, (" and of length 4 over %s" % SMALL_VOCAB if tier == "quick" else "") + " and of length 5 over %s" % (TINY_VOCAB if tier == "quick" else MID_VOCAB))


def run_operands(tier, funcs, index, enums, res):
    import c11_operands as c11
    small = [w for w in c11.PAIR_VOCAB if w in ("-type", "-size", "-inum", "-mtime", "-maxdepth", "-regextype", "-printf", "-newermm", "-newermmx", "--newermm", "f", "q", "", "5", "+5M", "x5k", "-+5",
                                                 "99999999999999999999", "sed", "bogus", "%p\\n", "%", "-print", "!", "(", ")")]
    plans = [(1, c11.PAIR_VOCAB), (2, c11.PAIR_VOCAB), (3, small if tier == "quick" else c11.PAIR_VOCAB)]
    plans += [(1, c11.EXEC_VOCAB), (2, c11.EXEC_VOCAB), (3, c11.EXEC_VOCAB), (4, c11.EXEC_SMALL if tier == "quick" else c11.EXEC_VOCAB)]
    for n, vocab in plans:
        r = c11.explore(n, funcs, index, enums, vocab)
        res["functions_executed"].update(r.pop("functions_executed"))
        for v in r.pop("violations"):
            prim = next((t for t in v["tokens"] if t in c11.PRIMS + c11.NEWER_JUNK + ["-exec", "-execdir", "-user", "-group"]), "?")
            res["violations"].append({"key": "operand | %s | %s" % (prim, v["what"].split("(")[0].strip()), "summary": "%s: %s" % (" ".join(repr(t) for t in v["tokens"]), v["what"]),
                                      "replayer": "operand_cli", "tokens": v["tokens"], "what": v["what"]})
        for k, c in r.pop("unsupported").items():
            res["unsupported"][k] = res["unsupported"].get(k, 0) + c
        r["bound"] = "operand primaries: %d tokens over %d words" % (n, len(vocab))
        r["inputs_covered"] = r.pop("sentences_checked")
        res["runs"].append(r)
    res["target"] += ("; operand-taking primaries: build_top_level_matcher with convert_arg_to_number, convert_arg_to_comparable_value(_and_suffix), parse_str_to_newer_args, "
                      "Type/XtypeMatcher::new, SizeMatcher::new + Unit::from_str, RegexType::from_str, Printf::new + FormatString::parse (regex crate modelled by Python re on the pattern text in the MIR)")
    res["bounds"] += ("; operand primaries: every sequence of 1..2 tokens over %d words (%d primaries incl. -newerXY spellings with junk, %d operand words: valid values, near-misses, "
                      "huge numbers, doubly signed numbers, empty string; -print ! -o ( )) and of 3 tokens over %d words; -exec / -execdir with and without terminator, '{} +' with no / one / two '{}', "
                      "-user / -group with known names (a model of the passwd / group lookup: root, daemon), unknown names, numbers, 2^32, the empty string: 1..3 tokens over 16 words, 4 over 8; acceptance only" % (len(c11.PAIR_VOCAB), len(c11.PRIMS) + len(c11.NEWER_JUNK),
                                                                                                                   len(c11.OPERANDS), len(plans[2][1])))


def run_values(tier, funcs, index, enums, res):
    import c11_operands as c11
    r = c11.explore_values(funcs, index, enums)
    res["functions_executed"].update(r.pop("functions_executed"))
    for v in r.pop("violations"):
        res["violations"].append({"key": "operand value | " + v["what"].split("(")[0], "summary": v["what"], "replayer": "size_round", "what": v["what"]})
    for k, c in r.pop("unsupported").items():
        res["unsupported"][k] = res["unsupported"].get(k, 0) + c
    r["bound"] = "operand text -> (comparison, N, unit) for %d words" % len(c11.VALUE_WORDS)
    r["inputs_covered"] = r.pop("checks")
    res["runs"].append(r)
    res["target"] = "convert_arg_to_comparable_value and convert_arg_to_comparable_value_and_suffix from MIR (regex crate = Python re on the pattern text in the MIR; u64 parsing modelled)"
    res["bounds"] = "operand words %r: N / +N / -N -> EqualTo / MoreThan / LessThan with the value and, for -size, the unit suffix; everything else rejected" % c11.VALUE_WORDS


def run_newer_names(tier, funcs, index, enums, res):
    import c11_operands as c11
    r = c11.explore_newer_names(funcs, index, enums)
    res["functions_executed"].update(r.pop("functions_executed"))
    for v in r.pop("violations"):
        res["violations"].append({"key": "newer name | " + v["what"].split(" selects")[0], "summary": v["what"], "replayer": "newer_xy", "what": v["what"]})
    for k, c in r.pop("unsupported").items():
        res["unsupported"][k] = res["unsupported"].get(k, 0) + c
    r["bound"] = "-newerXY spelling -> (X, Y) for %d words" % len(c11.NEWER_WORDS)
    r["inputs_covered"] = r.pop("checks")
    res["runs"].append(r)
    res["target"] = "parse_str_to_newer_args from MIR (regex crate = Python re on the pattern text in the MIR)"
    res["bounds"] = "words %r: -newer / -anewer / -cnewer / -newerXY select (m,m) / (a,m) / (c,m) / (X,Y); near-misses select nothing" % c11.NEWER_WORDS


def run_time_kinds(tier, funcs, index, enums, res):
    import c11_operands as c11
    r = c11.explore_time_kinds(funcs, index, enums)
    res["functions_executed"].update(r.pop("functions_executed"))
    for v in r.pop("violations"):
        res["violations"].append({"key": "time kind | " + v["what"].split(" ")[0], "summary": v["what"], "replayer": "newer_xy", "what": v["what"]})
    for k, c in r.pop("unsupported").items():
        res["unsupported"][k] = res["unsupported"].get(k, 0) + c
    r["bound"] = "time primaries -> timestamp kind, %d words" % len(c11.TIME_WORDS)
    r["inputs_covered"] = r.pop("checks")
    res["runs"].append(r)
    res["target"] += ("; build_top_level_matcher on `WORD OPERAND` for the time primaries: FileTimeMatcher::new / FileAgeRangeMatcher::new from MIR (the timestamp kind is read off the matcher "
                      "the parser built), NewerOptionMatcher::new / NewerMatcher::new as recorders of the (X, Y, file) they are handed")
    res["bounds"] += "; time primaries %r: each is built on its own timestamp (a: access, c: status change, m: modification) / hands exactly the (X, Y) its name spells to the matcher" % c11.TIME_WORDS


def run_spelling(tier, funcs, index, enums, res):
    """C18 "every reported path begins with its starting point exactly as it was spelled": the path %p / -print show, for every entry of the trees of c16_printf below the starting
    points r, ./r/, -r, 'r x', under -P, -H and -L (under -H / -L the starting point is re-made as an explicit entry)"""
    import c16_printf as c16
    voc = [it for it in c16.items_vocab("quick") if it[0] == "%p"]
    r = c16.explore(1, "nested", funcs, index, enums, "quick", vocab=voc)
    res["functions_executed"].update(r.pop("functions_executed"))
    for v in r.pop("violations"):
        res["violations"].append({"key": "spelling | %%p | start %r" % (v.get("start"),), "summary": v["what"], "replayer": "printf_paths", "format": v.get("format"), "start": v.get("start"), "what": v["what"]})
    for k, c in r.pop("unsupported").items():
        res["unsupported"][k] = res["unsupported"].get(k, 0) + c
    r["bound"] = "spelling of the starting point in the reported path, -P/-H/-L"
    r["inputs_covered"] = r.pop("checks")
    res["runs"].append(r)
    res["target"] += "; WalkEntry::from_walkdir (-P/-H/-L) + Printf %p on the entries below the starting points r, ./r/, -r, 'r x' (symbolic names): the reported path starts with the starting point as spelled"
    res["bounds"] += "; spelling: starting points %r, follow mode symbolic, names symbolic over ASCII" % c16.STARTS


def run_wiring(tier, funcs, index, enums, res):
    import c06_wiring
    r = c06_wiring.explore(funcs, index, enums)
    res["functions_executed"].update(r.pop("functions_executed"))
    for v in r.pop("violations"):
        res["violations"].append({"key": "wiring | " + v["what"].split("(")[0].strip()[:60], "summary": "do_xargs with options %s: %s" % (v.get("options"), v["what"]), "replayer": "wiring_cli", "what": v["what"]})
    for k, c in r.pop("unsupported").items():
        res["unsupported"][k] = res["unsupported"].get(k, 0) + c
    r["bound"] = "do_xargs: every subset of -n -L -s -I -d -0 -x -r -a, symbolic values and positions"
    res["limiter_orders"] = {k: sorted(v) for k, v in r.pop("orders", {}).items()}
    r["inputs_covered"] = r.pop("checks")
    res["runs"].append(r)
    t = ("do_xargs from MIR with clap as a model (symbolic option presence, values, command-line positions): Options, normalize_options, LimiterCollection::{new,add}, the limiter "
         "constructors, CommandBuilderOptions::new, reader construction; process_input is a recorder")
    b = ("do_xargs wiring: every subset of {-n, -L, -s, -I, -d, -0, -x, -r, -a} with a command given; -n/-L 1..9, -s 100..100000, -d 0..255, positions distinct: the system command-line "
         "limit is installed exactly once in every configuration, -s/-n/-L become limiters with exactly their values, the byte-delimited reader is selected iff -d/-0/-I, -x/-r reach process_input")
    res["target"] = (res.get("target") + "; " if res.get("target") else "") + t
    res["bounds"] = (res.get("bounds") + "; " if res.get("bounds") else "") + b


def run_batching(tier, funcs, index, enums, res, orders=None):
    import c04_batching
    res["target"] = ("CommandBuilderOptions::new + process_input with the real limiter chain, built in the order in which do_xargs installs the limiters (read off do_xargs' MIR by c06_wiring); "
                     "symbolic argument lengths, limits, line structure and child outcomes")
    for nargs in BATCH_BOUNDS[tier]:
        for cfg in c04_batching.CONFIGS:
            want = ",".join(sorted([k for k in ("n", "L", "s") if cfg[k]] + ["sys"]))
            for order in sorted((orders or {}).get(want, [None]), key=str):
              r = c04_batching.explore(nargs, cfg, funcs, index, enums, order=order)
              res["functions_executed"].update(r.pop("functions_executed"))
              for v in r.pop("violations"):
                  res["violations"].append({"key": "%s | %s" % (v["what"], json.dumps(cfg, sort_keys=True)), "summary": "%s; batches %s; config %s; witness %s" % (
                      v["what"], v.get("batches"), {k: x for k, x in cfg.items() if x}, v.get("witness")), "replayer": "batching", "config": cfg, "nargs": nargs,
                      "witness": v.get("witness"), "batches": v.get("batches"), "what": v["what"]})
              for p in r.pop("panics"):
                  res["violations"].append({"key": "panic " + p["panic"][:60], "summary": "panic: %s (batches %s)" % (p["panic"], p["batches"]), "replayer": "batching",
                                            "config": cfg, "nargs": nargs, "witness": None})
              for k, c in r.pop("unsupported").items():
                  res["unsupported"][k] = res["unsupported"].get(k, 0) + c
              r["bound"] = "%d arguments, options %s" % (nargs, "".join("-" + k for k, x in cfg.items() if x) or "(none)")
              r["inputs_covered"] = r.pop("obligations")
              res["runs"].append(r)
    res["bounds"] = ("%s input arguments; argument lengths 1..%d, command length 1..8, -n 1..4, -L 1..4, -s 0..%d (all symbolic); every line structure; every outcome "
                     "sequence over {exit 0, exit 1..125, exit 255}; option sets %s" % (BATCH_BOUNDS[tier], c04_batching.MAXLEN, 4 * c04_batching.MAXLEN + 20,
                                                                                       ["".join("-" + k for k, x in c.items() if x) or "(none)" for c in c04_batching.CONFIGS]))


def run_startpoints(tier, funcs, index, enums, res):
    import c18_startpoints
    res["target"] = "do_find + parse_args (+ the real expression parser behind it) on symbolic command lines; process_dir is a recorder with symbolic status / quit"
    plans = [(n, c18_startpoints.VOCAB) for n in ([1, 2, 3] if tier == "quick" else [1, 2, 3])]
    if tier == "thorough":
        plans.append((4, ["-H", "-L", "--", "a", "./b/", "-", "!", "(", "-print", "-quit"]))
    for n, vocab in plans:
        r = c18_startpoints.explore(n, funcs, index, enums, vocab=vocab)
        res["functions_executed"].update(r.pop("functions_executed"))
        for v in r.pop("violations"):
            res["violations"].append({"key": v["what"].split(",")[0][:60], "summary": "%s: %s" % (" ".join(v["tokens"] or []), v["what"]), "replayer": "startpoints",
                                      "tokens": v["tokens"], "what": v["what"]})
        for k, c in r.pop("unsupported").items():
            res["unsupported"][k] = res["unsupported"].get(k, 0) + c
        r["bound"] = "%d tokens over %d words" % (n, len(vocab))
        res["runs"].append(r)
    res["bounds"] = "every command line of %s tokens over the vocabulary %s; per starting point a symbolic walk status (0..2) and a symbolic quit" % (
        [n for n, _ in plans], c18_startpoints.VOCAB)


def run_walk(tier, funcs, index, enums, res, text):
    import c02_walk
    r = c02_walk.explore(funcs, index, enums, text)
    res["functions_executed"].update(r.pop("functions_executed"))
    for v in r.pop("violations"):
        res["violations"].append({"key": "walk | " + (v.get("class") if v.get("class", "other") != "other" else v["what"].split(":")[0]), "summary": v["what"], "replayer": "walk_depth",
                                  "config": v.get("config"), "what": v["what"]})
    for k, c in r.pop("unsupported").items():
        res["unsupported"][k] = res["unsupported"].get(k, 0) + c
    r["bound"] = "process_dir over the walkdir model, every (mindepth, maxdepth) in 0..4 x -depth x -P/-H/-L"
    r["inputs_covered"] = r.pop("checks")
    res["runs"].append(r)
    res["target"] = res.get("target", "").rstrip("; ") + ("; " if res.get("target") else "") + ("process_dir + WalkEntry::from_walkdir + WalkError's conversions over a port of walkdir 2.5's iterator (min/max depth, contents_first, follow_links, errors for "
                      "dangling / looping links and unreadable directories, skip_current_dir) on a 11-entry tree")
    res["bounds"] = res.get("bounds", "").rstrip("; ") + ("; " if res.get("bounds") else "") + ("walk: tree %s, -mindepth and -maxdepth 0..4 (incl. min > max), -depth on/off, -P/-H/-L; expression -print" % [(p, k) for p, _d, k in c02_walk.TREE])


def run_prune(tier, funcs, index, enums, res, text):
    import c02_walk
    res.setdefault("target", ""); res.setdefault("bounds", "")
    r = c02_walk.explore_prune(funcs, index, enums, text)
    res["functions_executed"].update(r.pop("functions_executed"))
    for v in r.pop("violations"):
        res["violations"].append({"key": "prune | " + v["what"].split(",")[0][:50], "summary": v["what"], "replayer": "prune_dirs", "config": v.get("config"), "what": v["what"]})
    for k, c in r.pop("unsupported").items():
        res["unsupported"][k] = res["unsupported"].get(k, 0) + c
    r["bound"] = "-name X -prune -o -print: every subset of 5 selectable entries x {no -depth, -depth before, -depth after}"
    r["inputs_covered"] = r.pop("checks")
    res["runs"].append(r)
    res["target"] = (res["target"] + "; " if res["target"] else "") + ("the real parser on '-name X -prune -o -print' (with -depth absent / before / after), process_dir, PruneMatcher::matches, "
                                                                      "WalkEntry::file_type + FileType::from over the port of walkdir's iterator incl. skip_current_dir")
    res["bounds"] = (res["bounds"] + "; " if res["bounds"] else "") + ("prune: X selects any subset of the 4 directories and the link-to-a-directory of the 11-entry tree (symbolic), three placements of "
                                                                      "-depth; printed entries, their order and the status are compared with the reference")


def run_delete(tier, funcs, index, enums, res, text):
    import c02_walk
    for fm, pr in ((0, False), (2, False), (0, True)):
        r = c02_walk.explore_delete(funcs, index, enums, text, fm, prune=pr)
        res["functions_executed"].update(r.pop("functions_executed"))
        for v in r.pop("violations"):
            res["violations"].append({"key": "delete | " + v["what"].split(":")[-1].strip()[:50].split("[")[0], "summary": v["what"], "replayer": "delete_decision", "config": v.get("config"), "what": v["what"]})
        for k, c in r.pop("unsupported").items():
            res["unsupported"][k] = res["unsupported"].get(k, 0) + c
        r["bound"] = r["kind"]
        r["inputs_covered"] = r.pop("checks")
        res["runs"].append(r)
    res["target"] = ("the real parser on '-name X -delete', process_dir, DeleteMatcher::{matches,delete}, WalkEntry::{file_type,path_is_symlink,metadata} + from_walkdir over the port of "
                     "walkdir's iterator and a model file system (remove_file / remove_dir with ENOTEMPTY, ENOTDIR, EISDIR)")
    res["bounds"] = ("tree: r, r/a, r/d, r/d/f, r/d/g, r/d/g/h, r/d/k (link closing a cycle), r/d/m and r/l (dangling links), r/s (link to an empty directory elsewhere), r/z; X selects "
                     "any subset of eight of them (symbolic); -P and -L; compared with the reference: the sequence of unlink/rmdir calls (post-order; a link is unlinked, also one -L "
                     "descends; a directory is removed only when nothing is left in it), what is left afterwards, -delete implies -depth, status non-zero iff a removal failed or an entry was diagnosed; "
                     "under -P also the expression '-name P -prune -o -name X -delete' with P any subset of {r/d, r/d/g} and X any subset of five entries: -delete implies -depth, under which -prune cuts "
                     "nothing - exactly the entries with X and not P are removed, in post-order")


def run_files0(tier, funcs, index, enums, res):
    import c18_files0 as f0
    small4, small5 = ["-files0-from", "F_ab", "F_hole", "(", ")", "-print"], ["-files0-from", "F_ab", "(", ")", "-print"]
    for n, vocab in [(n, f0.VOCAB) for n in ([1, 2, 3] if tier == "quick" else [1, 2, 3, 4])] + ([(4, small4)] if tier == "quick" else []) + [(5, small5)]:
        r = f0.explore(n, funcs, index, enums, vocab=vocab)
        res["functions_executed"].update(r.pop("functions_executed"))
        for v in r.pop("violations"):
            res["violations"].append({"key": "files0 | " + v["what"].split("[")[0][:50], "summary": "%s: %s" % (" ".join(v["tokens"] or []), v["what"]), "replayer": "files0_cli",
                                      "tokens": v["tokens"], "what": v["what"]})
        for k, c in r.pop("unsupported").items():
            res["unsupported"][k] = res["unsupported"].get(k, 0) + c
        r["bound"] = "-files0-from: %d tokens over %d words" % (n, len(vocab))
        res["runs"].append(r)
    res["target"] += "; -files0-from: do_find + parse_args + the expression parser + parse_files0_args with File::open / read_to_end as a model over six NUL-separated name lists and a missing file"
    res["bounds"] += ("; -files0-from: every command line of 1..%d tokens over %r%s and of 5 tokens over %r (the option inside parentheses: '( -files0-from F ) -print'); file contents %r" % (
        3 if tier == "quick" else 4, f0.VOCAB, (", of 4 tokens over %r" % small4) if tier == "quick" else "", small5, {k: v.decode() for k, v in f0.FILES.items()}))


def run_exec(prop, tier, funcs, index, enums, res):
    import c08_exec
    kinds = ["multi", "multi_dir", "multi_dir_min", "multi_quit", "multi_two", "multi_roots", "multi_roots_dir"] if prop == "C08" else ["single", "single_dir"]
    res["target"] = ("process_dir + WalkEntry::from_walkdir + %s (built by the real expression parser from '-exec[dir] cmd ... %s') over a scripted walkdir tree"
                     % (("MultiExecMatcher::{new,matches,finished_dir,finished,run_command,new_command}", "{} +") if prop == "C08"
                        else ("SingleExecMatcher::{new,matches}", ";")))
    for kind in kinds:
        r = c08_exec.explore(kind, funcs, index, enums)
        res["functions_executed"].update(r.pop("functions_executed"))
        for v in r.pop("violations"):
            res["violations"].append({"key": "%s | %s" % (kind, v["what"][:50]), "summary": "%s: %s (runs %s, depth_first=%s)" % (kind, v["what"], v.get("runs"), v.get("depth_first")),
                                      "replayer": "exec_cli", "kind": kind, "what": v["what"]})
        for k, c in r.pop("unsupported").items():
            res["unsupported"][k] = res["unsupported"].get(k, 0) + c
        r["bound"] = kind
        r["inputs_covered"] = r.pop("checks")
        res["runs"].append(r)
    res["bounds"] = ("tree %s in pre-order and (-depth) post-order; symbolic: whether each path still fits (argmax's verdict; a fresh command line always admits one path), "
                     "the outcome of every invocation (exit 0 / non-zero / cannot start), %s" % (
                         [t[0] for t in c08_exec.TREE], "-quit variant" if prop == "C08" else "two argument templates from %s" % c08_exec.TEMPLATES))


def run_readers(tier, funcs, index, enums, res, only_bytes=False):
    import c05_readers as r5
    if not only_bytes:
        res["target"] = "WhitespaceDelimitedArgumentReader::next and ByteDelimitedArgumentReader::next until end of input; symbolic input bytes, symbolic read() chunking, symbolic delimiter"
    a12 = [a for a in r5.ALPHA_FULL if a != 0xC3]        # 4 bytes: without the lead byte 0xC3 (it only matters where bytes are converted; keeps the run at its old size)
    plans = ([] if only_bytes else [("ws", n, r5.ALPHA_FULL if n < 4 else a12) for n in (1, 2, 3, 4)]) + [("bytes", n, r5.ALPHA_FULL) for n in (1, 2, 3)]
    if tier == "thorough":
        plans += [("ws", 5, r5.ALPHA_SMALL), ("bytes", 4, r5.ALPHA_SMALL), ("bytes", 5, r5.ALPHA_SMALL)]
    for kind, n, alpha in plans:
        r = r5.explore(kind, n, alpha, funcs, index, enums)
        res["functions_executed"].update(r.pop("functions_executed"))
        for v in r.pop("violations"):
            res["violations"].append({"key": "%s | %s" % (kind, v["what"].split(",")[0][:40]), "summary": "%s reader, input %s, read() sizes %s%s: %s" % (
                kind, v.get("input"), v.get("chunks"), (", delimiter %#x" % v["delimiter"]) if v.get("delimiter") is not None else "", v["what"]),
                "replayer": "reader_bytes", "kind": kind, "input": v.get("input"), "delimiter": v.get("delimiter"), "chunks": v.get("chunks"), "what": v["what"]})
        for k, c in r.pop("unsupported").items():
            res["unsupported"][k] = res["unsupported"].get(k, 0) + c
        r["bound"] = "%s reader, %d bytes over %d letters, %d chunkings" % (kind, n, len(alpha), len(r["chunkings"]))
        r.pop("chunkings")
        res["runs"].append(r)
    if only_bytes:
        res["target"] += ("; ByteDelimitedArgumentReader::next on its own until end of input, bytes beyond ASCII included (0xC3 0xA0 = one two-byte character, 0xA0 / 0x85 / 0xC3 alone not UTF-8), "
                          "every way of cutting the stream into read() / fill_buf() results; String::from_utf8_lossy is std's contract (invalid -> U+FFFD), the OsString byte conversions keep bytes")
        res["bounds"] += "; byte reader: every input of 1..3 bytes and every delimiter over %r: split only at the delimiter, every other byte unchanged" % ["%#x" % a for a in r5.ALPHA_FULL]
        return
    res["bounds"] = ("whitespace reader: every input of 1..4 bytes over {a, blank, newline, tab, ', \", \\, 0xA0, VT, 0x85, FF, CR, 0xC3} under every way of cutting it into read() results"
                     "%s; byte reader: every input of 1..3 bytes and every delimiter over the same alphabet%s" % (
                         " and 5 bytes over {a, blank, newline, ', \\}" if tier == "thorough" else "", ", 4..5 bytes over 5 letters" if tier == "thorough" else ""))


def run_glob(tier, funcs, index, enums, res):
    import c12_glob
    res["target"] = "glob_to_regex + extract_bracket_expr + regex_push_literal on symbolic patterns; the emitted BRE is evaluated on all subjects and compared with a reference fnmatch()"
    for n in ([1, 2, 3, 4] if tier == "quick" else [1, 2, 3, 4, 5]):
        r = c12_glob.explore(n, funcs, index, enums, subj_len=3 if n <= 4 else 2)
        res["functions_executed"].update(r.pop("functions_executed"))
        for v in r.pop("violations"):
            res["violations"].append({"key": ("glob | " + v["class"]) if v.get("class", "other") != "other" else v["what"].split("(")[0][:30] + ("panic" if "panic" in v["what"] else ""),
                                      "summary": v["what"], "replayer": "glob_pattern",
                                      "pattern": v.get("pattern"), "subject": v.get("subject"), "what": v["what"]})
        for k, c in r.pop("unsupported").items():
            res["unsupported"][k] = res["unsupported"].get(k, 0) + c
        r["bound"] = "patterns of %d characters" % n
        res["runs"].append(r)
    res["bounds"] = ("every pattern of 1..%d characters over %r against every subject of 0..3 characters over %r; ranges included; patterns with '[.', '[=', '[:' (collating symbols, "
                     "classes), with a range whose start sorts after its end (undefined) and '^' are excluded; onig's validation of a bracket expression is modelled as well-formedness" % (
                         4 if tier == "quick" else 5, "".join(map(chr, c12_glob.PAT_ALPHA)), "".join(map(chr, c12_glob.SUBJ_ALPHA))))


def run_classify(tier, funcs, index, enums, res):
    """C19: CommandBuilder::execute's classification of the child's fate (shared with C20's execute exploration)"""
    import c20_replace as c20
    r = c20.explore_execute(funcs, index, enums)
    res["functions_executed"].update(r.pop("functions_executed"))
    for v in r.pop("violations"):
        res["violations"].append({"key": "execute | %s" % v["what"].split("(")[0][:60], "summary": "execute: %s" % v["what"], "replayer": "exit_code_map", "what": v["what"]})
    for k, c in r.pop("unsupported").items():
        res["unsupported"][k] = res["unsupported"].get(k, 0) + c
    r["bound"] = "CommandBuilder::execute: child fate symbolic"
    r["inputs_covered"] = r.pop("checks")
    res["runs"].append(r)
    res["target"] += "; CommandBuilder::execute: classification of every wait status / spawn failure (exit 0, 1..254, 255, killed by signal 1..64, not found, cannot run)"
    res["bounds"] += "; execute: exit code 0..255, signal 1..64, spawn error NotFound / other (all symbolic)"


def run_replace(tier, funcs, index, enums, res, text):
    import c20_replace as c20
    res["target"] = ("normalize_options (mode and delimiter selection), CommandBuilder::execute (argv assembly with -I, classification of the child's fate), and the -I pipeline "
                     "process_input + CommandBuilderOptions::new + CommandBuilder::{new,add_arg,execute} + MaxArgsCommandSizeLimiter + CommandResult::combine")
    runs = [c20.explore_normalize(funcs, index, enums, text), c20.explore_execute(funcs, index, enums)]
    runs += [c20.explore_pipeline(n, funcs, index, enums) for n in ([0, 1, 2] if tier == "quick" else [0, 1, 2, 3])]
    for r in runs:
        res["functions_executed"].update(r.pop("functions_executed"))
        for v in r.pop("violations"):
            res["violations"].append({"key": "%s | %s" % (r["kind"].split("/")[0], v["what"].split("(")[0][:60]), "summary": "%s: %s %s" % (
                r["kind"], v["what"], {k: x for k, x in v.items() if k != "what"}), "replayer": "replace_cli", "what": v["what"], "kind": r["kind"]})
        for k, c in r.pop("unsupported").items():
            res["unsupported"][k] = res["unsupported"].get(k, 0) + c
        r["bound"] = r["kind"]
        r["inputs_covered"] = r.pop("checks")
        res["runs"].append(r)
    res["bounds"] = ("normalize_options: every subset of {-n, -L, -I/-i, -d, -0} in every relative order, the replace option given as -I R, -i=R or a valueless -i "
                     "(clap's ArgMatches::indices_of modelled: indices of values, none for a valueless occurrence unless the argument declares a default_missing_value - read from "
                     "do_xargs's MIR), -n/-L values 1..5, delimiter 1..127; execute: R in %r, two initial arguments in %r, line in %r, with and without -I, child fate symbolic "
                     "(exit code 0..255, signal 1..64, cannot start); pipeline: %s lines over %r, R in %r, initial arguments %r, -r symbolic, per invocation exit 0 / 1..254 / 255" % (
                         c20.REPL, c20.INIT, c20.LINES, [0, 1, 2] if tier == "quick" else [0, 1, 2, 3], c20.PIPE_LINES, c20.REPL, c20.PIPE_INIT))


def run_print0(tier, funcs, index, enums, res):
    import c07_print0 as c7
    res["target"] = ("find: process_dir + WalkEntry::from_walkdir + the matcher built by the real parser from -print0 / -print / no expression + Printer::{matches,print} + "
                     "<PrintDelimiter as Display>::fmt over a scripted walkdir tree with symbolic names; xargs: ByteDelimitedArgumentReader::next on exactly the bytes written, "
                     "process_input, CommandBuilderOptions::new, CommandBuilder::{new,add_arg,execute} with std::process::Command as a recorder")
    shapes = list(c7.SHAPES) + (list(c7.BIG_SHAPES) if tier == "thorough" else ["deep", "wide"])
    for mode in ("print0", "print0_I", "print", "default"):
        for sh in shapes:
            r = c7.explore(sh, funcs, index, enums, mode)
            res["functions_executed"].update(r.pop("functions_executed"))
            for v in r.pop("violations"):
                res["violations"].append({"key": "%s | %s" % (mode, v["what"].split(":")[0][:40]), "summary": "%s: %s (start %r, -depth %s)" % (r["kind"], v["what"], v.get("start"), v.get("depth_first")),
                                          "replayer": "print0_pipe", "what": v["what"], "kind": r["kind"]})
            for k, c in r.pop("unsupported").items():
                res["unsupported"][k] = res["unsupported"].get(k, 0) + c
            r["bound"] = r["kind"]
            r["inputs_covered"] = r.pop("checks")
            res["runs"].append(r)
    res["bounds"] = ("starting point in %r; tree shapes %s (parent, name length) in pre-order and -depth post-order; every name byte symbolic over 1..127 without '/' "
                     "(names '.' and '..' excluded); expressions -print0, -print and none; xargs -0 without size limits (C04's) with the command 'cmd fixed', and xargs -0 -I{} with 'cmd x{}y {}' (one run per path, the path substituted unmodified). Names with bytes >= 0x80 "
                     "(multi-byte UTF-8) go through the same code under std's contract that the lossy conversions are the identity on valid UTF-8 - not checked here." % (
                         c7.STARTS, {k: c7.SHAPES_ALL[k] for k in shapes}))


def run_types(tier, funcs, index, enums, res):
    import c16_types
    r = c16_types.explore(funcs, index, enums)
    res["functions_executed"].update(r.pop("functions_executed"))
    for v in r.pop("violations"):
        res["violations"].append({"key": "types | %s | %s" % (v.get("class"), v.get("world", "").split(",")[1].strip() if "," in v.get("world", "") else ""), "summary": v["what"],
                                  "replayer": "printf_y", "what": v["what"], "world": v.get("world")})
    for k, c in r.pop("unsupported").items():
        res["unsupported"][k] = res["unsupported"].get(k, 0) + c
    r["bound"] = "%y/%Y/-type/-xtype over the symbolic stat world"
    r["inputs_covered"] = r.pop("checks")
    res["runs"].append(r)
    t = ("format_directive(%y, %Y) + WalkEntry::{new,from_walkdir,metadata,file_type,path_is_symlink,follow} + Follow::{metadata,metadata_at_depth} + FileType::from + "
         "TypeMatcher/XtypeMatcher::{new,matches} over a symbolic lstat/stat world")
    b = ("types: lstat type in 7 kinds, stat of a link = one of 6 kinds or errno ENOENT/ELOOP/EACCES, -P/-H/-L, depth 0/1, explicit and walkdir entries (walkdir's DirEntry under "
         "its contract: with follow_links a resolvable link reports its target); %Y and -xtype asserted where the follow mode does not resolve the entry")
    res["target"] = (res.get("target") + "; " if res.get("target") else "") + t
    res["bounds"] = (res.get("bounds") + "; " if res.get("bounds") else "") + b


def run_records(tier, funcs, index, enums, res, text, only=None):
    import c13_records as c13r
    quick = [("-uid", "7"), ("-gid", "+7"), ("-links", "-2"), ("-inum", "100"), ("-user", "daemon"), ("-group", "7"), ("-size", "0c"), ("-size", "+9c"), ("-empty", None), ("-samefile", "ref")]
    sentences = list(c13r.SENTENCES) if tier == "thorough" else quick
    if only:
        sentences = [s for s in sentences if s[0] in only]
    saved = c13r.SENTENCES
    c13r.SENTENCES = sentences
    try:
        r = c13r.explore(funcs, index, enums, text)
    finally:
        c13r.SENTENCES = saved
    res["functions_executed"].update(r.pop("functions_executed"))
    for v in r.pop("violations"):
        res["violations"].append({"key": "stat record | %s | %s" % (v.get("class"), ",".join(v.get("world", "").split(",")[1:]).strip()), "summary": v["what"][:600], "replayer": "stat_cli",
                                  "what": v["what"][:600], "world": v.get("world"), "sentence": v.get("sentence")})
    for k, c in r.pop("unsupported").items():
        res["unsupported"][k] = res["unsupported"].get(k, 0) + c
    r["bound"] = "stat-based tests through the parser over the symbolic lstat/stat world, %d sentences" % len(sentences)
    r["inputs_covered"] = r.pop("checks")
    res["runs"].append(r)
    t = ("build_top_level_matcher on `PRIMARY OPERAND` + UserMatcher / GroupMatcher / InodeMatcher / LinksMatcher / SizeMatcher / EmptyMatcher / SameFileMatcher::{new.., matches} + get_file_info + "
         "WalkEntry::{new,from_walkdir,metadata,file_type,follow} + Follow::{metadata,metadata_at_depth} + ComparableValue::matches over a symbolic lstat/stat world whose two records have "
         "independent symbolic uid, gid, nlink, ino, dev, size")
    b = ("stat records: sentences %r; lstat type in 7 kinds, stat of a link = one of 6 kinds or errno ENOENT/ELOOP/EACCES, -P/-H/-L, depth 0/1, explicit and walkdir entries; every field of both records "
         "a z3 Int in 0..2^32 (readdir's d_ino a further one); the verdict equals the documented function of the record the follow mode selects, for all field values (z3, per path)" % (sentences,))
    res["target"] = (res.get("target") + "; " if res.get("target") else "") + t
    res["bounds"] = (res.get("bounds") + "; " if res.get("bounds") else "") + b


def run_printf(tier, funcs, index, enums, res):
    import c16_printf as c16
    res["target"] = ("FormatString::parse (parse_format_specifier, parse_format_width, parse_escape_sequence, advance_*/peek) on format strings assembled from a vocabulary of items, "
                     "then Printf::{matches,print} + format_directive + get_starting_point on entries (built by WalkEntry::from_walkdir) of a tree with symbolic names")
    full = c16.items_vocab(tier)
    small = [it for it in full if it[0] in ("x", "é", "\\n", "\\101", "\\\\", "%%", "%p", "%f", "%h", "%H", "%P", "%d", "%5f", "%-5f", "%-12P", "%12h")]
    plans = [(1, "nested", full), (1, "flat2", full), (2, "nested", small)]
    if tier == "thorough":
        plans += [(1, "three", full), (1, "nested21", full), (2, "nested", full), (3, "nested", [it for it in small if it[0] in ("x", "\\n", "%%", "%p", "%f", "%h", "%P", "%-5f", "%12h")])]
    for n, shape, vocab in plans:
        r = c16.explore(n, shape, funcs, index, enums, tier, vocab=vocab)
        res["functions_executed"].update(r.pop("functions_executed"))
        for v in r.pop("violations"):
            key = v["class"] if v.get("class", "other") != "other" else "printf | %s | start %r" % (v.get("format"), v.get("start"))
            res["violations"].append({"key": key, "summary": v["what"], "replayer": "printf_paths", "format": v.get("format"), "start": v.get("start"), "what": v["what"], "class": v.get("class")})
        for k, c in r.pop("unsupported").items():
            res["unsupported"][k] = res["unsupported"].get(k, 0) + c
        r["bound"] = "%d format items over %d, tree %s" % (n, len(vocab), shape)
        r["inputs_covered"] = r.pop("checks")
        res["runs"].append(r)
    res["bounds"] = ("format strings of 1 item over %d items (literals incl. multi-byte, escapes \\a..\\\\ \\0 \\NNN, %%%%, directives %%p %%f %%h %%H %%P %%d each with widths %s) and of 2 items over %d%s; "
                     "starting points %r; tree shapes %s; name bytes symbolic over ASCII 1..127 without '/'; per entry the written bytes are compared with the reference rendering "
                     "(padding to the minimum width on the left, on the right with '-', never truncated)" % (
                         len(full), c16.WIDTHS if tier != "quick" else c16.WIDTHS[:6], len(small) if tier == "quick" else len(full), " and of 3 items over 9" if tier == "thorough" else "",
                         c16.STARTS, sorted({p[1] for p in plans})))


def run_regex(tier, funcs, index, enums, res):
    import c17_regex as c17
    for t in c17.TEMPLATES:
        r = c17.explore(t, funcs, index, enums, tier)
        res["functions_executed"].update(r.pop("functions_executed"))
        for v in r.pop("violations"):
            res["violations"].append({"key": "regex | " + v["class"], "summary": "find r %s, path %r: %s (compiled by onig: %s)" % (" ".join(v["tokens"]), v["subject"], v["what"], v["compiled"]),
                                      "replayer": "regex_cli", "tokens": v["tokens"], "subject": v["subject"], "what": v["what"], "class": v["class"]})
        for k, c in r.pop("unsupported").items():
            res["unsupported"][k] = res["unsupported"].get(k, 0) + c
        r["bound"] = r["kind"] + " with " + "; ".join("%s in %d words" % (k.split("@")[0], len(v)) for k, v in r.pop("slot_vocabularies").items())
        r["inputs_covered"] = r.pop("checks")
        res["runs"].append(r)
    res["target"] = ("build_top_level_matcher / build_matcher_tree (the -regextype, -regex, -iregex arms and the recursion on parentheses), RegexType::from_str, RegexMatcher::new, "
                     "<RegexMatcher as Matcher>::matches on a WalkEntry built by WalkEntry::new, evaluated through the real combinators; the onig crate is a model under its contract "
                     "(onig_model.py: the four syntaxes' operator tables from regsyntax.c, a backtracking matcher in onig's priority order, is_match = onig_match at 0 covers the text), "
                     "validated against the real binary by c17_regex.py calibrate (480 runs, no difference)")
    res["bounds"] = ("command lines from %d templates %r; T over %r, P over %r, R over -regex/-iregex (quick: templates other than %r use T over %r, P over %r); path of the entry over %r; "
                     "reference: each operand is read in the syntax named by the nearest preceding -regextype in command-line order (emacs if none) and is true iff the WHOLE path is in its "
                     "language (any way of matching, not the first in priority order), -iregex folds case, -regextype is true, an unknown type or an ill-formed pattern rejects the command line. "
                     "Outside: anchors, intervals, classes, multi-byte text, what oniguruma does beyond the modelled subset" % (
                         len(c17.TEMPLATES), list(c17.TEMPLATES), c17.TYPE_WORDS, c17.PATTERNS, list(c17.FULL_IN_QUICK), c17.QUICK_TYPES, c17.QUICK_PATTERNS, c17.SUBJECTS))


def run_perm(tier, funcs, index, enums, res):
    import c13_perm
    r = c13_perm.explore(funcs, index, enums)
    res["functions_executed"].update(r.pop("functions_executed"))
    for v in r.pop("violations"):
        res["violations"].append({"key": "perm | " + v["what"].split("'")[1] if "'" in v["what"] else "perm", "summary": v["what"], "replayer": "perm_bits", "what": v["what"]})
    for k, c in r.pop("unsupported").items():
        res["unsupported"][k] = res["unsupported"].get(k, 0) + c
    r["bound"] = "-perm operands: %d words x %d file modes" % (len(c13_perm.OPERANDS), len(c13_perm.FILE_MODES))
    r["inputs_covered"] = r.pop("checks")
    res["runs"].append(r)
    res["target"] += "; PermMatcher::new + split_comparison_type + parse_mode + ComparisonType::mode_bits_match from MIR (uucore::mode::{parse_numeric, parse_symbolic} are ports of uucore's source, given the arguments the code passes)"
    res["bounds"] += "; -perm: operands %r (well-formed and malformed), each read as chmod would apply it to 0 with umask 0 (malformed ones must be refused), then matched against the file modes %s" % (c13_perm.OPERANDS, [oct(x) for x in c13_perm.FILE_MODES])


def _guard(fn):
    """an internal error of one exploration (typically: the code under test changed an interface a model or recorder was written against) must not
    discard what the other explorations of the property found: it is recorded as an unsupported path (-> INCONCLUSIVE unless a violation is reported)"""
    def wrapped(*a, **kw):
        try:
            return fn(*a, **kw)
        except (SystemExit, KeyboardInterrupt):
            raise
        except Exception as e:
            import traceback
            res = a[4] if len(a) > 4 and isinstance(a[4], dict) else None
            if res is None:
                raise
            tb = traceback.extract_tb(e.__traceback__)[-1]
            k = "internal error in %s: %s: %s (%s:%d)" % (fn.__name__, type(e).__name__, str(e)[:80], os.path.basename(tb.filename), tb.lineno)
            res["unsupported"][k] = res["unsupported"].get(k, 0) + 1
            res.setdefault("target", ""); res.setdefault("bounds", "")
    wrapped.__name__ = fn.__name__
    return wrapped


def main():
    for _n, _f in list(globals().items()):
        if _n.startswith("run_") and callable(_f):
            globals()[_n] = _guard(_f)
    prop, tier, out = sys.argv[1], sys.argv[2], sys.argv[3]
    t0 = time.time()
    funcs, index, enums, dump_s, text = loader.load()
    res = {"engine": "mirsym: path-exploring symbolic execution of rustc MIR (cargo +nightly rustc -Zunpretty=mir) with z3 %s" % __import__("z3").get_version_string(),
           "mir_dump_s": round(dump_s, 1), "mir_lines": text.count("\n"), "runs": [], "violations": [], "unsupported": {}, "functions_executed": set()}
    if prop in ("C01", "C11"):
        run_parser(tier, funcs, index, enums, res)
        if prop == "C11":
            run_operands(tier, funcs, index, enums, res)
            run_perm(tier, funcs, index, enums, res)
    elif prop == "C06":
        run_wiring(tier, funcs, index, enums, res)
        orders = res.pop("limiter_orders", {})
        # the system limiter inside the real chain: the batching loop with the chain do_xargs installs, the system budget symbolic (standing where -s stands in C04's reference)
        import c04_batching
        for cfg in ({"n": True, "L": False, "s": True, "x": False, "r": False}, {"n": False, "L": True, "s": True, "x": False, "r": False}, {"n": False, "L": False, "s": True, "x": False, "r": False},
                    {"n": True, "L": False, "s": True, "x": True, "r": False}):
            want = ",".join(sorted([k for k in ("n", "L") if cfg[k]] + ["sys"]))
            for order in sorted(orders.get(want, []), key=str):
                for nargs in (1, 2, 3):
                    r = c04_batching.explore(nargs, cfg, funcs, index, enums, order=order, sys_as_s=True)
                    res["functions_executed"].update(r.pop("functions_executed"))
                    for v in r.pop("violations"):
                        res["violations"].append({"key": "system budget in the chain | %s" % v["what"][:60], "summary": "%s; chain %s; batches %s; witness %s" % (v["what"], list(order), v.get("batches"), v.get("witness")),
                                                  "replayer": "wiring_cli", "what": v["what"]})
                    for p in r.pop("panics"):
                        res["violations"].append({"key": "panic " + p["panic"][:60], "summary": "panic: %s" % p["panic"], "replayer": "wiring_cli", "what": p["panic"]})
                    for k, c in r.pop("unsupported").items():
                        res["unsupported"][k] = res["unsupported"].get(k, 0) + c
                    r["bound"] = "system budget in the chain %s, %d arguments" % (list(order), nargs)
                    r["inputs_covered"] = r.pop("obligations")
                    res["runs"].append(r)
        res["target"] += ("; CommandBuilderOptions::new + process_input with the limiter chain in do_xargs' order, the system limiter carrying a symbolic budget: command, initial arguments and every appended "
                          "argument (+1 each) of every invocation stay within it")
        res["bounds"] += "; system budget in the chain: 1..3 arguments of symbolic length, chains (n, sys), (L, sys), (sys), with and without -x; budget symbolic in 0..180"
    elif prop in ("C04", "C19"):
        orders = None
        if prop == "C04":
            run_wiring(tier, funcs, index, enums, res)
            orders = res.pop("limiter_orders", None)
        tb = (res.pop("target", ""), res.pop("bounds", ""))
        run_batching(tier, funcs, index, enums, res, orders)
        if prop == "C04":
            res["target"] += "; " + tb[0]; res["bounds"] += "; " + tb[1]
            # "arguments drawn from at most max-lines input lines (a line ending in a blank continues on the next line)": which arguments end an input
            # line is the reader's verdict; the batching run above takes it as a symbolic flag per argument. Here the whitespace reader decides it.
            import c05_readers as r5
            la = [0x61, 0x20, 0x0A, 0x09]
            for n in (1, 2, 3, 4):
                r = r5.explore("ws", n, la, funcs, index, enums)
                res["functions_executed"].update(r.pop("functions_executed"))
                for v in r.pop("violations"):
                    res["violations"].append({"key": "input lines | %s" % v["what"].split(",")[0][:40], "summary": "whitespace reader, input %s, read() sizes %s: %s" % (v.get("input"), v.get("chunks"), v["what"]),
                                              "replayer": "reader_lines", "kind": "ws", "input": v.get("input"), "delimiter": None, "chunks": v.get("chunks"), "what": v["what"]})
                for k, c in r.pop("unsupported").items():
                    res["unsupported"][k] = res["unsupported"].get(k, 0) + c
                r["bound"] = "ws reader (input lines), %d bytes over 4 letters" % n
                r.pop("chunkings")
                res["runs"].append(r)
            res["target"] += "; WhitespaceDelimitedArgumentReader::next until end of input: which arguments end an input line (what -L counts)"
            res["bounds"] += ("; input lines: every input of 1..4 bytes over {a, blank, newline, tab} under every read() chunking - an argument ends its line iff a newline follows it directly "
                              "(a blank before the newline continues the line; empty lines and leading newlines end nothing)")
        if prop == "C19":
            run_classify(tier, funcs, index, enums, res)
            # "its own input errors (unterminated quote) give exit status 1": whether the reader reports the error at all, on every input of 1..3 bytes
            import c05_readers as r5
            for n in (1, 2, 3):
                r = r5.explore("ws", n, r5.ALPHA_SMALL + [0x22], funcs, index, enums)
                res["functions_executed"].update(r.pop("functions_executed"))
                for v in r.pop("violations"):
                    res["violations"].append({"key": "input error | %s" % v["what"].split(",")[0][:40], "summary": "whitespace reader, input %s, read() sizes %s: %s" % (v.get("input"), v.get("chunks"), v["what"]),
                                              "replayer": "reader_bytes", "kind": "ws", "input": v.get("input"), "delimiter": None, "chunks": v.get("chunks"), "what": v["what"]})
                for k, c in r.pop("unsupported").items():
                    res["unsupported"][k] = res["unsupported"].get(k, 0) + c
                r["bound"] = "ws reader (input errors), %d bytes over 6 letters" % n
                r.pop("chunkings")
                res["runs"].append(r)
            res["target"] += "; WhitespaceDelimitedArgumentReader::next until end of input: an unterminated quote is reported as an error (which xargs_main maps to exit status 1), nothing else is"
            res["bounds"] += "; input errors: every input of 1..3 bytes over {a, blank, newline, ', \\, \"} under every read() chunking"
    elif prop in ("C18", "C02"):
        run_startpoints(tier, funcs, index, enums, res)
        if prop == "C02":
            run_walk(tier, funcs, index, enums, res, text)
        else:
            run_files0(tier, funcs, index, enums, res)
            run_spelling(tier, funcs, index, enums, res)
    elif prop == "C03":
        res["target"], res["bounds"] = "", ""
        run_walk(tier, funcs, index, enums, res, text)
        run_prune(tier, funcs, index, enums, res, text)
        import c02_walk
        r = c02_walk.explore_sorted(funcs, index, enums, text)
        res["functions_executed"].update(r.pop("functions_executed"))
        for v in r.pop("violations"):
            res["violations"].append({"key": "sorted | comparator", "summary": v["what"], "replayer": "prune_dirs", "what": v["what"]})
        for k, c in r.pop("unsupported").items():
            res["unsupported"][k] = res["unsupported"].get(k, 0) + c
        r["bound"] = "-sorted comparator on %d x %d names" % (len(c02_walk.SORT_NAMES), len(c02_walk.SORT_NAMES))
        r["inputs_covered"] = r.pop("checks")
        res["runs"].append(r)
        res["target"] += "; the comparator closure process_dir hands to WalkDir::sort_by, from MIR"
        res["bounds"] += "; -sorted: every ordered pair of the names %r is ordered byte-wise" % c02_walk.SORT_NAMES
    elif prop == "C15":
        run_newer_names(tier, funcs, index, enums, res)
        run_time_kinds(tier, funcs, index, enums, res)
        import c15_clock
        r = c15_clock.explore_clock(funcs, index, enums)
        res["functions_executed"].update(r.pop("functions_executed"))
        for v in r.pop("violations"):
            res["violations"].append({"key": "clock | " + v["what"].split(":")[0][:70], "summary": v["what"], "replayer": "clock_cli", "what": v["what"]})
        for k, c in r.pop("unsupported").items():
            res["unsupported"][k] = res["unsupported"].get(k, 0) + c
        r["bound"] = "clock: new(), 0..2 ticks, now(), 0..2 ticks, now()"
        r["inputs_covered"] = r.pop("checks")
        res["runs"].append(r)
        res["target"] += "; StandardDependencies::new + <StandardDependencies as Dependencies>::now with SystemTime::now as a native returning strictly increasing symbolic instants"
        res["bounds"] += "; clock: every now() returns one and the same instant read by new(), for all instants and 0..2 clock ticks before and between the calls"
    elif prop == "C14":
        run_values(tier, funcs, index, enums, res)
        if tier == "thorough":
            # the uniform N / +N / -N reading of -uid -gid -links -inum -size seen through the parser and the matchers, on symbolic records
            run_records(tier, funcs, index, enums, res, text, only=("-uid", "-gid", "-links", "-inum", "-size"))
    elif prop == "C10":
        run_delete(tier, funcs, index, enums, res, text)
    elif prop in ("C08", "C09"):
        run_exec(prop, tier, funcs, index, enums, res)
    elif prop == "C05":
        run_readers(tier, funcs, index, enums, res)
        run_wiring(tier, funcs, index, enums, res)
    elif prop == "C12":
        # c12_glob registers char-list string models globally; they must not leak into the second run, which carries strings as text
        import models as _models, c16_printf as _preload       # (preload what c12_subject imports, so that its registrations are part of the snapshot)
        snap = (dict(_models.EXACT), list(_models.PATTERNS))
        run_glob(tier, funcs, index, enums, res)
        _models.EXACT.clear(); _models.EXACT.update(snap[0]); _models.PATTERNS[:] = snap[1]
        import c12_subject
        r = c12_subject.explore(funcs, index, enums)
        res["functions_executed"].update(r.pop("functions_executed"))
        for v in r.pop("violations"):
            res["violations"].append({"key": "subject | %s" % v["primary"], "summary": v["what"] + " (compiled by onig: %s)" % v["compiled"], "replayer": "subject_cli",
                                      "primary": v["primary"], "glob": v["glob"], "entry": v["entry"], "what": v["what"]})
        for k, c in r.pop("unsupported").items():
            res["unsupported"][k] = res["unsupported"].get(k, 0) + c
        r["bound"] = "%d primaries x %d globs x %d entries" % (len(c12_subject.PRIMS), len(c12_subject.GLOBS), len(c12_subject.ENTRIES))
        r["inputs_covered"] = r.pop("checks")
        res["runs"].append(r)
        res["target"] += ("; subject selection and case folding: the parser's -name/-iname/-path/-ipath/-wholename/-iwholename/-lname/-ilname arms, NameMatcher / PathMatcher / LinkNameMatcher::matches, "
                          "WalkEntry::{new,from_walkdir,file_name,path}, Pattern::{new,matches}, glob_to_regex, parse_bre from MIR; the onig crate is the model of onig_model.py (POSIX basic syntax)")
        res["bounds"] += ("; subject selection: primaries %r x globs %r x entries (path, explicit / walkdir, link target) %r: the pattern is matched against the last component / the whole path / "
                          "the link target, case folded for the -i forms" % (c12_subject.PRIMS, c12_subject.GLOBS, c12_subject.ENTRIES))
    elif prop == "C16":
        run_printf(tier, funcs, index, enums, res)
        run_types(tier, funcs, index, enums, res)
    elif prop == "C13":
        run_types(tier, funcs, index, enums, res)
        # which follow mode the leading -P / -H / -L flags select (the last one wins) - the record selection above is relative to it
        import c18_startpoints
        fv = ["-H", "-L", "-P", "-O2", "--", "a", "-print"]
        for n in (1, 2, 3, 4):
            r = c18_startpoints.explore(n, funcs, index, enums, vocab=fv)
            res["functions_executed"].update(r.pop("functions_executed"))
            for v in r.pop("violations"):
                res["violations"].append({"key": "follow flags | " + v["what"].split(",")[0][:60], "summary": "%s: %s" % (" ".join(v["tokens"] or []), v["what"]), "replayer": "startpoints",
                                          "tokens": v["tokens"], "what": v["what"]})
            for k, c in r.pop("unsupported").items():
                res["unsupported"][k] = res["unsupported"].get(k, 0) + c
            r["bound"] = "follow flags: %d tokens over %d words" % (n, len(fv))
            res["runs"].append(r)
        res["target"] += "; parse_args + do_find on command lines of leading follow flags (process_dir a recorder): the follow mode in force"
        res["bounds"] += "; follow flags: every command line of 1..4 tokens over %r - the mode is that of the last of -P / -H / -L before the first operand" % fv
        run_perm(tier, funcs, index, enums, res)
        run_records(tier, funcs, index, enums, res, text)
    elif prop == "C07":
        run_print0(tier, funcs, index, enums, res)
        run_readers(tier, funcs, index, enums, res, only_bytes=True)
    elif prop == "C20":
        run_replace(tier, funcs, index, enums, res, text)
    elif prop == "C17":
        run_regex(tier, funcs, index, enums, res)
    else:
        raise SystemExit("no MIR-level check for " + prop)
    res["functions_executed"] = sorted(res["functions_executed"])
    res["paths"] = sum(r["paths"] for r in res["runs"])
    res["inputs_covered"] = sum(r["inputs_covered"] for r in res["runs"])
    res["solver_calls"] = sum(r["solver_calls"] for r in res["runs"])
    res["wall_s"] = round(time.time() - t0, 1)
    json.dump(res, open(out, "w"), indent=1)
    print("mirsym %s %s: %d paths, %d inputs/obligations, %d violations, %.0fs" % (prop, tier, res["paths"], res["inputs_covered"], len(res["violations"]), res["wall_s"]))


if __name__ == "__main__":
    main()
