// harnesses for module m_access (included into /repo under cfg(kani))
