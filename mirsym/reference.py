"""Reference semantics of find expressions, written from the property's grammar (pure Python, no solver)."""

LEAVES = {"-empty": "t_empty", "-readable": "t_readable"}


# ----------------------------------------------------------------------------------------------- reference semantics
class Reject(Exception):
    pass


def ref_parse(toks):
    """-> AST per the grammar: list > or > and > not > primary"""
    pos = [0]

    def peek():
        return toks[pos[0]] if pos[0] < len(toks) else None

    def primary():
        t = peek()
        if t is None:
            raise Reject("missing operand")
        if t == "(":
            pos[0] += 1
            if peek() == ")":
                raise Reject("empty parentheses")
            e = expr()
            if peek() != ")":
                raise Reject("missing )")
            pos[0] += 1
            return e
        if t in ("-true", "-false", "-print", "-print0", "-prune", "-quit", "-empty", "-readable"):
            pos[0] += 1
            return ("prim", t)
        raise Reject("unexpected %s" % t)

    def notx():
        if peek() == "!":
            pos[0] += 1
            return ("not", notx())
        return primary()

    def andx():
        l = [notx()]
        while True:
            t = peek()
            if t == "-a":
                pos[0] += 1
                l.append(notx())
            elif t is not None and t not in ("-o", ",", ")"):
                l.append(notx())
            else:
                break
        return l[0] if len(l) == 1 else ("and", l)

    def orx():
        l = [andx()]
        while peek() == "-o":
            pos[0] += 1
            l.append(andx())
        return l[0] if len(l) == 1 else ("or", l)

    def expr():
        l = [orx()]
        while peek() == ",":
            pos[0] += 1
            l.append(orx())
        return l[0] if len(l) == 1 else ("list", l)

    if not toks:
        return ("prim", "-true")
    e = expr()
    if pos[0] != len(toks):
        raise Reject("trailing %s" % toks[pos[0]])
    return e


def has_action(e):
    if e[0] == "prim":
        return e[1] in ("-print", "-print0")
    if e[0] == "not":
        return has_action(e[1])
    return any(has_action(x) for x in e[1])


def ref_eval(e, env, st):
    """st: dict(trace, quit, prune). returns the value; nothing is evaluated after quit"""
    k = e[0]
    if k == "prim":
        t = e[1]
        if t == "-true": return True
        if t == "-false": return False
        if t == "-print": st["trace"].append("print\\n"); return True
        if t == "-print0": st["trace"].append("print\\0"); return True
        if t == "-prune": st["prune"] = True; return True      # the abstract file is a directory
        if t == "-quit": st["quit"] = True; return True
        return env[LEAVES[t]]
    if k == "not":
        return not ref_eval(e[1], env, st)
    if k == "and":
        for x in e[1]:
            if not ref_eval(x, env, st): return False
            if st["quit"]: return True
        return True
    if k == "or":
        for x in e[1]:
            if ref_eval(x, env, st): return True
            if st["quit"]: return False
        return False
    if k == "list":
        v = False
        for x in e[1]:
            v = ref_eval(x, env, st)
            if st["quit"]: break
        return v


def reference(toks, env):
    try:
        e = ref_parse(toks)
    except Reject as r:
        return {"accept": False, "why": str(r)}
    st = {"trace": [], "quit": False, "prune": False}
    v = ref_eval(e, env, st)
    if not has_action(e) and v and not st["quit"]:
        st["trace"].append("print\\n")
    return {"accept": True, "trace": st["trace"], "quit": st["quit"], "prune": st["prune"]}


