// C13: -perm is a function of the twelve permission bits of the selected status record.
use super::*;
use crate::find::matchers::entry::verif_kani::*;
use crate::find::matchers::Follow;

fn any_ct() -> ComparisonType {
    match kani::any::<u8>() % 3 { 0 => ComparisonType::Exact, 1 => ComparisonType::AtLeast, _ => ComparisonType::AnyOf }
}
fn want_perm(ct: ComparisonType, bits: u32, pat: u32) -> bool {
    match ct {
        ComparisonType::Exact => bits == pat,
        ComparisonType::AtLeast => bits & pat == pat,
        ComparisonType::AnyOf => pat == 0 || bits & pat != 0,
    }
}

// @harness props=C13 tier=quick cost=5
// @exec PermMatcher::matches, ComparisonType::mode_bits_match, WalkEntry::metadata (cached record)
// @sym status record (all 32 mode bits incl. file type), MODE in 0..=0o7777, comparison kind (MODE, -MODE, /MODE)
// @bounds loop-free
// @witness meta:stat12 pat:u32 which:u8
// @replay perm_bits
/// -perm MODE: twelve bits equal; -MODE: all set; /MODE: any set or MODE == 0 — for every mode word.
#[kani::proof]
#[kani::stub(alloc::fmt::format, fmt_stub)]
#[kani::stub(<std::io::Stderr as std::io::Write>::write_fmt, wf_stub)]
fn c13_perm_bits() {
    let (m, st) = any_metadata();
    let entry = entry_with(m, 0, Follow::Never);
    let pat: u32 = kani::any();
    kani::assume(pat <= 0o7777);
    let ct = any_ct();
    let pm = PermMatcher { comparison_type: ct, file_pattern: pat, dir_pattern: pat };
    let deps = Deps::new();
    let mut io = MatcherIO::new(&deps);
    let got = pm.matches(&entry, &mut io);
    assert!(got == want_perm(ct, st.st_mode & 0o7777, pat));
    kani::cover!(got && ct == ComparisonType::Exact && (st.st_mode & 0o7000) != 0);
    kani::cover!(!got && ct == ComparisonType::AnyOf);
    kani::cover!(got && ct == ComparisonType::AnyOf && pat == 0);
    std::mem::forget(entry);
}
#[kani::proof]
#[kani::stub(alloc::fmt::format, fmt_stub)]
#[kani::stub(<std::io::Stderr as std::io::Write>::write_fmt, wf_stub)]
fn c13_perm_bits_canary() {
    let (m, st) = any_metadata();
    let entry = entry_with(m, 0, Follow::Never);
    let pat: u32 = kani::any();
    kani::assume(pat <= 0o7777);
    let pm = PermMatcher { comparison_type: ComparisonType::Exact, file_pattern: pat, dir_pattern: pat };
    let deps = Deps::new();
    let mut io = MatcherIO::new(&deps);
    let got = pm.matches(&entry, &mut io);
    assert!(got == ((st.st_mode & 0o777) == pat)); // nine bits only: must FAIL
    std::mem::forget(entry);
}

// @harness props=C13 tier=quick cost=60 flags=nomem
// @exec PermMatcher::matches over WalkEntry::new + Follow::metadata_at_depth with stat/lstat = symbolic world
// @sym lstat + stat records, stat errno {ENOENT, ELOOP}, follow P/H/L, depth 0..1, MODE, kind
// @bounds one path; depth <= 1
// @assume kernel contract for stat vs lstat (see c13_entry_metadata_record)
/// -perm looks at the record the follow mode selects (stat under -L / -H roots, lstat otherwise, lstat for dangling links).
#[kani::proof]
#[kani::unwind(3)]
#[kani::stub(alloc::fmt::format, fmt_stub)]
#[kani::stub(<std::io::Stderr as std::io::Write>::write_fmt, wf_stub)]
#[kani::stub(std::fs::metadata, stat_stub)]
#[kani::stub(std::fs::symlink_metadata, lstat_stub)]
fn c13_perm_record() {
    let (lst, sst, s_ok, s_err) = any_world(&[libc::ENOENT, libc::ELOOP]);
    let follow = any_follow();
    let depth: usize = kani::any();
    kani::assume(depth <= 1);
    let entry = WalkEntry::new("a", depth, follow);
    let pat: u32 = kani::any();
    kani::assume(pat <= 0o7777);
    let ct = any_ct();
    let pm = PermMatcher { comparison_type: ct, file_pattern: pat, dir_pattern: pat };
    let deps = Deps::new();
    let mut io = MatcherIO::new(&deps);
    let got = pm.matches(&entry, &mut io);
    match selected_record(lst, sst, s_ok, s_err, follow.follow_at_depth(depth)) {
        Some(rec) => assert!(got == want_perm(ct, rec.st_mode & 0o7777, pat)),
        None => assert!(!got),
    }
    kani::cover!(got && follow == Follow::Always && is_type(lst.st_mode, libc::S_IFLNK) && s_ok && (lst.st_mode & 0o7777) != (sst.st_mode & 0o7777));
    kani::cover!(follow == Follow::Roots && depth == 1 && is_type(lst.st_mode, libc::S_IFLNK));
    std::mem::forget(entry);
}
#[kani::proof]
#[kani::unwind(3)]
#[kani::stub(alloc::fmt::format, fmt_stub)]
#[kani::stub(<std::io::Stderr as std::io::Write>::write_fmt, wf_stub)]
#[kani::stub(std::fs::metadata, stat_stub)]
#[kani::stub(std::fs::symlink_metadata, lstat_stub)]
fn c13_perm_record_canary() {
    let (lst, _sst, _s_ok, _s_err) = any_world(&[libc::ENOENT]);
    let follow = any_follow();
    let entry = WalkEntry::new("a", 0, follow);
    let pat: u32 = kani::any();
    kani::assume(pat <= 0o7777);
    let pm = PermMatcher { comparison_type: ComparisonType::Exact, file_pattern: pat, dir_pattern: pat };
    let deps = Deps::new();
    let mut io = MatcherIO::new(&deps);
    let got = pm.matches(&entry, &mut io);
    assert!(got == ((lst.st_mode & 0o7777) == pat)); // always lstat: must FAIL
    std::mem::forget(entry);
}

// @harness props=C11,C13 tier=quick cost=5
// @exec parsing::split_comparison_type
// @sym operand of 1..2 symbolic ASCII bytes
// @bounds operand length <= 2
/// The -perm prefix: '-' = all bits, '/' = any bit, anything else = exact; the rest of the operand is untouched; total.
#[kani::proof]
#[kani::unwind(4)]
#[kani::stub(alloc::fmt::format, fmt_stub)]
fn c13_perm_prefix() {
    let b: [u8; 2] = kani::any();
    kani::assume(b[0] < 0x80 && b[1] < 0x80);
    let len: usize = if kani::any() { 1 } else { 2 };
    let s = unsafe { std::str::from_utf8_unchecked(&b[..len]) };
    let (ct, rest) = parsing::split_comparison_type(s);
    match b[0] {
        b'-' => assert!(ct == ComparisonType::AtLeast && rest.len() == len - 1),
        b'/' => assert!(ct == ComparisonType::AnyOf && rest.len() == len - 1),
        _ => assert!(ct == ComparisonType::Exact && rest.len() == len),
    }
    kani::cover!(ct == ComparisonType::AnyOf);
    kani::cover!(ct == ComparisonType::Exact && len == 2);
}
#[kani::proof]
#[kani::unwind(4)]
#[kani::stub(alloc::fmt::format, fmt_stub)]
fn c13_perm_prefix_canary() {
    let b: [u8; 1] = kani::any();
    kani::assume(b[0] < 0x80);
    let s = unsafe { std::str::from_utf8_unchecked(&b[..]) };
    let (ct, _rest) = parsing::split_comparison_type(s);
    assert!(ct == ComparisonType::Exact); // must FAIL
}
