// Support for C01 action flags (exec matchers built directly, without touching the environment).
use super::*;
pub fn single_exec_empty() -> SingleExecMatcher { SingleExecMatcher { executable: String::new(), args: Vec::new(), exec_in_parent_dir: false } }
pub fn multi_exec_empty() -> MultiExecMatcher { MultiExecMatcher { executable: String::new(), args: Vec::new(), exec_in_parent_dir: false, command: RefCell::new(None) } }
