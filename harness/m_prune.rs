// harnesses for module m_prune (included into /repo under cfg(kani))
