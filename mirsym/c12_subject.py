#!/usr/bin/env python3
"""C12: which string each of -name / -iname / -path / -ipath / -wholename / -iwholename / -lname / -ilname matches its pattern
against, and whether case is folded - the part of the property around glob_to_regex (which c12_glob decides).

The real parser builds the matcher from `R P` (R symbolic over the eight primaries, P over a vocabulary of globs); the real
NameMatcher / PathMatcher / LinkNameMatcher::matches, WalkEntry::{new, from_walkdir, file_name, path}, Pattern::{new, matches},
glob_to_regex and parse_bre run from MIR on an entry drawn from a vocabulary (explicit and walkdir entries, nested paths, a
starting point spelled with a trailing slash, names differing in case only, symbolic links with targets).  The onig crate
is the model of onig_model.py (POSIX basic syntax with the options parse_bre passes).  Reference: fnmatch_ref on the last
component / the whole path / the link target, with both sides lower-cased for the -i forms; -lname is false for a non-link.

Why is_match's first-match semantics (known finding F-C17-alternation-order) does no harm here: the BRE glob_to_regex emits is a
sequence of one-character atoms and `.*`.  The part after the last `.*` has a fixed length, and greedy backtracking tries its
rightmost placement first; if any complete match exists, that placement (ending at the end of the string) is available for
every choice of the earlier stars that matches at all, so the first match found covers the whole string whenever one does."""
import json, os, sys, time, z3
import loader, models, interp, natives_fs
from interp import Machine, SliceRef, RStr, Ptr, Struct, Enum, Opaque, BoxObj, Unsupported, RustPanic, PathAbort, UNIT
from models import Some, NONE, Ok, Err, deref
from natives_fs import PStr, text_of
import onig_model as om
import c16_printf
from fnmatch_ref import fnmatch_ref

PRIMS = ["-name", "-iname", "-path", "-ipath", "-wholename", "-iwholename", "-lname", "-ilname"]
GLOBS = ["ab", "AB", "a*", "*b", "?b", "[ab]b", "*.c", "r/ab", "r/*", "*/ab", "R/*B", "t*", "T?", "*", "r", "sub", "s*b/ab", "\\*", "a\\b", "ab/"]
# (path, kind, link target): kind E = explicit entry (a starting point), W = entry delivered by walkdir
ENTRIES = [("r/ab", "W", None), ("r/AB", "W", None), ("r/Ab.c", "W", None), ("r/sub/ab", "W", None), ("r", "E", None), ("r/", "E", None), ("./r/ab", "W", None), ("ab", "E", None),
           ("r/l", "W", "tgt"), ("r/ab", "W", "TX"), ("r/k", "W", "r/ab"), ("r/*", "W", None), ("r/sub", "W", None),
           # a name, a path and a link target that end in a newline: "the match is always against the entire string" - an end anchor that also matches before a final newline is not
           ("r/ab\n", "W", None), ("r/m", "W", "tgt\n")]


def reference(prim, glob, entry):
    path, kind, target = entry
    fold = prim.startswith("-i")
    if prim in ("-name", "-iname"):
        comps = [c for c in path.split("/") if c != ""]
        subj = comps[-1] if comps else path
    elif prim in ("-lname", "-ilname"):
        if target is None:
            return False
        subj = target
    else:
        subj = path
    if fold:
        # ASCII letters only in the vocabulary: folding both sides is fnmatch with FNM_CASEFOLD
        return fnmatch_ref(glob.lower(), subj.lower())
    return fnmatch_ref(glob, subj)


def natives(state):
    nat = c16_printf.str_natives()
    c16_printf.with_closures(nat)

    def opt_value(v):
        v = deref(v)
        if isinstance(v, Struct) and v.ty == "OnigOptions":
            return v.fields[0]
        if isinstance(v, Struct) and str(v.ty).startswith("REGEX_OPTION_"):
            return frozenset() if v.ty == "REGEX_OPTION_NONE" else frozenset([v.ty[len("REGEX_OPTION_"):]])
        raise Unsupported("onig::RegexOptions value %r" % (v,))

    def with_options(m, a):
        pattern, opts, syn = text_of(m, a[0]), opt_value(a[1]), deref(a[2]).fields[0]
        unknown = opts - {"IGNORECASE", "SINGLELINE", "MULTILINE", "FIND_LONGEST", "CAPTURE_GROUP"}
        if unknown:
            raise Unsupported("onig option outside the model: %s" % sorted(unknown))
        try:
            ast = om.parse(pattern, syn)
        except om.OutsideModel as e:
            raise Unsupported("BRE outside the onig model: %r (%s)" % (pattern, e))
        except om.RegexError as e:
            return Err(Opaque("onig::Error(%s)" % e))
        state["compiled"].append((pattern, syn, sorted(opts)))
        flags = ("fold" if "IGNORECASE" in opts else "") + ("+dotall" if "MULTILINE" in opts else "") + ("+single" if "SINGLELINE" in opts else "")
        return Ok(Struct("OnigRegex", [ast, flags.lstrip("+") or False]))

    def is_match(m, a):
        r, text = deref(a[0]), text_of(m, a[1])
        n = om.onig_match(r.fields[0], text, 0, r.fields[1])
        return n is not None and n == len(text)

    def find(m, a):
        r, text = deref(a[0]), text_of(m, a[1])
        for at in range(len(text) + 1):
            n = om.onig_match(r.fields[0], text, at, r.fields[1])
            if n is not None:
                return Some(interp.Tuple([at, n]))
        return NONE()

    def file_type(m, a):
        return Struct("FileTypeV", ["symlink" if state["entry"][2] is not None else "file"])

    def read_link(m, a):
        p = text_of(m, a[0])
        if p != state["entry"][0]:
            raise Unsupported("read_link on %r, the entry is %r" % (p, state["entry"][0]))
        if state["entry"][2] is None:
            return Err(Struct("IoError", ["InvalidInput"]))
        return Ok(PStr(state["entry"][2]))

    def _txt(v):
        return text_of(None, v) if not (isinstance(deref(v), RStr) and deref(v).sym is not None) else None

    def string_push(m, a):
        sobj = deref(a[0])
        sobj.text = text_of(m, sobj) + (chr(a[1]) if isinstance(a[1], int) else text_of(m, a[1]))
        return UNIT

    def chars_as_str(m, a):
        it = deref(a[0])
        return RStr("".join(chr(c) for c in it.fields[0][it.fields[1]:]))

    def pattern_new(m, a):
        # pin the glob (its characters are inspected one by one), then run the real Pattern::new
        return m.run(m.index["Pattern::new"], [RStr(text_of(m, a[0]))] + list(a[1:]))

    def closure_of(m, raw):
        import re as _re
        mc = _re.findall(r"\{closure@[^}]*\}", raw)
        fn = m.index.get(mc[-1]) if mc else None
        if fn is None:
            raise Unsupported("closure of " + raw[:60])
        return fn

    def is_some_and(m, a, raw):
        v = a[0]
        if v.variant == "None":
            return False
        return m.run(closure_of(m, raw), [a[1], v.fields[0]])

    def chars_all(m, a, raw):
        it = deref(a[0])
        fn = closure_of(m, raw)
        while it.fields[1] < len(it.fields[0]):
            c = it.fields[0][it.fields[1]]
            it.fields[1] += 1
            if not m.run(fn, [a[1], c]):
                return False
        return True

    def opt_char_eq(m, a):
        x, y = deref(a[0]), deref(a[1])
        return x.variant == y.variant and (x.variant == "None" or x.fields[0] == y.fields[0])

    def components(m, a):
        root, comps = natives_fs.components(text_of(m, a[0]))
        return Struct("ComponentsV", [(["/"] if root else []) + comps])

    def comp_next_back(m, a):
        it = deref(a[0])
        return Some(PStr(it.fields[0].pop())) if it.fields[0] else NONE()

    def unwrap_or_else(m, a, raw):
        v = a[0]
        if v.variant in ("Some", "Ok"):
            return v.fields[0]
        return m.run(closure_of(m, raw), [a[1]] + ([v.fields[0]] if v.variant == "Err" else []))

    models.EXACT["Option::unwrap_or_else"] = unwrap_or_else
    models.EXACT["Option::is_some_and"] = is_some_and
    models.EXACT["<Chars as Iterator>::all"] = chars_all
    nat.update({
        "<Option<char> as PartialEq>::eq": opt_char_eq,
        "Path::components": components, "<Components as DoubleEndedIterator>::next_back": comp_next_back, "Component::as_os_str": lambda m, a: deref(a[0]),
        "Pattern::new": pattern_new,
        "String::new": lambda m, a: RStr(""), "String::push": string_push, "String::push_str": string_push, "Chars::as_str": chars_as_str,
        "String::as_str": lambda m, a: deref(a[0]), "<String as Deref>::deref": lambda m, a: deref(a[0]),
        "Syntax::posix_basic": lambda m, a: Struct("OnigSyntax", ["posix_basic"]), "Syntax::emacs": lambda m, a: Struct("OnigSyntax", ["emacs"]),
        "Syntax::grep": lambda m, a: Struct("OnigSyntax", ["grep"]), "Syntax::posix_extended": lambda m, a: Struct("OnigSyntax", ["posix_extended"]),
        # the options a syntax carries (regsyntax.c): the POSIX ones SINGLELINE | MULTILINE, emacs and grep none
        "Syntax::options": lambda m, a: Struct("OnigOptions", [frozenset(["SINGLELINE", "MULTILINE"]) if deref(a[0]).fields[0].startswith("posix") else frozenset()]),
        "<RegexOptions as BitOr>::bitor": lambda m, a: Struct("OnigOptions", [opt_value(a[0]) | opt_value(a[1])]),
        "Regex::with_options": with_options, "Regex::is_match": is_match, "Regex::find": find,
        "WalkEntry::file_type": file_type, "FileTypeV::is_symlink": None,
        "FileType::is_symlink": lambda m, a: deref(a[0]).fields[0] == "symlink",
        "Path::read_link": read_link,
        "Error::kind": lambda m, a: Enum("ErrorKind", deref(a[0]).fields[0], []),
        "<ErrorKind as PartialEq>::ne": lambda m, a: deref(a[0]).variant != deref(a[1]).variant,
        "<ErrorKind as PartialEq>::eq": lambda m, a: deref(a[0]).variant == deref(a[1]).variant,
        "<impl Into<PathBuf> as Into>::into": lambda m, a: a[0],
        "DirEntry::path": lambda m, a: deref(a[0]).fields[0], "DirEntry::depth": lambda m, a: deref(a[0]).fields[1],
        "DirEntry::into_path": lambda m, a: deref(a[0]).fields[0], "DirEntry::path_is_symlink": lambda m, a: state["entry"][2] is not None,
        "DirEntry::file_name": lambda m, a: PStr([c for c in text_of(m, deref(a[0]).fields[0]).split("/") if c][-1]),
        "<Printer as Matcher>::matches": lambda m, a: (state["printed"].append(1), True)[1],
        "parse_str_to_newer_args": lambda m, a: NONE(),
        "<str as ToString>::to_string": lambda m, a: RStr(text_of(m, a[0])),
    })
    return {k: v for k, v in nat.items() if v is not None}


def explore(funcs, index, enums, globs=GLOBS):
    res = {"kind": "subject selection and case folding", "paths": 0, "checks": 0, "violations": [], "unsupported": {}, "samples": []}
    state = {"compiled": [], "printed": [], "entry": None}
    m = Machine(funcs, index, enums, models, natives=natives(state), max_steps=4000000)
    prim, glob, ent = z3.Int("primary"), z3.Int("glob"), z3.Int("entry")
    m.base_constraints = [prim >= 0, prim < len(PRIMS), glob >= 0, glob < len(globs), ent >= 0, ent < len(ENTRIES)]
    m.pending = [[]]
    t0 = time.time()
    while m.pending:
        m.reset_path(m.pending.pop())
        state["compiled"], state["printed"], state["entry"] = [], [], None
        try:
            args = SliceRef([RStr(sym=prim, vocab=PRIMS), RStr(sym=glob, vocab=globs)])
            cfg = [m.call("<Config as Default>::default", [])]
            r = m.call("build_top_level_matcher", [args, Ptr(cfg, 0)])
            if r.variant != "Ok":
                outcome = "reject"
            else:
                ei = m.decide_int(ent, list(range(len(ENTRIES))))
                e = ENTRIES[ei]
                state["entry"] = e
                if e[1] == "E":
                    entry = [m.call("WalkEntry::new", [PStr(e[0]), 0, Enum("Follow", "Never", [])])]
                else:
                    w = m.call("WalkEntry::from_walkdir", [Ok(Struct("DirEntryV", [PStr(e[0]), e[0].count("/"), False])), Enum("Follow", "Never", [])])
                    if w.variant != "Ok":
                        raise Unsupported("from_walkdir failed")
                    entry = [w.fields[0]]
                io = [Struct("MatcherIO", [False, 0, False, Opaque("deps")])]
                box = [r.fields[0]]
                m.call("<Box<dyn Matcher> as Matcher>::matches", [Ptr(box, 0), Ptr(entry, 0), Ptr(io, 0)])
                outcome = bool(state["printed"])
        except RustPanic as ex:
            outcome = "panic: " + str(ex)[:80]
        except Unsupported as ex:
            res["unsupported"][str(ex)[:100]] = res["unsupported"].get(str(ex)[:100], 0) + 1
            continue
        except PathAbort:
            continue
        res["paths"] += 1
        s = z3.Solver()
        for c in m.base_constraints + m.pc: s.add(c)
        allv = [prim, glob, ent]
        while s.check() == z3.sat:
            mod = s.model()
            vals = [mod.eval(v, model_completion=True).as_long() for v in allv]
            s.add(z3.Or([v != x for v, x in zip(allv, vals)]))
            p, g, e = PRIMS[vals[0]], globs[vals[1]], ENTRIES[vals[2]]
            res["checks"] += 1
            want = reference(p, g, e)
            if outcome != want:
                res["violations"].append({"primary": p, "glob": g, "entry": list(e), "compiled": list(state["compiled"]),
                                          "what": "%s %r on %s%s: %s, reference (fnmatch on %s%s): %s" % (
                                              p, g, e[0], (" -> " + e[2]) if e[2] else "", outcome if isinstance(outcome, str) else ("true" if outcome else "false"),
                                              "the last component" if "name" in p and "lname" not in p and "whole" not in p else "the link target" if "lname" in p else "the whole path",
                                              ", case folded" if p.startswith("-i") else "", "true" if want else "false")})
            elif len(res["samples"]) < 3 and outcome is True and vals[0] in (1, 3, 6):
                res["samples"].append({"primary": p, "glob": g, "entry": list(e), "compiled": list(state["compiled"])})
    res["wall_s"] = round(time.time() - t0, 2)
    res["solver_calls"] = m.stats["solver_calls"]
    res["functions_executed"] = sorted(m.executed)
    return res


if __name__ == "__main__":
    text = open(sys.argv[1]).read() if len(sys.argv) > 1 else None
    funcs, index, enums, secs, _ = loader.load(os.environ.get("FINDUTILS_REPO", "/repo"), text)
    r = explore(funcs, index, enums)
    v = r.pop("violations")
    print(json.dumps({k: r[k] for k in ("kind", "paths", "checks", "wall_s", "unsupported", "samples")})[:1500])
    print(len(v), "violations")
    for x in v[:15]:
        print("  ", x["what"], x["compiled"])
