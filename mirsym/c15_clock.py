#!/usr/bin/env python3
"""C15: "with 'now' fixed when find starts".

StandardDependencies::new and <StandardDependencies as Dependencies>::now are executed from MIR with the system clock as a
native that returns strictly increasing symbolic instants (one per call, so every reading of the clock is visible) and with
time passing between the calls.  Obligation (z3, for all instants): new() reads the clock, and every later now() - however
many, however much later - returns an instant that new() read, always the same one.
A change that makes the reference instant lazy (read at the first time test), re-reads the clock per entry, or rounds it is
caught; how the matchers use the instant is the Kani harnesses' (c15_age_days, c15_age_minutes, c15_newer_*)."""
import json, os, sys, time, z3
import loader, models, interp, natives_fs
from interp import Machine, Ptr, Struct, Opaque, BoxObj, Unsupported, RustPanic, PathAbort
from models import deref

NTICKS = 8


def explore_clock(funcs, index, enums):
    res = {"kind": "clock: StandardDependencies::new + now()", "paths": 0, "checks": 0, "violations": [], "unsupported": {}, "samples": []}
    ticks = [z3.Int("clock%d" % i) for i in range(NTICKS)]
    gap1, gap2 = z3.Int("gap_before_first_now"), z3.Int("gap_between_nows")
    state = {"n": 0}

    def clock_now(m, a):
        if state["n"] >= NTICKS:
            raise Unsupported("more than %d readings of the clock" % NTICKS)
        t = ticks[state["n"]]
        state["n"] += 1
        return Struct("SystemTime", [t])

    nat = {"SystemTime::now": clock_now, "Instant::now": lambda m, a: (_ for _ in ()).throw(Unsupported("Instant::now")),
           "Rc::new": lambda m, a: BoxObj([a[0]])}
    m = Machine(funcs, index, enums, models, natives=nat, max_steps=200000)
    m.base_constraints = [ticks[i] < ticks[i + 1] for i in range(NTICKS - 1)] + [ticks[0] >= 0, gap1 >= 0, gap1 <= 2, gap2 >= 0, gap2 <= 2]
    m.pending = [[]]
    t0 = time.time()
    while m.pending:
        m.reset_path(m.pending.pop())
        state["n"] = 0
        try:
            deps = [m.call("StandardDependencies::new", [])]
            after_new = state["n"]
            g1 = m.decide_int(gap1, [0, 1]); g1 = 2 if g1 is None else g1
            state["n"] += g1                       # time passes (other code reads the clock, files are visited)
            a = m.call("<StandardDependencies as Dependencies>::now", [Ptr(deps, 0)])
            g2 = m.decide_int(gap2, [0, 1]); g2 = 2 if g2 is None else g2
            state["n"] += g2
            b = m.call("<StandardDependencies as Dependencies>::now", [Ptr(deps, 0)])
            reads = state["n"] - g1 - g2
        except RustPanic as e:
            res["violations"].append({"what": "panic: " + str(e)[:80]}); res["paths"] += 1
            continue
        except Unsupported as e:
            res["unsupported"][str(e)[:100]] = res["unsupported"].get(str(e)[:100], 0) + 1
            continue
        except PathAbort:
            continue
        res["paths"] += 1

        def inst(v):
            v = deref(v)
            if isinstance(v, Struct) and v.ty == "SystemTime":
                return v.fields[0]
            raise Unsupported("now() returned %r" % (v,))
        try:
            ia, ib = inst(a), inst(b)
        except Unsupported as e:
            res["unsupported"][str(e)[:100]] = res["unsupported"].get(str(e)[:100], 0) + 1
            continue
        obligations = [("new() reads the clock (the reference instant exists when find starts)", z3.BoolVal(after_new >= 1)),
                       ("the first now() (after %d further clock ticks) returns an instant read by new()" % g1, z3.Or([ia == t for t in ticks[:after_new]] or [z3.BoolVal(False)])),
                       ("the second now() (after %d more ticks) returns the same instant as the first" % g2, ib == ia)]
        for what, ob in obligations:
            res["checks"] += 1
            s = z3.Solver()
            for c in m.base_constraints + m.pc: s.add(c)
            s.add(z3.Not(ob))
            m.stats["solver_calls"] += 1
            if s.check() != z3.unsat:
                res["violations"].append({"what": "%s: violated (clock read %d time(s) in new(), %d in all)" % (what, after_new, reads)})
        if not res["samples"]:
            res["samples"].append({"clock_reads_in_new": after_new, "ticks_between": [g1, g2]})
    res["wall_s"] = round(time.time() - t0, 2)
    res["solver_calls"] = m.stats["solver_calls"]
    res["functions_executed"] = sorted(m.executed)
    return res


if __name__ == "__main__":
    text = open(sys.argv[1]).read() if len(sys.argv) > 1 else None
    funcs, index, enums, secs, _ = loader.load(os.environ.get("FINDUTILS_REPO", "/repo"), text)
    r = explore_clock(funcs, index, enums)
    print(json.dumps({k: r[k] for k in ("kind", "paths", "checks", "unsupported", "samples", "functions_executed")}), len(r["violations"]), [v["what"] for v in r["violations"][:8]])
