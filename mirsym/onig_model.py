"""Model of the part of oniguruma that C17 depends on: the four syntaxes findutils selects (as defined by the operator
tables in onig_sys' regsyntax.c: ONIG_SYNTAX_EMACS / GREP / POSIX_BASIC / POSIX_EXTENDED), a backtracking matcher with
oniguruma's priority order (alternatives left to right, greedy repeats), and the API contract of the onig crate:

  Regex::is_match(text)  ==  onig_match at offset 0 returns Some(n) and n == text.len()
                             (n = length of the FIRST match in priority order; with ONIG_OPTION_FIND_LONGEST: of the longest)
  Regex::find(text)      ==  leftmost search, first match in priority order -> (start, end)

and, independent of it, the REFERENCE the property speaks of: `text` belongs to the language of the pattern (some way of
matching consumes the whole text).  Both work on the same AST; what differs is exactly what the property is about (whole
string vs. prefix / substring, independence of the order of alternatives).

Subset: literals, '.', '*', '+', '?', groups, alternation, simple bracket expressions; no anchors, intervals, back
references, classes.  calibrate() in c17_regex.py runs the real find binary on the whole vocabulary to validate this model.
"""

SYNTAX = {
    # operator spellings per syntax (from regsyntax.c): plain = the character itself is the operator, esc = backslash + character is
    "emacs": {"group": "esc", "alt": "esc", "plus": "plain", "qmark": "plain"},
    "grep": {"group": "esc", "alt": "esc", "plus": "esc", "qmark": "esc"},
    "posix_basic": {"group": "esc", "alt": None, "plus": None, "qmark": None},
    "posix_extended": {"group": "plain", "alt": "plain", "plus": "plain", "qmark": "plain", "unmatched_close_literal": True},
}


class RegexError(Exception):
    pass


class OutsideModel(Exception):
    """the pattern uses something this model does not cover: the check must answer 'unsupported', never a verdict"""


def tokenize(pat, syn):
    s = SYNTAX[syn]
    ops = {"(": "group", ")": "group", "|": "alt", "+": "plus", "?": "qmark"}
    out = []
    i = 0
    while i < len(pat):
        c = pat[i]
        if c == "\\":
            if i + 1 >= len(pat):
                raise RegexError("end pattern at escape")
            d = pat[i + 1]
            i += 2
            if d in ops and s[ops[d]] == "esc":
                out.append(("op", d))
            elif d in "123456789":
                out.append(("backref", int(d)))
            elif d.isdigit() or d in "{}<>wWbBsSdDhH`'":
                raise OutsideModel("\\" + d)
            else:
                out.append(("lit", d))
            continue
        i += 1
        if c in ops and s[ops[c]] == "plain":
            out.append(("op", c))
        elif c == ".":
            out.append(("any",))
        elif c == "*":
            out.append(("op", "*"))
        elif c == "[":
            j = i
            neg = False
            if j < len(pat) and pat[j] == "^":
                neg = True
                j += 1
            items = []
            first = True
            while True:
                if j >= len(pat):
                    raise RegexError("premature end of char-class")
                if pat[j] == "]" and not first:
                    break
                if pat[j] in "[\\-":
                    raise OutsideModel("bracket expression with " + pat[j])
                items.append(pat[j])
                first = False
                j += 1
            out.append(("set", neg, tuple(items)))
            i = j + 1
        elif c == "^" and i == 1:
            out.append(("bol",))            # an anchor at the very start of the pattern (elsewhere: outside the model)
        elif c == "$" and i == len(pat):
            out.append(("eol",))            # ... and at its very end
        elif c in "^${}":
            raise OutsideModel(c)
        else:
            out.append(("lit", c))
    return out


def parse(pat, syn, capture=True):
    """capture=False: ONIG_OPTION_DONT_CAPTURE_GROUP (plain groups do not capture, so a back reference has nothing to refer to)"""
    toks = tokenize(pat, syn)
    pos = [0]
    ngroups = [0]
    close_lit = SYNTAX[syn].get("unmatched_close_literal")

    def peek():
        return toks[pos[0]] if pos[0] < len(toks) else None

    def alt(depth):
        branches = [cat(depth)]
        while peek() == ("op", "|"):
            pos[0] += 1
            branches.append(cat(depth))
        return branches[0] if len(branches) == 1 else ("alt", branches)

    def cat(depth):
        items = []
        while True:
            t = peek()
            if t is None or t == ("op", "|"):
                break
            if t == ("op", ")"):
                if depth > 0:
                    break
                if close_lit:
                    pos[0] += 1
                    items.append(("lit", ")"))
                    continue
                raise RegexError("unmatched close parenthesis")
            items.append(rep(depth))
        return ("cat", items)

    def rep(depth):
        t = peek()
        pos[0] += 1
        if t == ("op", "("):
            ngroups[0] += 1
            gno = ngroups[0]
            inner = alt(depth + 1)
            if peek() != ("op", ")"):
                raise RegexError("end pattern with unmatched parenthesis")
            pos[0] += 1
            node = ("group", gno, inner) if capture else inner
        elif t[0] == "op" and t[1] in "*+?":
            raise RegexError("target of repeat operator is not specified")     # position-dependent in onig; kept out of the vocabulary
        else:
            node = t
        while peek() is not None and peek()[0] == "op" and peek()[1] in "*+?":
            node = ({"*": "star", "+": "plus", "?": "opt"}[peek()[1]], node)
            pos[0] += 1
        return node

    ast = alt(0)
    if pos[0] != len(toks):
        raise RegexError("trailing " + repr(toks[pos[0]]))
    for t in toks:
        if t[0] == "backref" and (not capture or t[1] > ngroups[0]):
            raise RegexError("invalid backref number/name")
    return ast


def ends(node, text, i, fold, caps=()):
    """generator of (end position, captures) of matches of node at i, in oniguruma's priority order; captures = ((group, start, end), ...)
    fold: True / False, or "dotall" / "fold+dotall" when '.' also matches a newline (ONIG_OPTION_MULTILINE, part of the POSIX syntaxes' options)"""
    dotall = isinstance(fold, str) and "dotall" in fold
    # ONIG_OPTION_SINGLELINE (part of the POSIX syntaxes' options): '^' is \\A and '$' is \\Z - the end of the text or just before one final newline
    _SINGLE[0] = isinstance(fold, str) and "single" in fold
    if isinstance(fold, str):
        fold_ = fold.startswith("fold")
    else:
        fold_ = bool(fold)
    return _ends(node, text, i, fold_, dotall, caps)


_SINGLE = [False]


def _ends(node, text, i, fold, dotall, caps):
    k = node[0]
    if k == "bol":
        if i == 0 or (not _SINGLE[0] and text[i - 1] == "\n"):
            yield i, caps
        return
    if k == "eol":
        if i == len(text) or (text[i] == "\n" and (not _SINGLE[0] or i == len(text) - 1)):
            yield i, caps
        return
    if k == "lit":
        if i < len(text) and (text[i] == node[1] or (fold and text[i].lower() == node[1].lower())):
            yield i + 1, caps
    elif k == "any":
        if i < len(text) and (dotall or text[i] != "\n"):
            yield i + 1, caps
    elif k == "set":
        if i < len(text):
            hit = text[i] in node[2] or (fold and (text[i].lower() in node[2] or text[i].upper() in node[2]))
            if hit != node[1]:
                yield i + 1, caps
    elif k == "backref":
        got = [c for c in caps if c[0] == node[1]]
        if got:
            _g, a, b = got[-1]
            piece = text[a:b]
            cand = text[i:i + len(piece)]
            if cand == piece or (fold and cand.lower() == piece.lower()):
                yield i + len(piece), caps
    elif k == "group":
        for q, c in _ends(node[2], text, i, fold, dotall, caps):
            yield q, c + ((node[1], i, q),)
    elif k == "cat":
        def go(idx, p, c):
            if idx == len(node[1]):
                yield p, c
                return
            for q, c2 in _ends(node[1][idx], text, p, fold, dotall, c):
                yield from go(idx + 1, q, c2)
        yield from go(0, i, caps)
    elif k == "alt":
        for b in node[1]:
            yield from _ends(b, text, i, fold, dotall, caps)
    elif k == "opt":
        yield from _ends(node[1], text, i, fold, dotall, caps)
        yield i, caps
    elif k in ("star", "plus"):
        def more(p, c, first):
            for q, c2 in _ends(node[1], text, p, fold, dotall, c):
                if q == p:
                    continue
                yield from more(q, c2, False)
            if not first or k == "star":
                yield p, c
        yield from more(i, caps, True)
    else:
        raise RegexError("node " + k)


def onig_match(ast, text, at, fold):
    """onig_match(): end of the FIRST match (priority order) starting at `at`, or None.  ONIG_OPTION_FIND_LONGEST given at
    compile time does not change what onig_match returns for the purpose of is_match: match_at() leaves after the first
    match and reports it only if it ends at the end of the text (regexec.c, CASE_OP(END)), and onig_match() consults only
    its call-time option for the best-length fallback - confirmed with the real binary."""
    for e, _c in ends(ast, text, at, fold):
        return e
    return None


def in_language(ast, text, fold):
    """the reference: some way of matching consumes the whole text"""
    return any(e == len(text) for e, _c in ends(ast, text, 0, fold))
