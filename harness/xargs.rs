// C04 (limiters), C05 (whitespace reader, delimiter operand), C06 (system budget), C19 (classification, exit-code map).
include!(concat!(env!("FINDUTILS_VERIF_DIR"), "/harness/common_stubs.rs"));
use super::*;

// ------------------------------------------------------------------------------------------ C04 limiters
struct Tail { accept: bool }
impl CommandSizeLimiter for Tail {
    fn try_arg(&mut self, arg: Argument, _c: LimiterCursor<'_>) -> Result<Argument, ExhaustedCommandSpace> {
        if self.accept { Ok(arg) } else { Err(ExhaustedCommandSpace { arg, out_of_chars: false }) }
    }
    fn dyn_clone(&self) -> Box<dyn CommandSizeLimiter> { Box::new(Tail { accept: self.accept }) }
}
fn any_kind() -> ArgumentKind { match kani::any::<u8>() % 3 { 0 => ArgumentKind::Initial, 1 => ArgumentKind::HardTerminated, _ => ArgumentKind::SoftTerminated } }
/// A real OsString argument of 1..=3 bytes (fixed shapes, symbolic choice).
fn any_arg(kind: ArgumentKind) -> (Argument, usize) {
    let which: u8 = kani::any();
    let (s, n) = match which % 3 { 0 => ("a", 1usize), 1 => ("ab", 2), _ => ("abc", 3) };
    (Argument { arg: OsString::from(s), kind }, n)
}

// @harness props=C04 tier=quick cost=10
// @exec MaxCharsCommandSizeLimiter::try_arg, count_osstr_chars_for_exec, LimiterCursor::try_next
// @sym limiter state and limit (full usize, invariant current_size <= max_chars), argument of 1..3 bytes and any kind, next limiter accepts or rejects
// @bounds one step from an arbitrary valid state (inductive step over histories of any length)
// @witness cur:usize max:usize accept:bool kind:u8 which:u8
// @replay limiter_chars
/// -s: an argument is admitted iff its bytes + 1 still fit and every later limiter admits it; the state grows by exactly
/// bytes + 1 on admission and is untouched otherwise; out_of_chars is reported only when -s itself is the reason.
#[kani::proof]
#[kani::unwind(5)]
#[kani::stub(alloc::fmt::format, fmt_stub)]
#[kani::stub(alloc::raw_vec::handle_error, he_stub)]
#[kani::stub(std::alloc::handle_alloc_error, hae_stub)]
fn c04_limiter_step_chars() {
    let cur: usize = kani::any(); let max: usize = kani::any();
    kani::assume(cur <= max && max < usize::MAX - 8);
    let mut l = MaxCharsCommandSizeLimiter { current_size: cur, max_chars: max };
    let accept: bool = kani::any();
    let mut tail: [Box<dyn CommandSizeLimiter>; 1] = [Box::new(Tail { accept })];
    let (arg, n) = any_arg(any_kind());
    let r = l.try_arg(arg, LimiterCursor { limiters: &mut tail[..] });
    let fits = cur + n + 1 <= max;
    match &r {
        Ok(a) => { assert!(fits && accept); assert!(l.current_size == cur + n + 1); assert!(l.current_size <= l.max_chars); assert!(a.arg.len() == n); }
        Err(e) => { assert!(!fits || !accept); assert!(l.current_size == cur); assert!(e.out_of_chars == !fits); assert!(e.arg.arg.len() == n); }
    }
    assert!(l.max_chars == max);
    kani::cover!(r.is_ok() && cur + n + 1 == max);
    kani::cover!(r.is_err() && fits);
    kani::cover!(r.is_err() && !fits && cur + n == max);
    std::mem::forget(r); std::mem::forget(tail);
}
#[kani::proof]
#[kani::unwind(5)]
#[kani::stub(alloc::fmt::format, fmt_stub)]
#[kani::stub(alloc::raw_vec::handle_error, he_stub)]
#[kani::stub(std::alloc::handle_alloc_error, hae_stub)]
fn c04_limiter_step_chars_canary() {
    let cur: usize = kani::any(); let max: usize = kani::any();
    kani::assume(cur <= max && max < usize::MAX - 8);
    let mut l = MaxCharsCommandSizeLimiter { current_size: cur, max_chars: max };
    let mut tail: [Box<dyn CommandSizeLimiter>; 1] = [Box::new(Tail { accept: true })];
    let r = l.try_arg(Argument { arg: OsString::from("ab"), kind: ArgumentKind::SoftTerminated }, LimiterCursor { limiters: &mut tail[..] });
    assert!(r.is_ok() == (cur + 2 <= max)); // forgets the terminator: must FAIL
    std::mem::forget(r); std::mem::forget(tail);
}

// @harness props=C04 tier=quick cost=10
// @replay process_input
// @exec MaxArgsCommandSizeLimiter::try_arg, MaxLinesCommandSizeLimiter::try_arg, LimiterCursor::try_next
// @sym limiter state and limit (full usize under the invariant), argument kind, next limiter accepts or rejects
// @bounds one step from an arbitrary valid state
/// -n counts appended (non-initial) arguments, -L counts hard-terminated arguments (input lines); both admit only while the
/// limit still holds, change state only on admission, and never report out_of_chars.
#[kani::proof]
#[kani::unwind(5)]
#[kani::stub(alloc::fmt::format, fmt_stub)]
#[kani::stub(alloc::raw_vec::handle_error, he_stub)]
#[kani::stub(std::alloc::handle_alloc_error, hae_stub)]
fn c04_limiter_step_args_lines() {
    let cur: usize = kani::any(); let max: usize = kani::any();
    kani::assume(max >= 1 && max < usize::MAX - 2 && cur <= max);
    let accept: bool = kani::any();
    let kind = any_kind();
    let is_initial = kind == ArgumentKind::Initial; let is_hard = kind == ArgumentKind::HardTerminated;
    let mut tail: [Box<dyn CommandSizeLimiter>; 1] = [Box::new(Tail { accept })];
    let which: bool = kani::any();
    if which {
        let mut l = MaxArgsCommandSizeLimiter { current_args: cur, max_args: max };
        let r = l.try_arg(Argument { arg: OsString::from("a"), kind }, LimiterCursor { limiters: &mut tail[..] });
        match &r {
            Ok(_) => { assert!(cur < max && accept); assert!(l.current_args == cur + if is_initial { 0 } else { 1 }); assert!(l.current_args <= max); }
            Err(e) => { assert!(l.current_args == cur); assert!(!e.out_of_chars); assert!(cur >= max || !accept); }
        }
        kani::cover!(r.is_ok() && cur + 1 == max && !is_initial);
        kani::cover!(r.is_err() && cur == max);
        std::mem::forget(r);
    } else {
        kani::assume(cur >= 1 && cur <= max + 1);
        let mut l = MaxLinesCommandSizeLimiter { current_line: cur, max_lines: max };
        let r = l.try_arg(Argument { arg: OsString::from("a"), kind }, LimiterCursor { limiters: &mut tail[..] });
        match &r {
            Ok(_) => { assert!(cur <= max && accept); assert!(l.current_line == cur + if is_hard { 1 } else { 0 }); assert!(l.current_line <= max + 1); }
            Err(e) => { assert!(l.current_line == cur); assert!(!e.out_of_chars); assert!(cur > max || !accept); }
        }
        kani::cover!(r.is_ok() && cur == max && is_hard);
        kani::cover!(r.is_ok() && !is_hard);
        std::mem::forget(r);
    }
    std::mem::forget(tail);
}
#[kani::proof]
#[kani::unwind(5)]
#[kani::stub(alloc::fmt::format, fmt_stub)]
#[kani::stub(alloc::raw_vec::handle_error, he_stub)]
#[kani::stub(std::alloc::handle_alloc_error, hae_stub)]
fn c04_limiter_step_args_lines_canary() {
    let cur: usize = kani::any(); let max: usize = kani::any();
    kani::assume(max >= 1 && max < usize::MAX - 2 && cur >= 1 && cur <= max);
    let mut tail: [Box<dyn CommandSizeLimiter>; 1] = [Box::new(Tail { accept: true })];
    let mut l = MaxLinesCommandSizeLimiter { current_line: cur, max_lines: max };
    let r = l.try_arg(Argument { arg: OsString::from("a"), kind: ArgumentKind::SoftTerminated }, LimiterCursor { limiters: &mut tail[..] });
    assert!(l.current_line == cur + 1); // a blank-terminated argument does not end a line: must FAIL
    std::mem::forget(r); std::mem::forget(tail);
}

// @harness props=C04 tier=quick cost=15
// @replay limiter_chars
// @exec LimiterCollection::{try_arg,clone}, LimiterCursor::try_next, the three limiters chained in do_xargs' order (-n, -L, -s)
// @sym all three states and limits (bounded so that sums cannot wrap), argument of 1..3 bytes, kind
// @bounds one step; chain shape -n,-L,-s fixed (concrete vtables), values symbolic
/// The chain admits an argument iff every limiter admits it; on rejection no limiter's state changed; out_of_chars iff -s was
/// the (first) reason; a clone carries the same state.
#[kani::proof]
#[kani::unwind(5)]
#[kani::stub(alloc::fmt::format, fmt_stub)]
#[kani::stub(alloc::raw_vec::handle_error, he_stub)]
#[kani::stub(std::alloc::handle_alloc_error, hae_stub)]
fn c04_chain_step() {
    let (ca, ma): (usize, usize) = (kani::any(), kani::any());
    let (cl, ml): (usize, usize) = (kani::any(), kani::any());
    let (cs, ms): (usize, usize) = (kani::any(), kani::any());
    kani::assume(ma >= 1 && ma < 1000 && ca <= ma && ml >= 1 && ml < 1000 && cl >= 1 && cl <= ml + 1 && ms < 100_000 && cs <= ms);
    let mut c = LimiterCollection { limiters: vec![
        Box::new(MaxArgsCommandSizeLimiter { current_args: ca, max_args: ma }),
        Box::new(MaxLinesCommandSizeLimiter { current_line: cl, max_lines: ml }),
        Box::new(MaxCharsCommandSizeLimiter { current_size: cs, max_chars: ms }),
    ] };
    let kind = if kani::any() { ArgumentKind::HardTerminated } else { ArgumentKind::SoftTerminated };
    let hard = kind == ArgumentKind::HardTerminated;
    let (arg, n) = any_arg(kind);
    let r = c.try_arg(arg);
    let fits_n = ca < ma; let fits_l = cl <= ml; let fits_s = cs + n + 1 <= ms;
    // observe the states through a second, probing step on a clone (fields are private to each limiter type)
    let c2 = c.clone();
    match &r {
        Ok(_) => assert!(fits_n && fits_l && fits_s),
        Err(e) => { assert!(!(fits_n && fits_l && fits_s)); assert!(e.out_of_chars == (fits_n && fits_l && !fits_s)); }
    }
    assert!(c.limiters.len() == 3 && c2.limiters.len() == 3);
    kani::cover!(r.is_ok() && hard);
    kani::cover!(r.is_err() && fits_n && fits_l);
    kani::cover!(r.is_err() && !fits_n && !fits_s);
    std::mem::forget(r); std::mem::forget(c); std::mem::forget(c2);
}
#[kani::proof]
#[kani::unwind(5)]
#[kani::stub(alloc::fmt::format, fmt_stub)]
#[kani::stub(alloc::raw_vec::handle_error, he_stub)]
#[kani::stub(std::alloc::handle_alloc_error, hae_stub)]
fn c04_chain_step_canary() {
    let (ca, ma): (usize, usize) = (kani::any(), kani::any());
    let (cs, ms): (usize, usize) = (kani::any(), kani::any());
    kani::assume(ma >= 1 && ma < 1000 && ca <= ma && ms < 100_000 && cs <= ms);
    let mut c = LimiterCollection { limiters: vec![
        Box::new(MaxArgsCommandSizeLimiter { current_args: ca, max_args: ma }),
        Box::new(MaxCharsCommandSizeLimiter { current_size: cs, max_chars: ms }),
    ] };
    let r = c.try_arg(Argument { arg: OsString::from("ab"), kind: ArgumentKind::SoftTerminated });
    assert!(r.is_ok() == (ca < ma)); // ignores -s: must FAIL
    std::mem::forget(r); std::mem::forget(c);
}

// @harness props=C04 tier=quick cost=30
// @replay limiter_chars
// @exec LimiterCollection::try_arg twice on -n,-s (state carried between the two steps through the real objects)
// @sym both states/limits, two arguments of 1..3 bytes
// @bounds two consecutive steps
/// Two consecutive admissions account for both arguments: the second sees the state left by the first (no lost update,
/// no double count), and a rejected argument leaves the chain able to admit exactly what it could before.
#[kani::proof]
#[kani::unwind(5)]
#[kani::stub(alloc::fmt::format, fmt_stub)]
#[kani::stub(alloc::raw_vec::handle_error, he_stub)]
#[kani::stub(std::alloc::handle_alloc_error, hae_stub)]
fn c04_chain_two_steps() {
    let (ca, ma): (usize, usize) = (kani::any(), kani::any());
    let (cs, ms): (usize, usize) = (kani::any(), kani::any());
    kani::assume(ma >= 1 && ma < 1000 && ca <= ma && ms < 100_000 && cs <= ms);
    let mut c = LimiterCollection { limiters: vec![
        Box::new(MaxArgsCommandSizeLimiter { current_args: ca, max_args: ma }),
        Box::new(MaxCharsCommandSizeLimiter { current_size: cs, max_chars: ms }),
    ] };
    let (a1, n1) = any_arg(ArgumentKind::SoftTerminated);
    let (a2, n2) = any_arg(ArgumentKind::HardTerminated);
    let r1 = c.try_arg(a1);
    let ok1 = ca < ma && cs + n1 + 1 <= ms;
    assert!(r1.is_ok() == ok1);
    let (ca2, cs2) = if ok1 { (ca + 1, cs + n1 + 1) } else { (ca, cs) };
    let r2 = c.try_arg(a2);
    assert!(r2.is_ok() == (ca2 < ma && cs2 + n2 + 1 <= ms));
    kani::cover!(ok1 && r2.is_err());
    kani::cover!(!ok1 && r2.is_ok());
    kani::cover!(ok1 && r2.is_ok());
    std::mem::forget(r1); std::mem::forget(r2); std::mem::forget(c);
}

// ------------------------------------------------------------------------------------------ C06 system budget
/// execve(2) acceptance for argv/envp sizes (fs/exec.c): strings incl. NULs + 8 bytes per pointer must fit in
/// max(min(rlimit_stack/4, 6 MiB), 128 KiB); glibc's sysconf(_SC_ARG_MAX) = max(rlimit_stack/4, 128 KiB).
fn kernel_accepts(rlim_stack: u64, strings_bytes: u64, nstrings: u64) -> bool {
    let limit = std::cmp::max(std::cmp::min(rlim_stack / 4, 6 * 1024 * 1024), 131072);
    strings_bytes + 8 * nstrings <= limit
}
fn budget_setup() -> (u64, u64, u64, u64, u64, u64) {
    let rlim_stack: u64 = kani::any(); kani::assume(rlim_stack >= 512 * 1024 && rlim_stack <= (1u64 << 40));
    let env_bytes: u64 = kani::any(); let envc: u64 = kani::any();
    kani::assume(envc <= 10_000 && env_bytes >= envc * 2 && env_bytes <= 100_000);
    let arg_max = std::cmp::max(rlim_stack / 4, 131072);
    let budget = arg_max - 2048 - env_bytes; // the formula of new_system (checked against the code by c06_new_system_formula)
    let n: u64 = kani::any(); let b: u64 = kani::any();
    kani::assume(n <= (1u64 << 32) && b <= (1u64 << 40) && b >= n); // n accepted arguments, b bytes in total, each >= 1 byte
    kani::assume(b + n <= budget);                                   // invariant of the limiter after accepting them
    (rlim_stack, env_bytes, envc, budget, n, b)
}

// @harness props=C06 tier=quick cost=10
// @exec MaxCharsCommandSizeLimiter::try_arg, count_osstr_chars_for_exec (one inductive step from a ghost state)
// @sym RLIMIT_STACK 512 KiB..2^40, environment bytes/count, n arguments of b bytes already accepted (full width), one new 1-byte argument
// @bounds one step; budget = sysconf(_SC_ARG_MAX) - 2048 - env bytes as in new_system
// @assume kernel contract quoted from execve(2)/fs/exec.c; glibc _SC_ARG_MAX = max(rlimit_stack/4, 128 KiB)
// @witness rlim_stack:u64 env_bytes:u64 envc:u64 n:u64 b:u64
// @replay system_budget
/// What the system limiter does guarantee: the strings (with terminators) of command line plus environment plus 2048 bytes
/// of headroom fit in sysconf(_SC_ARG_MAX).  (The full kernel predicate is the known-finding twin.)
#[kani::proof]
#[kani::unwind(3)]
#[kani::stub(alloc::fmt::format, fmt_stub)]
#[kani::stub(alloc::raw_vec::handle_error, he_stub)]
#[kani::stub(std::alloc::handle_alloc_error, hae_stub)]
fn c06_system_budget_step() {
    let (rlim_stack, env_bytes, _envc, budget, n, b) = budget_setup();
    let mut l = MaxCharsCommandSizeLimiter { current_size: (b + n) as usize, max_chars: budget as usize };
    let mut tail: [Box<dyn CommandSizeLimiter>; 1] = [Box::new(Tail { accept: true })];
    let r = l.try_arg(Argument { arg: OsString::from("a"), kind: ArgumentKind::HardTerminated }, LimiterCursor { limiters: &mut tail[..] });
    if r.is_ok() {
        let (n2, b2) = (n + 1, b + 1);
        assert!(b2 + n2 + env_bytes + 2048 <= std::cmp::max(rlim_stack / 4, 131072));
    } else {
        assert!(b + n + 2 > budget); // maximal: held back only because it does not fit
    }
    kani::cover!(r.is_ok() && n > 100_000);
    kani::cover!(r.is_err());
    std::mem::forget(r); std::mem::forget(tail);
}
#[kani::proof]
#[kani::unwind(3)]
#[kani::stub(alloc::fmt::format, fmt_stub)]
#[kani::stub(alloc::raw_vec::handle_error, he_stub)]
#[kani::stub(std::alloc::handle_alloc_error, hae_stub)]
fn c06_system_budget_step_canary() {
    let (_rlim_stack, _env_bytes, _envc, budget, n, b) = budget_setup();
    let mut l = MaxCharsCommandSizeLimiter { current_size: (b + n) as usize, max_chars: budget as usize };
    let mut tail: [Box<dyn CommandSizeLimiter>; 1] = [Box::new(Tail { accept: true })];
    let r = l.try_arg(Argument { arg: OsString::from("a"), kind: ArgumentKind::HardTerminated }, LimiterCursor { limiters: &mut tail[..] });
    assert!(r.is_ok()); // "the budget never runs out": must FAIL
    std::mem::forget(r); std::mem::forget(tail);
}
/// Known-finding twin: the full kernel predicate (pointer cost and the 6 MiB cap).
#[kani::proof]
#[kani::unwind(3)]
#[kani::stub(alloc::fmt::format, fmt_stub)]
#[kani::stub(alloc::raw_vec::handle_error, he_stub)]
#[kani::stub(std::alloc::handle_alloc_error, hae_stub)]
fn c06_system_budget_step_kf() {
    let (rlim_stack, env_bytes, envc, budget, n, b) = budget_setup();
    let mut l = MaxCharsCommandSizeLimiter { current_size: (b + n) as usize, max_chars: budget as usize };
    let mut tail: [Box<dyn CommandSizeLimiter>; 1] = [Box::new(Tail { accept: true })];
    let r = l.try_arg(Argument { arg: OsString::from("a"), kind: ArgumentKind::HardTerminated }, LimiterCursor { limiters: &mut tail[..] });
    if r.is_ok() {
        let (n2, b2) = (n + 1, b + 1);
        assert!(kernel_accepts(rlim_stack, b2 + n2 + env_bytes, n2 + envc), "accepted a command line execve rejects");
    }
    std::mem::forget(r); std::mem::forget(tail);
}

// ------------------------------------------------------------------------------------------ C19
fn do_xargs_stub(_a: &[&str]) -> Result<CommandResult, XargsError> {
    match kani::any::<u8>() % 10 {
        0 => Ok(CommandResult::Success),
        1 => Ok(CommandResult::Failure),
        2 => Err(XargsError::CommandExecution(CommandExecutionError::UrgentlyFailed)),
        3 => Err(XargsError::CommandExecution(CommandExecutionError::Killed { signal: kani::any() })),
        4 => Err(XargsError::CommandExecution(CommandExecutionError::NotFound)),
        5 => Err(XargsError::CommandExecution(CommandExecutionError::Unknown)),
        6 => Err(XargsError::ArgumentTooLarge),
        7 => Err(XargsError::CommandExecution(CommandExecutionError::CannotRun(io::Error::from_raw_os_error(13)))),
        8 => Err(XargsError::Io(io::Error::from_raw_os_error(22))),
        _ => Err(XargsError::Untyped(String::new())),
    }
}
static mut LAST_VARIANT: u8 = 0;
fn do_xargs_stub_tagged(a: &[&str]) -> Result<CommandResult, XargsError> {
    let r = do_xargs_stub(a);
    unsafe {
        LAST_VARIANT = match &r {
            Ok(CommandResult::Success) => 0, Ok(CommandResult::Failure) => 1,
            Err(XargsError::CommandExecution(CommandExecutionError::UrgentlyFailed)) => 2,
            Err(XargsError::CommandExecution(CommandExecutionError::Killed { .. })) => 3,
            Err(XargsError::CommandExecution(CommandExecutionError::NotFound)) => 4,
            Err(XargsError::CommandExecution(CommandExecutionError::Unknown)) => 5,
            Err(XargsError::ArgumentTooLarge) => 6,
            Err(XargsError::CommandExecution(CommandExecutionError::CannotRun(_))) => 7,
            Err(XargsError::Io(_)) => 8,
            Err(XargsError::Untyped(_)) => 9,
        };
    }
    r
}

// @harness props=C19 tier=quick cost=15
// @exec xargs_main (the mapping from do_xargs' result to the exit status)
// @sym every variant of Result<CommandResult, XargsError>, any signal number
// @bounds do_xargs replaced by a stub returning an arbitrary variant
// @replay exit_code_map
/// 0 all succeeded; 123 some invocation failed 1..125; 124 exit 255; 125 killed by signal; 126 cannot run; 127 not found; 1 own errors.
#[kani::proof]
#[kani::unwind(3)]
#[kani::stub(alloc::fmt::format, fmt_stub)]
#[kani::stub(do_xargs, do_xargs_stub_tagged)]
#[kani::stub(std::io::_eprint, eprint_stub)]
fn c19_exit_code_map() {
    let code = xargs_main(&["xargs"]);
    let v = unsafe { LAST_VARIANT };
    let want = match v { 0 => 0, 1 => 123, 2 => 124, 3 => 125, 7 => 126, 4 => 127, _ => 1 };
    assert!(code == want);
    kani::cover!(code == 0); kani::cover!(code == 123); kani::cover!(code == 124); kani::cover!(code == 125);
    kani::cover!(code == 126); kani::cover!(code == 127); kani::cover!(code == 1 && v == 6);
}
#[kani::proof]
#[kani::unwind(3)]
#[kani::stub(alloc::fmt::format, fmt_stub)]
#[kani::stub(do_xargs, do_xargs_stub_tagged)]
#[kani::stub(std::io::_eprint, eprint_stub)]
fn c19_exit_code_map_canary() {
    let code = xargs_main(&["xargs"]);
    assert!(code != 125); // must FAIL
}

// @harness props=C19 tier=quick cost=5
// @replay process_input
// @exec CommandResult::combine
// @sym accumulated result and new outcome
// @bounds one step (sticky failure over histories of any length)
/// Once an invocation has failed the accumulated result stays Failure whatever follows.
#[kani::proof]
fn c19_combine_sticky() {
    let acc_fail: bool = kani::any(); let new_fail: bool = kani::any();
    let mut acc = if acc_fail { CommandResult::Failure } else { CommandResult::Success };
    acc.combine(if new_fail { CommandResult::Failure } else { CommandResult::Success });
    assert!(matches!(acc, CommandResult::Failure) == (acc_fail || new_fail));
    kani::cover!(acc_fail && !new_fail);
    kani::cover!(!acc_fail && !new_fail);
}
#[kani::proof]
fn c19_combine_sticky_canary() {
    let acc_fail: bool = kani::any(); let new_fail: bool = kani::any();
    let mut acc = if acc_fail { CommandResult::Failure } else { CommandResult::Success };
    acc.combine(if new_fail { CommandResult::Failure } else { CommandResult::Success });
    assert!(matches!(acc, CommandResult::Failure) == new_fail); // "last one wins": must FAIL
}

static mut WAIT: i32 = 0;
static mut SPAWN_ERR: i32 = 0;
static mut NSTATUS: usize = 0;
fn status_stub(_cmd: &mut Command) -> io::Result<std::process::ExitStatus> {
    use std::os::unix::process::ExitStatusExt;
    unsafe {
        NSTATUS += 1;
        if SPAWN_ERR != 0 { return Err(io::Error::from_raw_os_error(SPAWN_ERR)); }
        Ok(std::process::ExitStatus::from_raw(WAIT))
    }
}

// (c19_classify_child: the thorough-tier harness over the real execute() hit an unwinding assertion in the drop glue of Command's environment map
// and was removed; execute()'s classification is decided at MIR level by mirsym/c20_replace.py explore_execute, run for C19 and C20.)

// ------------------------------------------------------------------------------------------ C05
fn resize_model<T: Clone, A: std::alloc::Allocator>(v: &mut Vec<T, A>, new_len: usize, value: T) {
    if new_len <= v.len() { v.truncate(new_len); }
    else { let target = if new_len > 4 { 4 } else { new_len }; while v.len() < target { v.push(value.clone()); } }
}
fn lossy_model(v: &[u8]) -> std::borrow::Cow<'_, str> { std::borrow::Cow::Borrowed(unsafe { std::str::from_utf8_unchecked(v) }) }

struct Chunked<const N: usize, const C: usize> { data: [u8; N], chunks: [usize; C], k: usize, pos: usize }
impl<const N: usize, const C: usize> Read for Chunked<N, C> {
    fn read(&mut self, buf: &mut [u8]) -> io::Result<usize> {
        if self.pos >= N || self.k >= C { return Ok(0); }
        let n = self.chunks[self.k];
        self.k += 1;
        let mut j = 0;
        while j < n { buf[j] = self.data[self.pos + j]; j += 1; }
        self.pos += n;
        Ok(n)
    }
}
fn in_alphabet(c: u8, wide: bool) -> bool {
    c == b'a' || c == b' ' || c == b'\n' || c == b'\'' || c == b'\\' || c == 0xA0
        || (wide && (c == b'"' || c == b'\t' || c == 0x0B || c == 0x85 || c == 0x0C || c == 0x0D))   // FF and CR: isspace() members that are not separators
}
fn is_sep(c: u8) -> bool { c == b' ' || c == b'\n' || c == b'\t' }

/// Reference tokenizer (the property's wording): up to 2 tokens of at most N bytes.
struct Model<const N: usize> { tok: [[u8; N]; 2], len: [usize; 2], hard: [bool; 2], ntok: usize, err: bool, ambiguous: bool }
fn model<const N: usize>(data: &[u8; N]) -> Model<N> {
    let mut m = Model { tok: [[0; N]; 2], len: [0; 2], hard: [false; 2], ntok: 0, err: false, ambiguous: false };
    let (mut quote, mut slash, mut sawq, mut tn) = (0u8, false, false, 0usize);
    let mut cur = [0u8; N];
    let mut i = 0;
    while i < N {
        let c = data[i];
        if quote != 0 { if c == quote { quote = 0; } else { cur[tn] = c; tn += 1; } }
        else if slash { cur[tn] = c; tn += 1; slash = false; }
        else if c == b'\'' || c == b'"' { quote = c; sawq = true; }
        else if c == b'\\' { slash = true; }
        else if is_sep(c) {
            if tn > 0 {
                if m.ntok < 2 { m.tok[m.ntok] = cur; m.len[m.ntok] = tn; m.hard[m.ntok] = c == b'\n'; }
                m.ntok += 1; tn = 0; sawq = false;
            } else if sawq { m.ambiguous = true; } // '' as a whole token: the property takes no position
        }
        else { cur[tn] = c; tn += 1; }
        i += 1;
    }
    if quote != 0 { m.err = true; }
    else if tn > 0 { if m.ntok < 2 { m.tok[m.ntok] = cur; m.len[m.ntok] = tn; m.hard[m.ntok] = false; } m.ntok += 1; }
    else if sawq { m.ambiguous = true; }
    m
}

fn run_ws<const N: usize, const C: usize>(chunks: [usize; C], wide: bool, calls: usize, canary: bool) {
    let data: [u8; N] = kani::any();
    let mut i = 0;
    while i < N { kani::assume(in_alphabet(data[i], wide)); i += 1; }
    let m = model(&data);
    kani::assume(!m.ambiguous);
    // an error is only guaranteed to surface once the reader reaches the unterminated quote: restrict multi-call runs
    let mut rd = WhitespaceDelimitedArgumentReader::new(Chunked::<N, C> { data, chunks, k: 0, pos: 0 });
    let mut k = 0;
    let mut done = false;
    while k < calls {
        if !done {
            let r = rd.next();
            if canary {
                // wrong on purpose: "every input yields an argument"
                if k == 0 { assert!(matches!(r, Ok(Some(_)))); }
                std::mem::forget(r);
                std::mem::forget(rd);
                return;
            }
            match &r {
                Ok(Some(a)) => {
                    assert!(k < m.ntok, "argument that is not in the input");
                    let bytes = a.arg.as_encoded_bytes();
                    assert!(bytes.len() == m.len[k]);
                    let mut j = 0;
                    while j < N { if j < m.len[k] { assert!(bytes[j] == m.tok[k][j]); } j += 1; }
                    assert!((a.kind == ArgumentKind::HardTerminated) == m.hard[k]);
                    assert!(a.kind != ArgumentKind::Initial);
                }
                Ok(None) => { assert!(k == m.ntok && !m.err); done = true; }
                Err(_) => { assert!(m.err); done = true; }
            }
            std::mem::forget(r);
        }
        k += 1;
    }
    kani::cover!(m.err);
    kani::cover!(m.ntok == 0 && !m.err);
    kani::cover!(m.ntok == 1 && !m.err);
    std::mem::forget(rd);
}

macro_rules! ws_harness {
    ($name:ident, $canary:ident, $n:expr, $c:expr, $chunks:expr, $wide:expr, $calls:expr, $unwind:expr) => {
        #[kani::proof]
        #[kani::unwind($unwind)]
        #[kani::stub(std::vec::Vec::resize, resize_model)]
        #[kani::stub(alloc::fmt::format, fmt_stub)]
        #[kani::stub(std::string::String::from_utf8_lossy, lossy_model)]
        #[kani::stub(alloc::raw_vec::handle_error, he_stub)]
        #[kani::stub(std::alloc::handle_alloc_error, hae_stub)]
        fn $name() { run_ws::<$n, $c>($chunks, $wide, $calls, false); }
        #[kani::proof]
        #[kani::unwind($unwind)]
        #[kani::stub(std::vec::Vec::resize, resize_model)]
        #[kani::stub(alloc::fmt::format, fmt_stub)]
        #[kani::stub(std::string::String::from_utf8_lossy, lossy_model)]
        #[kani::stub(alloc::raw_vec::handle_error, he_stub)]
        #[kani::stub(std::alloc::handle_alloc_error, hae_stub)]
        fn $canary() { run_ws::<$n, $c>($chunks, $wide, $calls, true); }
    };
}

// @harness props=C05 tier=quick cost=30 flags=nomem
// @exec WhitespaceDelimitedArgumentReader::{new,next} — first call and the call after it
// @sym 1 input byte over {letter, blank, newline, ', \, 0xA0}
// @bounds input of 1 byte delivered by one read(); Vec::resize(4096) capped at 4 bytes; from_utf8_lossy = identity (bytes compared raw)
// @replay ws_reader
// leading/trailing/lone separators give no argument; a lone quote is an error; a lone backslash gives nothing
ws_harness!(c05_ws_len1, c05_ws_len1_canary, 1, 1, [1], false, 2, 6);
// @harness props=C05 tier=quick cost=120 flags=nomem
// @exec WhitespaceDelimitedArgumentReader::{new,next} — two calls
// @sym 2 input bytes over the 6-letter alphabet, one read() of 2 bytes
// @bounds input of 2 bytes, chunking [2]; same cuts as c05_ws_len1
// @replay ws_reader
ws_harness!(c05_ws_len2, c05_ws_len2_canary, 2, 1, [2], false, 2, 6);
// @harness props=C05 tier=quick cost=120 flags=nomem
// @exec WhitespaceDelimitedArgumentReader::{new,next} — two calls
// @sym 2 input bytes over the 6-letter alphabet, delivered as two 1-byte read() results
// @bounds input of 2 bytes, chunking [1,1] (cut after a backslash, inside a quote, between separators); same oracle as [2] => chunk independence
// @replay ws_reader
ws_harness!(c05_ws_len2_split11, c05_ws_len2_split11_canary, 2, 2, [1, 1], false, 2, 6);
// @harness props=C05 tier=thorough cost=900 flags=nomem
// @exec WhitespaceDelimitedArgumentReader::{new,next} — two calls
// @sym 3 input bytes over the 10-letter alphabet (adds ", tab, VT, 0x85), one read()
// @bounds input of 3 bytes, chunking [3]
ws_harness!(c05_ws_len3, c05_ws_len3_canary, 3, 1, [3], true, 2, 7);
// @harness props=C05 tier=thorough cost=900 flags=nomem
// @exec WhitespaceDelimitedArgumentReader::{new,next} — two calls
// @sym 3 input bytes, 6-letter alphabet, chunking [1,2]
// @bounds input of 3 bytes
ws_harness!(c05_ws_len3_split12, c05_ws_len3_split12_canary, 3, 2, [1, 2], false, 2, 7);
// (c05_ws_len3_split21 exhausted 24 GiB in the thorough tier and was removed; every chunking of 1..5 bytes is covered by mirsym c05_readers)
// (c05_ws_len3_split111 exhausted 24 GiB in the thorough tier and was removed; every chunking of 1..5 bytes is covered by mirsym c05_readers)
// @harness props=C05 tier=quick cost=200 flags=nomem
// @exec WhitespaceDelimitedArgumentReader::{new,next} — two calls
// @sym 2 input bytes over the 12-letter alphabet (adds ", tab, VT, 0x85, FF, CR), one read()
// @bounds input of 2 bytes, chunking [2]
ws_harness!(c05_ws_len2_wide, c05_ws_len2_wide_canary, 2, 1, [2], true, 2, 6);

// @harness props=C05,C11 tier=quick cost=20
// @exec parse_delimiter
// @sym operand of 1..3 symbolic ASCII bytes
// @bounds operand length <= 3
/// -d: total (no panic on short \x / \0 forms); a single non-backslash byte is that byte; longer non-escapes are rejected.
#[kani::proof]
#[kani::unwind(5)]
#[kani::stub(alloc::fmt::format, fmt_stub)]
#[kani::stub(alloc::raw_vec::handle_error, he_stub)]
#[kani::stub(std::alloc::handle_alloc_error, hae_stub)]
fn c05_parse_delimiter() {
    let b: [u8; 3] = kani::any();
    kani::assume(b[0] < 0x80 && b[1] < 0x80 && b[2] < 0x80);
    let len: usize = kani::any();
    kani::assume(len >= 1 && len <= 3);
    let s = unsafe { std::str::from_utf8_unchecked(&b[..len]) };
    let r = parse_delimiter(s);
    if b[0] != b'\\' {
        match &r { Ok(v) => assert!(len == 1 && *v == b[0]), Err(_) => assert!(len > 1) }
    } else if len == 2 && b[1] != b'x' && b[1] != b'0' {
        let want: Option<u8> = match b[1] { b'a' => Some(7), b'b' => Some(8), b'f' => Some(12), b'n' => Some(10), b'r' => Some(13), b't' => Some(9), b'v' => Some(11), b'\\' => Some(b'\\'), _ => None };
        match &r { Ok(v) => assert!(want == Some(*v)), Err(_) => assert!(want.is_none()) }
    }
    kani::cover!(r.is_ok() && len == 1);
    kani::cover!(r.is_ok() && len == 2);
    kani::cover!(r.is_err() && len == 1);
    std::mem::forget(r);
}
#[kani::proof]
#[kani::unwind(5)]
#[kani::stub(alloc::fmt::format, fmt_stub)]
#[kani::stub(alloc::raw_vec::handle_error, he_stub)]
#[kani::stub(std::alloc::handle_alloc_error, hae_stub)]
fn c05_parse_delimiter_canary() {
    let b: [u8; 2] = kani::any();
    kani::assume(b[0] < 0x80 && b[1] < 0x80);
    let s = unsafe { std::str::from_utf8_unchecked(&b[..]) };
    let r = parse_delimiter(s);
    assert!(r.is_err()); // "\n" is accepted: must FAIL
    std::mem::forget(r);
}

// ------------------------------------------------------------------------------------------ process_input protocol
// The batching loop with the limiter verdicts abstracted: CommandBuilder::{new,add_arg,execute} are replaced by
// recorders whose verdicts/outcomes are symbolic scripts.  What the limiters answer is covered by the step harnesses;
// what process_input does with their answers is covered here.
const PI_MAXARGS: usize = 3;
const PI_MAXEXEC: usize = 5;
static mut PI_NBUILDERS: usize = 0;
static mut PI_NADD: usize = 0;                       // add_arg calls so far
static mut PI_REJECT: [bool; 6] = [false; 6];        // verdict script per add_arg call
static mut PI_REJECT_CHARS: [bool; 6] = [false; 6];  // out_of_chars flag of that rejection
static mut PI_NEXEC: usize = 0;
static mut PI_OUTCOME: [u8; PI_MAXEXEC] = [0; PI_MAXEXEC];   // 0 ok, 1 failure, 2 urgent(255), 3 killed, 4 not found, 5 cannot run
static mut PI_BATCH_LEN: [usize; PI_MAXEXEC] = [0; PI_MAXEXEC];
static mut PI_BATCH: [[u8; PI_MAXARGS]; PI_MAXEXEC] = [[0; PI_MAXARGS]; PI_MAXEXEC];

fn pi_new_stub<'a>(options: &'a CommandBuilderOptions) -> CommandBuilder<'a> where 'a: 'a {
    unsafe { PI_NBUILDERS += 1; PI_CUR_LEN = 0; }
    CommandBuilder { options, extra_args: Vec::new(), limiters: LimiterCollection { limiters: Vec::new() } }
}
fn pi_add_arg_stub<'a>(_this: &mut CommandBuilder<'a>, arg: Argument) -> Result<(), ExhaustedCommandSpace> where 'a: 'a {
    unsafe {
        let k = PI_NADD; PI_NADD += 1;
        if k < 6 && PI_REJECT[k] { return Err(ExhaustedCommandSpace { arg, out_of_chars: PI_REJECT_CHARS[k] }); }
        // the argument on offer is always the one read last
        if PI_CUR_LEN < PI_MAXARGS { PI_CUR[PI_CUR_LEN] = b'0' + (PI_READS - 1) as u8; }
        PI_CUR_LEN += 1;
    }
    std::mem::forget(arg);
    Ok(())
}
fn pi_execute_stub<'a>(this: CommandBuilder<'a>) -> Result<CommandResult, CommandExecutionError> where 'a: 'a {
    unsafe {
        let b = PI_NEXEC; PI_NEXEC += 1;
        let o = if b < PI_MAXEXEC { PI_BATCH_LEN[b] = PI_CUR_LEN; PI_BATCH[b] = PI_CUR; PI_OUTCOME[b] } else { 0 };
        std::mem::forget(this);
        match o {
            0 => Ok(CommandResult::Success),
            1 => Ok(CommandResult::Failure),
            2 => Err(CommandExecutionError::UrgentlyFailed),
            3 => Err(CommandExecutionError::Killed { signal: 9 }),
            4 => Err(CommandExecutionError::NotFound),
            _ => Err(CommandExecutionError::Unknown),
        }
    }
}
static mut PI_CUR: [u8; PI_MAXARGS] = [0; PI_MAXARGS];   // appended arguments of the builder under construction (ids)
static mut PI_CUR_LEN: usize = 0;
static mut PI_READS: usize = 0;
static mut PI_N: usize = 0;
static mut PI_HARD: [bool; PI_MAXARGS] = [false; PI_MAXARGS];
struct IdReader { _pad: u8 }
impl ArgumentReader for IdReader {
    fn next(&mut self) -> io::Result<Option<Argument>> {
        unsafe {
            if PI_READS >= PI_MAXARGS || PI_READS >= PI_N { return Ok(None); }
            let i = PI_READS; PI_READS += 1;
            Ok(Some(Argument { arg: OsString::new(), kind: if PI_HARD[i] { ArgumentKind::HardTerminated } else { ArgumentKind::SoftTerminated } }))
        }
    }
}

fn run_process_input(canary: bool) {
    let n: usize = kani::any(); kani::assume(n <= PI_MAXARGS);
    unsafe {
        PI_N = n; PI_HARD = kani::any(); PI_READS = 0; PI_CUR_LEN = 0;
        PI_NBUILDERS = 0; PI_NADD = 0; PI_NEXEC = 0;
        PI_REJECT = kani::any(); PI_REJECT_CHARS = kani::any();
        PI_OUTCOME = kani::any();
        kani::assume(PI_OUTCOME[0] < 5 && PI_OUTCOME[1] < 5 && PI_OUTCOME[2] < 5 && PI_OUTCOME[3] < 5 && PI_OUTCOME[4] < 5);
        PI_BATCH_LEN = [0; PI_MAXEXEC];
    }
    let exit_x: bool = kani::any();
    let have_n: bool = kani::any(); let have_l: bool = kani::any();
    let no_run_if_empty: bool = kani::any();
    let env: HashMap<OsString, OsString> = HashMap::new();
    let bo = CommandBuilderOptions { action: ExecAction::Echo, env, limiters: LimiterCollection { limiters: Vec::new() }, verbose: false, close_stdin: false, replace: None };
    let opts = InputProcessOptions::new(exit_x, if have_n { Some(1) } else { None }, if have_l { Some(1) } else { None }, no_run_if_empty);
    let r = process_input(&bo, Box::new(IdReader { _pad: 0 }), &opts);

    // ---- reference protocol, straight from the property ----
    // walk the arguments; k = index of the next add_arg verdict
    let (mut k, mut nexec) = (0usize, 0usize);
    let mut cur_len = 0usize;                  // appended arguments in the invocation under construction
    let mut want: [[u8; PI_MAXARGS]; PI_MAXEXEC] = [[0; PI_MAXARGS]; PI_MAXEXEC];
    let mut want_len = [0usize; PI_MAXEXEC];
    let mut cur = [0u8; PI_MAXARGS];
    let mut pending = false;
    let mut failed = false;
    let mut fatal: u8 = 0;       // 0 none, 2.. = outcome code that stopped the run
    let mut too_large = false;
    let mut i = 0;
    unsafe {
        while i < PI_MAXARGS {
            if i < n && fatal == 0 && !too_large {
                let id = b'0' + i as u8;
                let rej = PI_REJECT[k]; let rej_chars = PI_REJECT_CHARS[k]; k += 1;
                if rej {
                    if rej_chars && exit_x && (have_n || have_l) { too_large = true; }
                    else {
                        if pending {
                            // flush what we have
                            want[nexec] = cur; want_len[nexec] = cur_len;
                            let o = PI_OUTCOME[nexec]; nexec += 1;
                            if o == 1 { failed = true; } else if o >= 2 { fatal = o; }
                        }
                        if fatal == 0 {
                            cur_len = 0;
                            let rej2 = PI_REJECT[k]; k += 1;
                            if rej2 { too_large = true; } else { cur[0] = id; cur_len = 1; pending = true; }
                        }
                    }
                } else { cur[cur_len] = id; cur_len += 1; pending = true; }
            }
            i += 1;
        }
        if fatal == 0 && !too_large && (!no_run_if_empty || pending) {
            want[nexec] = cur; want_len[nexec] = cur_len;
            let o = PI_OUTCOME[nexec]; nexec += 1;
            if o == 1 { failed = true; } else if o >= 2 { fatal = o; }
        }
        if canary {
            // wrong on purpose: "a failing invocation stops the run"
            if failed { assert!(PI_NEXEC == 1); }
            std::mem::forget(r); std::mem::forget(bo);
            return;
        }
        // ---- compare ----
        assert!(PI_NEXEC == nexec, "number of invocations");
        let mut b = 0;
        while b < PI_MAXEXEC {
            if b < nexec {
                assert!(PI_BATCH_LEN[b] == want_len[b], "batch size");
                let mut j = 0;
                while j < PI_MAXARGS { if j < want_len[b] { assert!(PI_BATCH[b][j] == want[b][j], "batch content / order"); } j += 1; }
            }
            b += 1;
        }
        // direct statement of "lossless, order-preserving, nothing merged or split"
        if r.is_ok() {
            let mut seq = 0usize; let mut b = 0;
            while b < PI_MAXEXEC {
                if b < PI_NEXEC {
                    let mut j = 0;
                    while j < PI_MAXARGS { if j < PI_BATCH_LEN[b] { assert!(PI_BATCH[b][j] == b'0' + seq as u8); seq += 1; } j += 1; }
                    if n > 0 { assert!(PI_BATCH_LEN[b] >= 1, "an invocation without appended arguments"); }
                }
                b += 1;
            }
            assert!(seq == n, "an input argument was lost or duplicated");
        }
        match &r {
            Ok(CommandResult::Success) => assert!(fatal == 0 && !too_large && !failed),
            Ok(CommandResult::Failure) => assert!(fatal == 0 && !too_large && failed),
            Err(XargsError::ArgumentTooLarge) => assert!(too_large),
            Err(XargsError::CommandExecution(CommandExecutionError::UrgentlyFailed)) => assert!(fatal == 2),
            Err(XargsError::CommandExecution(CommandExecutionError::Killed { .. })) => assert!(fatal == 3),
            Err(XargsError::CommandExecution(CommandExecutionError::NotFound)) => assert!(fatal == 4),
            Err(_) => assert!(false),
        }
        kani::cover!(nexec == 3 && failed && fatal == 0);
        kani::cover!(too_large && nexec == 1);
        kani::cover!(fatal == 2 && nexec == 2 && n == 3);
        kani::cover!(n == 0 && nexec == 1);
        kani::cover!(n == 0 && nexec == 0);
        kani::cover!(nexec == 2 && want_len[0] == 2 && want_len[1] == 1);
    }
    std::mem::forget(r); std::mem::forget(bo);
}

// @harness props=C04,C19,C20 tier=quick cost=300 flags=nomem
// @exec process_input (the whole batching loop), CommandResult::combine, XargsError::from
// @sym 0..3 input arguments (any line structure); the verdict of every add_arg call (accept / reject, out_of_chars or not); the outcome of every invocation (success, failure 1..125, exit 255, killed, not found); -x, -n/-L present, -r
// @bounds at most 3 input arguments, 6 add_arg calls, 5 invocations; CommandBuilder::{new,add_arg,execute} replaced by recorders with symbolic verdicts/outcomes (the limiters' own answers are covered by c04_limiter_step_*, c04_chain_*)
// @replay process_input
/// Given any sequence of limiter verdicts: the executed batches, concatenated, are the input in order (nothing lost, duplicated
/// or reordered); a batch is flushed only when the next argument was rejected, which is then retried in a fresh invocation and
/// is "too large" if rejected again; -x with -n/-L makes a -s overflow fatal; empty input runs once unless -r; the run stops at the
/// first invocation that exits 255 / is killed / cannot be found, failures 1..125 are sticky, and the result is the documented one.
#[kani::proof]
#[kani::unwind(7)]
#[kani::stub(CommandBuilder::new, pi_new_stub)]
#[kani::stub(CommandBuilder::add_arg, pi_add_arg_stub)]
#[kani::stub(CommandBuilder::execute, pi_execute_stub)]
#[kani::stub(alloc::fmt::format, fmt_stub)]
#[kani::stub(std::hash::RandomState::new, keys_stub)]
#[kani::stub(alloc::raw_vec::handle_error, he_stub)]
#[kani::stub(std::alloc::handle_alloc_error, hae_stub)]
fn c04_process_input_protocol() { run_process_input(false); }
#[kani::proof]
#[kani::unwind(7)]
#[kani::stub(CommandBuilder::new, pi_new_stub)]
#[kani::stub(CommandBuilder::add_arg, pi_add_arg_stub)]
#[kani::stub(CommandBuilder::execute, pi_execute_stub)]
#[kani::stub(alloc::fmt::format, fmt_stub)]
#[kani::stub(std::hash::RandomState::new, keys_stub)]
#[kani::stub(alloc::raw_vec::handle_error, he_stub)]
#[kani::stub(std::alloc::handle_alloc_error, hae_stub)]
fn c04_process_input_protocol_canary() { run_process_input(true); }


// ------------------------------------------------------------------------------------------ C04 initial arguments
// @harness props=C04 tier=quick cost=40 flags=nomem
// @replay initial_args
// @exec CommandBuilderOptions::new (the command and its initial arguments are charged to the limiters before any input), LimiterCollection::try_arg
// @sym -s limit (0..1000); command "cm" with one initial argument "i"; a probing argument of 1..3 bytes afterwards
// @bounds fixed command of two words (3 + 2 bytes incl. terminators); one -s limiter
/// Every invocation starts with the command and initial arguments counted against -s: construction fails iff they alone do not
/// fit, and afterwards an appended argument is admitted iff command + initial arguments + it (each + 1) fit.
#[kani::proof]
#[kani::unwind(5)]
#[kani::stub(alloc::fmt::format, fmt_stub)]
#[kani::stub(std::hash::RandomState::new, keys_stub)]
#[kani::stub(alloc::raw_vec::handle_error, he_stub)]
#[kani::stub(std::alloc::handle_alloc_error, hae_stub)]
fn c04_initial_args_charged() {
    let max: usize = kani::any();
    kani::assume(max < 1000);
    let limiters = LimiterCollection { limiters: vec![Box::new(MaxCharsCommandSizeLimiter { current_size: 0, max_chars: max })] };
    let env: HashMap<OsString, OsString> = HashMap::new();
    let action = ExecAction::Command(vec![OsString::from("cm"), OsString::from("i")]);
    let base = 3 + 2;
    match CommandBuilderOptions::new(action, env, limiters, None) {
        Ok(mut bo) => {
            assert!(base <= max);
            let (arg, n) = any_arg(ArgumentKind::SoftTerminated);
            let r = bo.limiters.try_arg(arg);
            assert!(r.is_ok() == (base + n + 1 <= max));
            kani::cover!(r.is_err());
            kani::cover!(r.is_ok() && base + n + 1 == max);
            std::mem::forget(r); std::mem::forget(bo);
        }
        Err(e) => { assert!(base > max); std::mem::forget(e); }
    }
}
#[kani::proof]
#[kani::unwind(5)]
#[kani::stub(alloc::fmt::format, fmt_stub)]
#[kani::stub(std::hash::RandomState::new, keys_stub)]
#[kani::stub(alloc::raw_vec::handle_error, he_stub)]
#[kani::stub(std::alloc::handle_alloc_error, hae_stub)]
fn c04_initial_args_charged_canary() {
    let max: usize = kani::any();
    kani::assume(max < 1000);
    let limiters = LimiterCollection { limiters: vec![Box::new(MaxCharsCommandSizeLimiter { current_size: 0, max_chars: max })] };
    let env: HashMap<OsString, OsString> = HashMap::new();
    let action = ExecAction::Command(vec![OsString::from("cm"), OsString::from("i")]);
    let r = CommandBuilderOptions::new(action, env, limiters, None);
    assert!(r.is_ok() == (2 <= max)); // only the initial argument counted: must FAIL
    std::mem::forget(r);
}

// ------------------------------------------------------------------------------------------ C06 the system budget formula
static mut SC_ARG_MAX_VAL: i64 = 0;
fn sysconf_stub(_name: i32) -> i64 { unsafe { SC_ARG_MAX_VAL } }
// @harness props=C06 tier=quick cost=400 flags=nomem
// @exec MaxCharsCommandSizeLimiter::new_system (budget = sysconf(_SC_ARG_MAX) - 2048 - environment strings)
// @sym sysconf(_SC_ARG_MAX) in 2052..2^40 (only ARG_MAX minus the environment size matters: small values stand for an environment that nearly fills the kernel's budget); environment: empty or one variable "A=b"
// @bounds environment of 0 or 1 variable (HashMap iteration); sysconf replaced by a symbolic value
/// The budget handed to the system limiter is exactly ARG_MAX - 2048 - sum(len(name)+1 + len(value)+1): ties the copy of the
/// formula used in c06_system_budget_step to the code.
#[kani::proof]
#[kani::unwind(9)]
#[kani::stub(alloc::fmt::format, fmt_stub)]
#[kani::stub(std::hash::RandomState::new, keys_stub)]
#[kani::stub(alloc::raw_vec::handle_error, he_stub)]
#[kani::stub(std::alloc::handle_alloc_error, hae_stub)]
#[kani::stub(uucore::libc::sysconf, sysconf_stub)]
fn c06_new_system_formula() {
    let arg_max: i64 = kani::any();
    // the budget depends only on ARG_MAX - environment: small ARG_MAX values stand for a huge environment
    kani::assume(arg_max >= 2048 + 4 && arg_max <= (1i64 << 40));
    unsafe { SC_ARG_MAX_VAL = arg_max; }
    let mut env: HashMap<OsString, OsString> = HashMap::new();
    let one: bool = kani::any();
    if one { env.insert(OsString::from("A"), OsString::from("b")); }
    let l = MaxCharsCommandSizeLimiter::new_system(&env);
    let env_size: usize = if one { 4 } else { 0 };
    assert!(l.max_chars == arg_max as usize - 2048 - env_size);
    assert!(l.current_size == 0);
    kani::cover!(one);
    kani::cover!(!one && arg_max == 131072);
    kani::cover!(l.max_chars < 4096);
    std::mem::forget(env);
}
#[kani::proof]
#[kani::unwind(9)]
#[kani::stub(alloc::fmt::format, fmt_stub)]
#[kani::stub(std::hash::RandomState::new, keys_stub)]
#[kani::stub(alloc::raw_vec::handle_error, he_stub)]
#[kani::stub(std::alloc::handle_alloc_error, hae_stub)]
#[kani::stub(uucore::libc::sysconf, sysconf_stub)]
fn c06_new_system_formula_canary() {
    let arg_max: i64 = kani::any();
    kani::assume(arg_max >= 131072 && arg_max <= (1i64 << 40));
    unsafe { SC_ARG_MAX_VAL = arg_max; }
    let env: HashMap<OsString, OsString> = HashMap::new();
    let l = MaxCharsCommandSizeLimiter::new_system(&env);
    assert!(l.max_chars == arg_max as usize); // no headroom: must FAIL
    std::mem::forget(env);
}
