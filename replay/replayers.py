"""Native replayers: turn a solver witness into a run of the real find/xargs binaries.

Each replayer takes (witness, repo) and returns (reproduced, detail):
  True  - the property violation shows with the real binaries,
  False - the witness does not reproduce (the encoding or a stub is suspect),
  None  - this witness cannot be materialised natively (stated why).
"""
import os, shutil, subprocess, tempfile, stat, time

_built = {}


def build(repo):
    if repo not in _built:
        p = subprocess.run(["cargo", "build", "--offline", "--quiet"], cwd=repo, capture_output=True, text=True,
                           env=dict(os.environ, CARGO_NET_OFFLINE="true"))
        _built[repo] = p.returncode == 0
    return _built[repo]


def find_bin(repo):
    return os.path.join(repo, "target", "debug", "find")


def xargs_bin(repo):
    return os.path.join(repo, "target", "debug", "xargs")


def run(cmd, cwd=None, inp=None, timeout=60, env=None):
    p = subprocess.run(cmd, cwd=cwd, input=inp, capture_output=True, timeout=timeout, env=env)
    return p.returncode, p.stdout, p.stderr


TYPES = {"u8": 1, "bool": 1, "u32": 4, "i32": 4, "u64": 8, "i64": 8, "usize": 8}
STAT12 = ["mode", "ino", "nlink", "uid", "gid", "size", "mtime", "mtime_nsec", "atime", "atime_nsec", "ctime", "ctime_nsec"]


def decode(witness):
    """witness_schema 'name:type ...' + concrete_vals (in kani::any() call order) -> dict."""
    vals = [v["le_uint"] for v in witness.get("concrete_vals", [])]
    out, i = {}, 0
    for item in (witness.get("witness_schema") or "").split():
        name, ty = item.split(":")
        if ty == "stat12":
            rec = {}
            for f in STAT12:
                rec[f] = vals[i] if i < len(vals) else 0
                i += 1
            out[name] = rec
        else:
            out[name] = vals[i] if i < len(vals) else 0
            i += 1
    return out


class Sandbox:
    def __enter__(self):
        self.d = tempfile.mkdtemp(prefix="fu-replay-")
        return self.d

    def __exit__(self, *a):
        subprocess.run(["chmod", "-R", "u+rwx", self.d], capture_output=True)
        shutil.rmtree(self.d, ignore_errors=True)


# ------------------------------------------------------------------------------------------ C02
def walk_config(w, repo):
    v = decode(w)
    if not build(repo):
        return None, "build failed"
    mn, mx = v.get("min_depth", 0), v.get("max_depth", 0)
    if "mindepth > maxdepth" not in (w.get("failing") or "") or mn <= mx:
        return None, "the failing assertion concerns the WalkDir builder calls, which have no CLI observable of their own"
    with Sandbox() as d:
        os.makedirs(os.path.join(d, "t/a/b/c"))
        rc, out, err = run([find_bin(repo), "t", "-mindepth", str(mn), "-maxdepth", str(mx)], cwd=d)
        if out.strip():
            return True, "find t -mindepth %d -maxdepth %d printed %r (expected nothing)" % (mn, mx, out.decode()[:80])
        # the solver's numbers may lie beyond the tree's depth: retry with the same order relation at small values
        rc, out, err = run([find_bin(repo), "t", "-mindepth", "3", "-maxdepth", "1"], cwd=d)
        if out.strip():
            return True, "find t -mindepth 3 -maxdepth 1 printed %r (expected nothing)" % out.decode()[:80]
        return False, "no output for an empty depth range"
