// C01: evaluation of a given expression tree — the inductive step for And / Or / List / Not nodes.
use super::*;
use crate::find::matchers::entry::verif_kani::{fmt_stub, hae_stub, he_stub, Deps};
use crate::find::matchers::Follow;

pub static mut TRACE: [u8; 8] = [0; 8];
pub static mut TN: usize = 0;
pub static mut FIN: [u8; 8] = [0; 8];
pub static mut FN: usize = 0;
pub static mut FDIR: [u8; 8] = [0; 8];
pub static mut FDN: usize = 0;

/// Leaf with a symbolic (but fixed) result, optional quit, optional "is an action"; logs its id on every callback.
pub struct Probe { pub id: u8, pub result: bool, pub quits: bool, pub action: bool }
impl Matcher for Probe {
    fn matches(&self, _: &WalkEntry, io: &mut MatcherIO) -> bool {
        unsafe { if TN < 8 { TRACE[TN] = self.id; } TN += 1; }
        if self.quits { io.quit(); }
        self.result
    }
    fn has_side_effects(&self) -> bool { self.action }
    fn finished_dir(&self, _d: &Path, _io: &mut MatcherIO) { unsafe { if FDN < 8 { FDIR[FDN] = self.id; } FDN += 1; } }
    fn finished(&self, _io: &mut MatcherIO) { unsafe { if FN < 8 { FIN[FN] = self.id; } FN += 1; } }
}

macro_rules! step_harness {
    ($name:ident, $canary:ident, $kind:expr, $k:expr, $unwind:expr) => {
        #[kani::proof]
        #[kani::unwind($unwind)]
        #[kani::stub(alloc::fmt::format, fmt_stub)]
        #[kani::stub(alloc::raw_vec::handle_error, he_stub)]
        #[kani::stub(std::alloc::handle_alloc_error, hae_stub)]
        fn $name() { run_step::<$k>($kind, false); }
        #[kani::proof]
        #[kani::unwind($unwind)]
        #[kani::stub(alloc::fmt::format, fmt_stub)]
        #[kani::stub(alloc::raw_vec::handle_error, he_stub)]
        #[kani::stub(std::alloc::handle_alloc_error, hae_stub)]
        fn $canary() { run_step::<$k>($kind, true); }
    };
}

/// kind: 0 = And, 1 = Or, 2 = List.  K children, each an arbitrary leaf.
fn run_step<const K: usize>(kind: u8, canary: bool) {
    let mut res = [false; K]; let mut quits = [false; K]; let mut acts = [false; K];
    let mut i = 0;
    while i < K { res[i] = kani::any(); quits[i] = kani::any(); acts[i] = kani::any(); i += 1; }
    let mut kids: Vec<Box<dyn Matcher>> = Vec::with_capacity(K);
    let mut i = 0;
    while i < K { kids.push(Box::new(Probe { id: i as u8 + 1, result: res[i], quits: quits[i], action: acts[i] })); i += 1; }
    let deps = Deps::new();
    let mut io = MatcherIO::new(&deps);
    let entry = WalkEntry::new("a", 0, Follow::Never);
    unsafe { TN = 0; FN = 0; FDN = 0; }
    let (got, side) = match kind {
        0 => { let m = AndMatcher::new(kids); let r = (m.matches(&entry, &mut io), m.has_side_effects()); m.finished_dir(Path::new("d"), &mut io); m.finished(&mut io); std::mem::forget(m); r }
        1 => { let m = OrMatcher::new(kids); let r = (m.matches(&entry, &mut io), m.has_side_effects()); m.finished_dir(Path::new("d"), &mut io); m.finished(&mut io); std::mem::forget(m); r }
        _ => { let m = ListMatcher::new(kids); let r = (m.matches(&entry, &mut io), m.has_side_effects()); m.finished_dir(Path::new("d"), &mut io); m.finished(&mut io); std::mem::forget(m); r }
    };
    // reference evaluation
    let mut n = 0usize; let mut quit = false; let mut val = kind == 0; let mut stop = false;
    let mut any_act = false;
    let mut i = 0;
    while i < K {
        any_act = any_act || acts[i];
        if !stop {
            n += 1;
            if quits[i] { quit = true; }
            match kind {
                0 => { if !res[i] { val = false; stop = true; } }
                1 => { if res[i] { val = true; stop = true; } }
                _ => { val = res[i]; }
            }
            if quit { stop = true; }
        }
        i += 1;
    }
    if canary {
        // wrong on purpose: no short-circuit, every child evaluated
        unsafe { assert!(TN == K); }
        std::mem::forget(entry);
        return;
    }
    unsafe {
        assert!(TN == n);
        let mut k = 0; while k < K { if k < n { assert!(TRACE[k] == k as u8 + 1); } k += 1; }
        // finished / finished_dir reach every child once, in order
        assert!(FN == K && FDN == K);
        let mut k = 0; while k < K { assert!(FIN[k] == k as u8 + 1 && FDIR[k] == k as u8 + 1); k += 1; }
    }
    assert!(io.should_quit() == quit);
    if !quit { assert!(got == val); }
    assert!(side == any_act);
    kani::cover!(kind == 2 || (n < K && !quit));
    kani::cover!(quit && n < K);
    kani::cover!(n == K && got);
    std::mem::forget(entry);
}

// @harness props=C01 tier=quick cost=15
// @exec AndMatcher::{new,matches,has_side_effects,finished,finished_dir}
// @sym 3 children, each an arbitrary leaf: result, "evaluates -quit", "is an action"
// @bounds node with 3 children (thorough: 4); children arbitrary, so the step covers trees of any depth given the tree
// -a: left to right, stops after the first false child or after a child quit; value = conjunction; action flag = any child.
step_harness!(c01_step_and, c01_step_and_canary, 0, 3, 5);
// @harness props=C01 tier=quick cost=15
// @exec OrMatcher::{new,matches,has_side_effects,finished,finished_dir}
// @sym 3 arbitrary leaves
// @bounds node with 3 children
// -o: left to right, stops after the first true child or after a child quit.
step_harness!(c01_step_or, c01_step_or_canary, 1, 3, 5);
// @harness props=C01 tier=quick cost=15
// @exec ListMatcher::{new,matches,has_side_effects,finished,finished_dir}
// @sym 3 arbitrary leaves
// @bounds node with 3 children
// ',': evaluates every child (unless a child quit), yields the last value.
step_harness!(c01_step_list, c01_step_list_canary, 2, 3, 5);
// @harness props=C01 tier=thorough cost=40
// @exec AndMatcher (4 children)
// @sym 4 arbitrary leaves
// @bounds node with 4 children
step_harness!(c01_step_and4, c01_step_and4_canary, 0, 4, 6);
// @harness props=C01 tier=thorough cost=40
// @exec OrMatcher (4 children)
// @sym 4 arbitrary leaves
// @bounds node with 4 children
step_harness!(c01_step_or4, c01_step_or4_canary, 1, 4, 6);
// @harness props=C01 tier=thorough cost=40
// @exec ListMatcher (4 children)
// @sym 4 arbitrary leaves
// @bounds node with 4 children
step_harness!(c01_step_list4, c01_step_list4_canary, 2, 4, 6);

// @harness props=C01 tier=quick cost=10
// @exec NotMatcher::{new,matches,has_side_effects,finished,finished_dir}, TrueMatcher, FalseMatcher
// @sym one arbitrary leaf
// @bounds single child
/// '!' inverts the value, evaluates its operand exactly once, passes quit and the action flag through.
#[kani::proof]
#[kani::unwind(3)]
#[kani::stub(alloc::fmt::format, fmt_stub)]
#[kani::stub(alloc::raw_vec::handle_error, he_stub)]
#[kani::stub(std::alloc::handle_alloc_error, hae_stub)]
fn c01_step_not() {
    let (r, q, a): (bool, bool, bool) = (kani::any(), kani::any(), kani::any());
    let m = NotMatcher::new(Probe { id: 1, result: r, quits: q, action: a });
    let deps = Deps::new();
    let mut io = MatcherIO::new(&deps);
    let entry = WalkEntry::new("a", 0, Follow::Never);
    unsafe { TN = 0; FN = 0; FDN = 0; }
    let got = m.matches(&entry, &mut io);
    assert!(got == !r);
    assert!(m.has_side_effects() == a);
    assert!(io.should_quit() == q);
    m.finished_dir(Path::new("d"), &mut io);
    m.finished(&mut io);
    unsafe { assert!(TN == 1 && FN == 1 && FDN == 1); }
    assert!(TrueMatcher.matches(&entry, &mut io) && !FalseMatcher.matches(&entry, &mut io));
    assert!(!TrueMatcher.has_side_effects() && !FalseMatcher.has_side_effects());
    kani::cover!(got && q);
    kani::cover!(!got && a);
    std::mem::forget(m); std::mem::forget(entry);
}
#[kani::proof]
#[kani::unwind(3)]
#[kani::stub(alloc::fmt::format, fmt_stub)]
#[kani::stub(alloc::raw_vec::handle_error, he_stub)]
#[kani::stub(std::alloc::handle_alloc_error, hae_stub)]
fn c01_step_not_canary() {
    let r: bool = kani::any();
    let m = NotMatcher::new(Probe { id: 1, result: r, quits: false, action: true });
    assert!(!m.has_side_effects()); // "a negated action is not an action": must FAIL
    std::mem::forget(m);
}

fn run_and_builder<const SHAPE: usize>() {
    let r: [bool; 3] = kani::any();
    let mut b = AndMatcherBuilder::new();
    b.new_and_condition(Probe { id: 1, result: r[0], quits: false, action: false });
    if SHAPE >= 2 { b.new_and_condition(Probe { id: 2, result: r[1], quits: false, action: false }); }
    if SHAPE >= 3 { b.new_and_condition(Probe { id: 3, result: r[2], quits: false, action: false }); }
    let m = b.build();
    let deps = Deps::new();
    let mut io = MatcherIO::new(&deps);
    let entry = WalkEntry::new("a", 0, Follow::Never);
    unsafe { TN = 0; }
    let got = m.matches(&entry, &mut io);
    let want = r[0] && (SHAPE < 2 || r[1]) && (SHAPE < 3 || r[2]);
    let evals = if !r[0] || SHAPE == 1 { 1 } else if !r[1] || SHAPE == 2 { 2 } else { 3 };
    assert!(got == want);
    unsafe { assert!(TN == evals); assert!(TRACE[0] == 1); if evals >= 2 { assert!(TRACE[1] == 2); } if evals == 3 { assert!(TRACE[2] == 3); } }
    kani::cover!(got);
    kani::cover!(!got && evals == SHAPE);
    std::mem::forget(m); std::mem::forget(entry);
}
macro_rules! and_builder_shape {
    ($name:ident, $shape:expr, $unwind:expr) => {
        #[kani::proof]
        #[kani::unwind($unwind)]
        #[kani::stub(alloc::fmt::format, fmt_stub)]
        #[kani::stub(alloc::raw_vec::handle_error, he_stub)]
        #[kani::stub(std::alloc::handle_alloc_error, hae_stub)]
        fn $name() { run_and_builder::<$shape>(); }
    };
}
// @harness props=C01 tier=quick cost=15
// @exec AndMatcherBuilder::{new,new_and_condition,build} (single-leaf collapse), Matcher::into_box
// @sym 1 arbitrary-valued leaf
// @bounds shape: exactly 1 push (has_side_effects of a *built* tree is not evaluated: the vtable read back from the builder's Vec is symbolic to symex and fans out over every matcher type)
and_builder_shape!(c01_and_builder1, 1, 5);
// @harness props=C01 tier=quick cost=15
// @exec AndMatcherBuilder::{new,new_and_condition,build}, AndMatcher::matches
// @sym 2 arbitrary-valued leaves pushed in order
// @bounds shape: exactly 2 pushes
and_builder_shape!(c01_and_builder2, 2, 5);
// @harness props=C01 tier=quick cost=15
// @exec AndMatcherBuilder::{new,new_and_condition,build}, AndMatcher::matches
// @sym 3 arbitrary-valued leaves pushed in order
// @bounds shape: exactly 3 pushes
and_builder_shape!(c01_and_builder, 3, 5);
#[kani::proof]
#[kani::unwind(5)]
#[kani::stub(alloc::fmt::format, fmt_stub)]
#[kani::stub(alloc::raw_vec::handle_error, he_stub)]
#[kani::stub(std::alloc::handle_alloc_error, hae_stub)]
fn c01_and_builder_canary() {
    let r: [bool; 2] = kani::any();
    let mut b = AndMatcherBuilder::new();
    b.new_and_condition(Probe { id: 1, result: r[0], quits: false, action: false });
    b.new_and_condition(Probe { id: 2, result: r[1], quits: false, action: false });
    let m = b.build();
    let deps = Deps::new();
    let mut io = MatcherIO::new(&deps);
    let entry = WalkEntry::new("a", 0, Follow::Never);
    assert!(m.matches(&entry, &mut io) == (r[0] || r[1])); // must FAIL
    std::mem::forget(m); std::mem::forget(entry);
}

// ---------------------------------------------------------------------------------------------
// C01/C11: the precedence encoding of the Or/List builders and their "operator with nothing before it" checks
// ---------------------------------------------------------------------------------------------
/// Apply a fixed prefix of builder operations (shape), then one symbolic operation; compare with the grouping the grammar prescribes.
/// Shapes (P = a primary): 0 "", 1 "P", 2 "P -o", 3 "P -o P", 4 "P ,", 5 "P , P", 6 "P P -o P , P"
fn run_builder_shape<const SHAPE: usize>(canary: bool) {
    let mut b = ListMatcherBuilder::new();
    // expected grouping: list of or-groups of and-groups, as counts
    let (mut li, mut oi) = (0usize, 0usize);
    let mut counts = [[0usize; 3]; 3];
    macro_rules! push { () => { b.new_and_condition(TrueMatcher); counts[li][oi] += 1; } }
    macro_rules! or_ { () => { let r = b.new_or_condition("-o"); assert!(r.is_ok()); std::mem::forget(r); oi += 1; } }
    macro_rules! list_ { () => { let r = b.new_list_condition(); assert!(r.is_ok()); std::mem::forget(r); li += 1; oi = 0; } }
    if SHAPE >= 1 { push!(); }
    if SHAPE == 2 || SHAPE == 3 { or_!(); }
    if SHAPE == 3 { push!(); }
    if SHAPE == 4 || SHAPE == 5 { list_!(); }
    if SHAPE == 5 { push!(); }
    if SHAPE == 6 { push!(); or_!(); push!(); list_!(); push!(); }
    let group_empty = counts[li][oi] == 0;
    // one symbolic operation: 0 = explicit -a, 1 = -o, 2 = ','
    let op: u8 = kani::any();
    kani::assume(op < 3);
    let r = match op { 0 => b.check_new_and_condition(), 1 => b.new_or_condition("-o"), _ => b.new_list_condition() };
    if canary { assert!(r.is_ok()); std::mem::forget(r); std::mem::forget(b); return; } // must FAIL for shapes ending in an operator
    assert!(r.is_err() == group_empty, "a binary operator is rejected iff nothing precedes it in its group");
    if r.is_ok() { if op == 1 { oi += 1; } else if op == 2 { li += 1; oi = 0; } }
    std::mem::forget(r);
    // the nested structure is the grouping: ',' opens a new or-group list entry, -o a new and-group inside the current one
    assert!(b.submatchers.len() == li + 1);
    let mut l = 0;
    while l < 3 {
        if l <= li {
            let ob = &b.submatchers[l];
            let mut o = 0;
            while o < 3 {
                if o < ob.submatchers.len() { assert!(ob.submatchers[o].submatchers.len() == counts[l][o]); }
                else { assert!(counts[l][o] == 0); }
                o += 1;
            }
            assert!(ob.submatchers.len() >= 1 && ob.submatchers.len() <= 3);
        }
        l += 1;
    }
    kani::cover!(op == 0);
    kani::cover!(op == 2);
    std::mem::forget(b);
}
macro_rules! builder_shape {
    ($name:ident, $canary:ident, $shape:expr, $unwind:expr) => {
        #[kani::proof]
        #[kani::unwind($unwind)]
        #[kani::stub(alloc::fmt::format, fmt_stub)]
        #[kani::stub(alloc::raw_vec::handle_error, he_stub)]
        #[kani::stub(std::alloc::handle_alloc_error, hae_stub)]
        fn $name() { run_builder_shape::<$shape>(false); }
        #[kani::proof]
        #[kani::unwind($unwind)]
        #[kani::stub(alloc::fmt::format, fmt_stub)]
        #[kani::stub(alloc::raw_vec::handle_error, he_stub)]
        #[kani::stub(std::alloc::handle_alloc_error, hae_stub)]
        fn $canary() { run_builder_shape::<$shape>(true); }
    };
}
macro_rules! builder_shape_nc {
    ($name:ident, $shape:expr, $unwind:expr) => {
        #[kani::proof]
        #[kani::unwind($unwind)]
        #[kani::stub(alloc::fmt::format, fmt_stub)]
        #[kani::stub(alloc::raw_vec::handle_error, he_stub)]
        #[kani::stub(std::alloc::handle_alloc_error, hae_stub)]
        fn $name() { run_builder_shape::<$shape>(false); }
    };
}
// @harness props=C01,C11 tier=quick cost=15 flags=nomem
// @replay builder_ops
// @exec ListMatcherBuilder::{new,new_and_condition,new_or_condition,new_list_condition,check_new_and_condition}, OrMatcherBuilder::*, AndMatcherBuilder::new_and_condition
// @sym the next operator (-a, -o, ',') after the fixed prefix ""
// @bounds fixed prefix shape; one symbolic operation
builder_shape!(c11_builder_shape0, c11_builder_shape0_canary, 0, 5);
// @harness props=C01,C11 tier=quick cost=15 flags=nomem
// @replay builder_ops
// @exec as c11_builder_shape0
// @sym the next operator after the prefix "P"
// @bounds fixed prefix shape
builder_shape_nc!(c11_builder_shape1, 1, 5);
// (c11_builder_shape2 - prefix shape 'P -o' - exhausted 24 GiB in the thorough tier and was removed; the parser-level mirsym check c01_parser covers these prefixes)
// (c11_builder_shape3 - prefix shape 'P -o P' - exhausted 24 GiB in the thorough tier and was removed; the parser-level mirsym check c01_parser covers these prefixes)
// @harness props=C01,C11 tier=quick cost=15 flags=nomem
// @replay builder_ops
// @exec as c11_builder_shape0
// @sym the next operator after the prefix "P ,"
// @bounds fixed prefix shape
builder_shape!(c11_builder_shape4, c11_builder_shape4_canary, 4, 5);
// @harness props=C01,C11 tier=quick cost=15 flags=nomem
// @replay builder_ops
// @exec as c11_builder_shape0
// @sym the next operator after the prefix "P , P"
// @bounds fixed prefix shape
builder_shape_nc!(c11_builder_shape5, 5, 5);
