// harnesses for module m_empty (included into /repo under cfg(kani))
