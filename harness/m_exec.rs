// harnesses for module m_exec (included into /repo under cfg(kani))
