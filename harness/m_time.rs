// C15: time tests.
use super::*;
use crate::find::matchers::entry::verif_kani::*;
use crate::find::matchers::stat::verif_kani::{any_cv, want_cmp};

const T40: i64 = 1i64 << 40;
fn times_in_range(st: &libc::stat64) -> bool {
    st.st_mtime >= 0 && st.st_mtime < T40 && st.st_atime >= 0 && st.st_atime < T40 && st.st_ctime >= 0 && st.st_ctime < T40
}
fn any_ftt() -> (FileTimeType, u8) {
    match kani::any::<u8>() % 3 { 0 => (FileTimeType::Accessed, 0), 1 => (FileTimeType::Changed, 1), _ => (FileTimeType::Modified, 2) }
}
fn ts(st: &libc::stat64, which: u8) -> (i64, i64) {
    match which { 0 => (st.st_atime, st.st_atime_nsec), 1 => (st.st_ctime, st.st_ctime_nsec), _ => (st.st_mtime, st.st_mtime_nsec) }
}
/// whole seconds of (now - t), for now >= t
fn age_secs(now: (i64, i64), t: (i64, i64)) -> i64 { let mut ds = now.0 - t.0; if now.1 < t.1 { ds -= 1; } ds }

// @harness props=C15 tier=quick cost=150
// @exec FileTimeMatcher::{new,matches_impl}, FileTimeType::get_file_time, ChangeTime::changed, ComparableValue::imatches
// @sym now and the record's three timestamps (seconds in 0..2^40, nanoseconds 0..10^9), N: u64, form N/+N/-N, kind a/c/m
// @bounds timestamps below 2^40 s (year 36812); age >= 0 (the property's quantifier); -daystart off
// @witness meta:stat12 now_s:u64 now_ns:u32 n:u64 form:u8 kind:u8
// @replay age_days
/// -atime/-ctime/-mtime N compare N with floor((now - timestamp)/86400), each on its own timestamp.
#[kani::proof]
#[kani::unwind(2)]
#[kani::stub(alloc::fmt::format, fmt_stub)]
fn c15_age_days() {
    let (m, st) = any_metadata();
    kani::assume(times_in_range(&st));
    let now_s: u64 = kani::any(); let now_ns: u32 = kani::any();
    kani::assume(now_s < (1u64 << 40) && now_ns < 1_000_000_000);
    let (ftt, which) = any_ftt();
    let t = ts(&st, which);
    let now_p = (now_s as i64, now_ns as i64);
    kani::assume(now_p >= t);
    let now = UNIX_EPOCH + Duration::new(now_s, now_ns);
    let entry = entry_with(m, 1, Follow::Never);
    let (cv, k, n) = any_cv();
    let matcher = FileTimeMatcher::new(ftt, cv, false);
    let got = matcher.matches_impl(&entry, now);
    let days = (age_secs(now_p, t) / 86400) as u64;
    match got { Ok(g) => assert!(g == want_cmp(k, n, days)), Err(e) => { std::mem::forget(e); assert!(false); } }
    kani::cover!(which == 1 && k == 1 && n == 3 && st.st_ctime != st.st_mtime && st.st_ctime != st.st_atime);
    kani::cover!(k == 1 && n == 1 && age_secs(now_p, t) == 86400);
    kani::cover!(k == 1 && n == 0 && age_secs(now_p, t) == 86399);
    std::mem::forget(entry);
}
#[kani::proof]
#[kani::unwind(2)]
#[kani::stub(alloc::fmt::format, fmt_stub)]
fn c15_age_days_canary() {
    let (m, st) = any_metadata();
    kani::assume(times_in_range(&st));
    let now_s: u64 = kani::any();
    kani::assume(now_s < (1u64 << 40) && (now_s as i64) >= st.st_mtime + 1);
    let now = UNIX_EPOCH + Duration::new(now_s, 0);
    let entry = entry_with(m, 1, Follow::Never);
    let n: u64 = kani::any();
    let matcher = FileTimeMatcher::new(FileTimeType::Modified, ComparableValue::EqualTo(n), false);
    let got = matcher.matches_impl(&entry, now);
    // wrong on purpose: rounds the age up to the next day
    let days = ((now_s as i64 - st.st_mtime + 86399) / 86400) as u64;
    match got { Ok(g) => assert!(g == (days == n)), Err(e) => { std::mem::forget(e); } }
    std::mem::forget(entry);
}

// @harness props=C15 tier=quick cost=150
// @exec FileAgeRangeMatcher::{new,matches_impl}, FileTimeType::get_file_time, ChangeTime::changed, ComparableValue::imatches
// @sym as c15_age_days
// @bounds timestamps below 2^40 s; age >= 0
/// -amin/-cmin/-mmin N compare N with floor((now - timestamp)/60), each on its own timestamp.
#[kani::proof]
#[kani::unwind(2)]
#[kani::stub(alloc::fmt::format, fmt_stub)]
fn c15_age_minutes() {
    let (m, st) = any_metadata();
    kani::assume(times_in_range(&st));
    let now_s: u64 = kani::any(); let now_ns: u32 = kani::any();
    kani::assume(now_s < (1u64 << 40) && now_ns < 1_000_000_000);
    let (ftt, which) = any_ftt();
    let t = ts(&st, which);
    let now_p = (now_s as i64, now_ns as i64);
    kani::assume(now_p >= t);
    let now = UNIX_EPOCH + Duration::new(now_s, now_ns);
    let entry = entry_with(m, 1, Follow::Never);
    let (cv, k, n) = any_cv();
    let matcher = FileAgeRangeMatcher::new(ftt, cv, false);
    let got = matcher.matches_impl(&entry, now);
    let mins = (age_secs(now_p, t) / 60) as u64;
    match got { Ok(g) => assert!(g == want_cmp(k, n, mins)), Err(e) => { std::mem::forget(e); assert!(false); } }
    kani::cover!(which == 0 && k == 1 && n == 2 && st.st_atime != st.st_mtime);
    kani::cover!(k == 1 && n == 1 && age_secs(now_p, t) == 60 && now_ns < t.1 as u32 + 1);
    std::mem::forget(entry);
}
#[kani::proof]
#[kani::unwind(2)]
#[kani::stub(alloc::fmt::format, fmt_stub)]
fn c15_age_minutes_canary() {
    let (m, st) = any_metadata();
    kani::assume(times_in_range(&st));
    let now_s: u64 = kani::any();
    kani::assume(now_s < (1u64 << 40) && (now_s as i64) >= st.st_atime);
    let now = UNIX_EPOCH + Duration::new(now_s, 0);
    let entry = entry_with(m, 1, Follow::Never);
    let n: u64 = kani::any();
    // wrong on purpose: -amin checked against mtime
    let matcher = FileAgeRangeMatcher::new(FileTimeType::Accessed, ComparableValue::EqualTo(n), false);
    let got = matcher.matches_impl(&entry, now);
    kani::assume((now_s as i64) >= st.st_mtime);
    let mins = ((now_s as i64 - st.st_mtime) / 60) as u64;
    match got { Ok(g) => assert!(g == (mins == n)), Err(e) => { std::mem::forget(e); } }
    std::mem::forget(entry);
}

// @harness props=C15 tier=quick cost=150 flags=nomem
// @exec NewerMatcher::{new,matches_impl}, Follow::{root_metadata,metadata_at_depth}
// @sym entry record; reference file F as a world (lstat/stat records), follow P/H/L; all timestamps (s in 0..2^40, ns)
// @bounds timestamps below 2^40 s
// @assume kernel contract for stat vs lstat; F exists and resolves (dangling reference outside)
/// -newer F: entry.mtime > F.mtime strictly, at nanosecond resolution; F's record is the one the follow mode selects for a starting point.
#[kani::proof]
#[kani::unwind(3)]
#[kani::stub(alloc::fmt::format, fmt_stub)]
#[kani::stub(std::fs::metadata, stat_stub)]
#[kani::stub(std::fs::symlink_metadata, lstat_stub)]
fn c15_newer_strict() {
    // F exists and resolves (s is a concrete Some: the error paths fold away; a dangling F is outside this harness)
    let (fl, flst) = any_metadata();
    let (fs, fsst) = any_metadata();
    if !is_type(flst.st_mode, libc::S_IFLNK) { kani::assume(fsst.st_mtime == flst.st_mtime && fsst.st_mtime_nsec == flst.st_mtime_nsec); }
    kani::assume(times_in_range(&flst) && times_in_range(&fsst));
    unsafe { WORLD = World { l: Some(fl), s: Some(fs), s_err: 0 }; }
    let follow = any_follow();
    let (e, est) = any_metadata();
    kani::assume(times_in_range(&est));
    let matcher = match NewerMatcher::new("ref", follow) { Ok(m) => m, Err(e) => { std::mem::forget(e); assert!(false); return; } };
    let entry = entry_with(e, 1, Follow::Never);
    let got = matcher.matches_impl(&entry);
    let f = if follow.follow_at_depth(0) { fsst } else { flst };
    match got { Ok(g) => assert!(g == (ts(&est, 2) > ts(&f, 2))), Err(e) => { std::mem::forget(e); assert!(false); } }
    kani::cover!(est.st_mtime == f.st_mtime && est.st_mtime_nsec == f.st_mtime_nsec + 1);
    kani::cover!(est.st_mtime == f.st_mtime && est.st_mtime_nsec == f.st_mtime_nsec);
    kani::cover!(follow == Follow::Roots && ts(&flst, 2) != ts(&fsst, 2));
    std::mem::forget(entry);
}
#[kani::proof]
#[kani::unwind(3)]
#[kani::stub(alloc::fmt::format, fmt_stub)]
#[kani::stub(std::fs::metadata, stat_stub)]
#[kani::stub(std::fs::symlink_metadata, lstat_stub)]
fn c15_newer_strict_canary() {
    let (fl, flst) = any_metadata();
    kani::assume(times_in_range(&flst));
    unsafe { WORLD = World { l: Some(fl), s: None, s_err: 0 }; }
    let (e, est) = any_metadata();
    kani::assume(times_in_range(&est));
    let matcher = match NewerMatcher::new("ref", Follow::Never) { Ok(m) => m, Err(e) => { std::mem::forget(e); return; } };
    let entry = entry_with(e, 1, Follow::Never);
    let got = matcher.matches_impl(&entry);
    match got { Ok(g) => assert!(g == (ts(&est, 2) >= ts(&flst, 2))), Err(e) => { std::mem::forget(e); } } // non-strict: must FAIL
    std::mem::forget(entry);
}

// @harness props=C15 tier=quick cost=60 flags=nomem
// @exec NewerOptionMatcher::{new,matches_impl}, NewerOptionType::{from_str,get_file_time}, ChangeTime::changed
// @sym entry record, reference record (three timestamps each, s in 0..2^40, ns), X and Y in {a,c,m}
// @bounds timestamps below 2^40 s; B (birth time) excluded (statx extra fields are not modelled)
// @replay newer_xy
/// -newerXY F: entry.X > F.Y strictly, for all nine XY combinations over a, c, m.
#[kani::proof]
#[kani::unwind(2)]
#[kani::stub(alloc::fmt::format, fmt_stub)]
#[kani::stub(std::fs::metadata, stat_stub)]
fn c15_newer_xy() {
    let (e, est) = any_metadata();
    let (r, rst) = any_metadata();
    kani::assume(times_in_range(&est) && times_in_range(&rst));
    unsafe { WORLD = World { l: None, s: Some(r), s_err: 0 }; }
    let x: u8 = kani::any(); let y: u8 = kani::any();
    kani::assume(x < 3 && y < 3);
    let names = ["a", "c", "m"];
    let matcher = match NewerOptionMatcher::new(names[x as usize], names[y as usize], "ref") { Ok(m) => m, Err(e) => { std::mem::forget(e); assert!(false); return; } };
    let entry = entry_with(e, 1, Follow::Never);
    let got = matcher.matches_impl(&entry);
    match got { Ok(g) => assert!(g == (ts(&est, x) > ts(&rst, y))), Err(e) => { std::mem::forget(e); assert!(false); } }
    kani::cover!(x == 2 && y == 0 && ts(&est, 2) > ts(&rst, 0) && ts(&est, 2) < ts(&rst, 2));
    kani::cover!(x == 0 && y == 1 && ts(&est, 0) > ts(&rst, 1) && ts(&est, 1) < ts(&rst, 1));
    std::mem::forget(entry);
}
#[kani::proof]
#[kani::unwind(2)]
#[kani::stub(alloc::fmt::format, fmt_stub)]
#[kani::stub(std::fs::metadata, stat_stub)]
fn c15_newer_xy_canary() {
    let (e, est) = any_metadata();
    let (r, rst) = any_metadata();
    kani::assume(times_in_range(&est) && times_in_range(&rst));
    unsafe { WORLD = World { l: None, s: Some(r), s_err: 0 }; }
    let matcher = match NewerOptionMatcher::new("a", "c", "ref") { Ok(m) => m, Err(e) => { std::mem::forget(e); return; } };
    let entry = entry_with(e, 1, Follow::Never);
    let got = matcher.matches_impl(&entry);
    match got { Ok(g) => assert!(g == (ts(&est, 0) > ts(&rst, 2))), Err(e) => { std::mem::forget(e); } } // Y ignored: must FAIL
    std::mem::forget(entry);
}
