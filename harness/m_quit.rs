// harnesses for module m_quit (included into /repo under cfg(kani))
