// C02/C03/C01/C18: findutils' side of the walk (process_dir), its WalkDir configuration, and the operand scan.
use super::*;
use crate::find::matchers::verif_kani::common::*;
use crate::find::matchers::verif_kani::{PruneProbe, VerifTrue};
use crate::find::matchers::{Matcher, MatcherIO, WalkEntry, WalkError};

// ---------------------------------------------------------------------------------------------
// walk_config: what process_dir asks walkdir for
// ---------------------------------------------------------------------------------------------
struct Nop;
impl Matcher for Nop { fn matches(&self, _: &WalkEntry, _: &mut MatcherIO) -> bool { true } }
static mut NEXT_CALLS: usize = 0;
fn next_none(_it: &mut walkdir::IntoIter) -> Option<walkdir::Result<walkdir::DirEntry>> { unsafe { NEXT_CALLS += 1; } None }
static mut R_CF: Option<bool> = None;
static mut R_SFS: Option<bool> = None;
static mut R_FL: Option<bool> = None;
static mut R_FRL: Option<bool> = None;
static mut R_SORT: bool = false;
// model of walkdir 2.5's builder state for the depth range, including its (undocumented) clamping:
//   min_depth(d): min = d; if min > max { min = max }      max_depth(d): max = d; if max < min { max = min }
static mut W_MIN: usize = 0;
static mut W_MAX: usize = usize::MAX;
fn cf(w: WalkDir, v: bool) -> WalkDir { unsafe { R_CF = Some(v); } w }
fn maxd(w: WalkDir, v: usize) -> WalkDir { unsafe { W_MAX = v; if W_MAX < W_MIN { W_MAX = W_MIN; } } w }
fn mind(w: WalkDir, v: usize) -> WalkDir { unsafe { W_MIN = v; if W_MIN > W_MAX { W_MIN = W_MAX; } } w }
fn sfs(w: WalkDir, v: bool) -> WalkDir { unsafe { R_SFS = Some(v); } w }
fn fl(w: WalkDir, v: bool) -> WalkDir { unsafe { R_FL = Some(v); } w }
fn frl(w: WalkDir, v: bool) -> WalkDir { unsafe { R_FRL = Some(v); } w }
fn sortby<F>(w: WalkDir, _cmp: F) -> WalkDir
where F: FnMut(&walkdir::DirEntry, &walkdir::DirEntry) -> std::cmp::Ordering + Send + Sync + 'static {
    unsafe { R_SORT = true; }
    w
}

// @harness props=C02,C03 tier=quick cost=20 flags=nomem
// @exec process_dir (builder calls, loop entry, epilogue), MatcherIO::new
// @sym every Config field that reaches walkdir: depth_first, min_depth, max_depth (full usize), same_file_system, sorted_output, follow P/H/L
// @bounds zero entries yielded (the iterator is cut: next() -> None); WalkDir builder methods replaced by recorders
// @assume walkdir 2.5 honours the recorded options; its min_depth/max_depth clamp each other as in its source (model quoted in the harness)
// @witness depth_first:bool min_depth:usize max_depth:usize sfs:bool sorted:bool follow:u8
// @replay walk_config
/// process_dir requests: contents_first <=> -depth, the given depth range, follow_links <=> -L, follow_root_links <=> -H or -L,
/// same_file_system <=> -xdev, a sorter <=> -sorted; and when mindepth > maxdepth nothing is walked at all.
#[kani::proof]
#[kani::unwind(3)]
#[kani::stub(alloc::fmt::format, fmt_stub)]
#[kani::stub(alloc::raw_vec::handle_error, he_stub)]
#[kani::stub(std::alloc::handle_alloc_error, hae_stub)]
#[kani::stub(<std::io::Stderr as std::io::Write>::write_fmt, wf_stub)]
#[kani::stub(<walkdir::IntoIter as std::iter::Iterator>::next, next_none)]
#[kani::stub(walkdir::WalkDir::contents_first, cf)]
#[kani::stub(walkdir::WalkDir::max_depth, maxd)]
#[kani::stub(walkdir::WalkDir::min_depth, mind)]
#[kani::stub(walkdir::WalkDir::same_file_system, sfs)]
#[kani::stub(walkdir::WalkDir::follow_links, fl)]
#[kani::stub(walkdir::WalkDir::follow_root_links, frl)]
#[kani::stub(walkdir::WalkDir::sort_by, sortby)]
fn c02_walk_config() {
    let mut config = Config::default();
    config.depth_first = kani::any(); config.min_depth = kani::any(); config.max_depth = kani::any();
    config.same_file_system = kani::any(); config.sorted_output = kani::any();
    config.follow = any_follow();
    unsafe { NEXT_CALLS = 0; W_MIN = 0; W_MAX = usize::MAX; R_SORT = false; }
    let deps = Deps::new();
    let mut quit = false;
    let ret = process_dir("r", &config, &deps, &Nop, &mut quit);
    assert!(ret == 0 && !quit);
    unsafe {
        if config.min_depth <= config.max_depth {
            assert!(NEXT_CALLS == 1);
            assert!(W_MIN == config.min_depth && W_MAX == config.max_depth);
            assert!(R_CF == Some(config.depth_first));
            assert!(R_SFS == Some(config.same_file_system));
            assert!(R_FL == Some(config.follow == Follow::Always));
            assert!(R_FRL == Some(config.follow != Follow::Never));
            assert!(R_SORT == config.sorted_output);
        } else {
            // nothing lies in an empty depth range: either the walk is not started, or the range requested is empty
            assert!(NEXT_CALLS == 0 || W_MIN > W_MAX, "mindepth > maxdepth must visit nothing");
        }
    }
    kani::cover!(config.min_depth > config.max_depth);
    kani::cover!(config.min_depth == config.max_depth && config.sorted_output);
    kani::cover!(config.follow == Follow::Roots && config.depth_first);
}
#[kani::proof]
#[kani::unwind(3)]
#[kani::stub(alloc::fmt::format, fmt_stub)]
#[kani::stub(alloc::raw_vec::handle_error, he_stub)]
#[kani::stub(std::alloc::handle_alloc_error, hae_stub)]
#[kani::stub(<std::io::Stderr as std::io::Write>::write_fmt, wf_stub)]
#[kani::stub(<walkdir::IntoIter as std::iter::Iterator>::next, next_none)]
#[kani::stub(walkdir::WalkDir::follow_links, fl)]
#[kani::stub(walkdir::WalkDir::follow_root_links, frl)]
fn c02_walk_config_canary() {
    let mut config = Config::default();
    config.follow = any_follow();
    let deps = Deps::new();
    let mut quit = false;
    process_dir("r", &config, &deps, &Nop, &mut quit);
    unsafe { assert!(R_FL == R_FRL); } // -H behaves like -L: must FAIL
}

// ---------------------------------------------------------------------------------------------
// walk_loop: the real process_dir loop over a scripted walkdir iterator
// ---------------------------------------------------------------------------------------------
const MAXSTEPS: usize = 3;
const PATHS: [&str; MAXSTEPS] = ["r/a", "r/b", "r/c"];
static mut N: usize = 0;
static mut POS: usize = 0;
static mut IS_ERR: [bool; MAXSTEPS] = [false; MAXSTEPS];
static mut IS_DIR: [bool; MAXSTEPS] = [false; MAXSTEPS];
static mut SKIP_AFTER: [bool; MAXSTEPS] = [false; MAXSTEPS];
static mut NEVAL: [u8; MAXSTEPS] = [0; MAXSTEPS];
static mut ORDER: [u8; MAXSTEPS] = [0; MAXSTEPS];
static mut NMATCH: usize = 0;
static mut NFINISHED: usize = 0;
static mut DO_PRUNE: [bool; MAXSTEPS] = [false; MAXSTEPS];
static mut DO_QUIT: [bool; MAXSTEPS] = [false; MAXSTEPS];
static mut SET_CODE: [bool; MAXSTEPS] = [false; MAXSTEPS];

fn no_stat<P: AsRef<std::path::Path>>(_p: P) -> std::io::Result<std::fs::Metadata> { kani::assume(false); unreachable!() }
fn de_meta_cut(_d: &walkdir::DirEntry) -> walkdir::Result<std::fs::Metadata> { kani::assume(false); unreachable!() }
fn de_path_cut(_d: &walkdir::DirEntry) -> &std::path::Path { kani::assume(false); unreachable!() }
fn de_ft_cut(_d: &walkdir::DirEntry) -> std::fs::FileType { kani::assume(false); unreachable!() }
fn de_depth_cut(_d: &walkdir::DirEntry) -> usize { kani::assume(false); unreachable!() }
fn de_sym_cut(_d: &walkdir::DirEntry) -> bool { kani::assume(false); unreachable!() }
fn parent_cut(_p: &std::path::Path) -> Option<&std::path::Path> { None }
#[allow(dead_code)]
struct MirrorDirEntry { path: PathBuf, ty: std::fs::FileType, follow_link: bool, depth: usize, ino: u64 }
fn fabricate_dirent() -> walkdir::DirEntry {
    let (m, _st) = any_metadata();
    let mirror = MirrorDirEntry { path: PathBuf::new(), ty: m.file_type(), follow_link: false, depth: 1, ino: 0 };
    unsafe { std::mem::transmute::<MirrorDirEntry, walkdir::DirEntry>(mirror) }
}
fn next_script(_it: &mut walkdir::IntoIter) -> Option<walkdir::Result<walkdir::DirEntry>> {
    unsafe {
        if POS >= N { return None; }
        POS += 1;
        Some(Ok(fabricate_dirent()))
    }
}
fn skip_rec(_it: &mut walkdir::IntoIter) { unsafe { SKIP_AFTER[POS - 1] = true; } }
fn from_walkdir_script(result: walkdir::Result<walkdir::DirEntry>, follow: Follow) -> Result<WalkEntry, WalkError> {
    std::mem::forget(result);
    unsafe {
        let i = POS - 1;
        if IS_ERR[i] { return Err(walk_error(13)); }
        let (m, st) = any_metadata();
        kani::assume(is_type(st.st_mode, libc::S_IFDIR) == IS_DIR[i]);
        Ok(entry_at(PATHS[i], m, 1, follow))
    }
}
/// Scripted expression: per entry, optionally -prune (the real PruneMatcher), -quit, or a failing action.
struct Scripted { prune: PruneProbe }
impl Matcher for Scripted {
    fn matches(&self, e: &WalkEntry, io: &mut MatcherIO) -> bool {
        unsafe {
            let i = POS - 1;
            NEVAL[i] += 1;
            if NMATCH < MAXSTEPS { ORDER[NMATCH] = i as u8; }
            NMATCH += 1;
            if DO_PRUNE[i] { self.prune.run(e, io); }
            if DO_QUIT[i] { io.quit(); }
            if SET_CODE[i] { io.set_exit_code(1); }
        }
        true
    }
    fn finished(&self, _io: &mut MatcherIO) { unsafe { NFINISHED += 1; } }
}

fn run_walk_loop(steps: usize, canary: bool) {
    unsafe {
        N = kani::any(); kani::assume(N <= steps);
        POS = 0; NMATCH = 0; NFINISHED = 0;
        let mut i = 0;
        while i < MAXSTEPS { IS_ERR[i] = kani::any(); IS_DIR[i] = kani::any(); DO_PRUNE[i] = kani::any(); DO_QUIT[i] = kani::any(); SET_CODE[i] = kani::any(); SKIP_AFTER[i] = false; NEVAL[i] = 0; i += 1; }
    }
    let mut config = Config::default();
    config.depth_first = kani::any();
    let deps = Deps::new();
    let m = Scripted { prune: PruneProbe::new() };
    let mut quit = false;
    let ret = process_dir("r", &config, &deps, &m, &mut quit);
    unsafe {
        if canary {
            // wrong on purpose: "an unreadable entry stops the walk"
            let mut i = 0; let mut seen_err = false;
            while i < MAXSTEPS { if i < N { if seen_err && !DO_QUIT[0] && !DO_QUIT[1] { assert!(NEVAL[i] == 0); } if IS_ERR[i] { seen_err = true; } } i += 1; }
            return;
        }
        let mut seen_quit = false; let mut failed = false; let mut expect = 0usize;
        let mut i = 0;
        while i < MAXSTEPS {
            if i < N {
                if seen_quit { assert!(NEVAL[i] == 0); }                        // C01: nothing after -quit
                else if IS_ERR[i] { assert!(NEVAL[i] == 0); failed = true; }    // C02: diagnostic, non-zero status, walk goes on
                else {
                    assert!(NEVAL[i] == 1);                                     // C02: exactly once
                    assert!(ORDER[expect] == i as u8);                          // in the order yielded
                    expect += 1;
                    if SET_CODE[i] { failed = true; }
                    let pruned = DO_PRUNE[i] && IS_DIR[i];
                    if DO_QUIT[i] { seen_quit = true; assert!(!SKIP_AFTER[i]); }
                    else {
                        // C03: -prune cuts the subtree in pre-order and changes nothing under -depth
                        assert!(SKIP_AFTER[i] == (pruned && !config.depth_first));
                    }
                }
            } else { assert!(NEVAL[i] == 0); }
            i += 1;
        }
        assert!(NMATCH == expect);
        assert!(quit == seen_quit);
        assert!(NFINISHED == 1);            // pending -exec ... + batches are flushed exactly once, also after -quit
        assert!((ret != 0) == failed);
        kani::cover!(N == steps && seen_quit);
        kani::cover!(N == steps && failed && expect >= 1);
        kani::cover!(N >= 2 && SKIP_AFTER[0] && NEVAL[1] == 1);
        kani::cover!(N >= 2 && DO_PRUNE[0] && IS_DIR[0] && config.depth_first);
    }
}

// @harness props=C01,C02,C03,C10 tier=quick cost=200 flags=nomem
// @exec process_dir (the whole loop and epilogue), MatcherIO::{new,exit_code,should_quit,should_skip_current_dir}, PruneMatcher::matches
// @sym script of 0..2 steps; per step: walkdir error or entry (directory or not, symbolic record), expression prunes / quits / sets a failing status; -depth on/off
// @bounds at most 2 yielded entries (thorough: 3); walkdir's iterator scripted; WalkEntry::from_walkdir scripted; Path::parent cut to None (disables only the finished_dir bookkeeping)
// @assume walkdir's documented contract for skip_current_dir; fabricated walkdir::DirEntry values are never inspected
// @replay walk_loop
/// Every yielded entry is evaluated exactly once, in order; an error step gives a non-zero status and the walk continues;
/// after -quit nothing further is evaluated; finished() runs once; skip_current_dir is requested iff -prune fired on a directory and not -depth.
#[kani::proof]
#[kani::unwind(5)]
#[kani::stub(<std::io::Stderr as std::io::Write>::write_fmt, wf_stub)]
#[kani::stub(<walkdir::IntoIter as std::iter::Iterator>::next, next_script)]
#[kani::stub(walkdir::IntoIter::skip_current_dir, skip_rec)]
#[kani::stub(WalkEntry::from_walkdir, from_walkdir_script)]
#[kani::stub(alloc::raw_vec::handle_error, he_stub)]
#[kani::stub(std::alloc::handle_alloc_error, hae_stub)]
#[kani::stub(alloc::fmt::format, fmt_stub)]
#[kani::stub(std::fs::metadata, no_stat)]
#[kani::stub(std::fs::symlink_metadata, no_stat)]
#[kani::stub(std::path::Path::parent, parent_cut)]
#[kani::stub(walkdir::DirEntry::metadata, de_meta_cut)]
#[kani::stub(walkdir::DirEntry::path, de_path_cut)]
#[kani::stub(walkdir::DirEntry::file_type, de_ft_cut)]
#[kani::stub(walkdir::DirEntry::depth, de_depth_cut)]
#[kani::stub(walkdir::DirEntry::path_is_symlink, de_sym_cut)]
fn c03_walk_loop2() { run_walk_loop(2, false); }
#[kani::proof]
#[kani::unwind(5)]
#[kani::stub(<std::io::Stderr as std::io::Write>::write_fmt, wf_stub)]
#[kani::stub(<walkdir::IntoIter as std::iter::Iterator>::next, next_script)]
#[kani::stub(walkdir::IntoIter::skip_current_dir, skip_rec)]
#[kani::stub(WalkEntry::from_walkdir, from_walkdir_script)]
#[kani::stub(alloc::raw_vec::handle_error, he_stub)]
#[kani::stub(std::alloc::handle_alloc_error, hae_stub)]
#[kani::stub(alloc::fmt::format, fmt_stub)]
#[kani::stub(std::fs::metadata, no_stat)]
#[kani::stub(std::fs::symlink_metadata, no_stat)]
#[kani::stub(std::path::Path::parent, parent_cut)]
#[kani::stub(walkdir::DirEntry::metadata, de_meta_cut)]
#[kani::stub(walkdir::DirEntry::path, de_path_cut)]
#[kani::stub(walkdir::DirEntry::file_type, de_ft_cut)]
#[kani::stub(walkdir::DirEntry::depth, de_depth_cut)]
#[kani::stub(walkdir::DirEntry::path_is_symlink, de_sym_cut)]
fn c03_walk_loop2_canary() { run_walk_loop(2, true); }

// @harness props=C01,C02,C03,C10 tier=thorough cost=900 flags=nomem
// @exec as c03_walk_loop2
// @sym script of 0..3 steps
// @bounds at most 3 yielded entries
#[kani::proof]
#[kani::unwind(6)]
#[kani::stub(<std::io::Stderr as std::io::Write>::write_fmt, wf_stub)]
#[kani::stub(<walkdir::IntoIter as std::iter::Iterator>::next, next_script)]
#[kani::stub(walkdir::IntoIter::skip_current_dir, skip_rec)]
#[kani::stub(WalkEntry::from_walkdir, from_walkdir_script)]
#[kani::stub(alloc::raw_vec::handle_error, he_stub)]
#[kani::stub(std::alloc::handle_alloc_error, hae_stub)]
#[kani::stub(alloc::fmt::format, fmt_stub)]
#[kani::stub(std::fs::metadata, no_stat)]
#[kani::stub(std::fs::symlink_metadata, no_stat)]
#[kani::stub(std::path::Path::parent, parent_cut)]
#[kani::stub(walkdir::DirEntry::metadata, de_meta_cut)]
#[kani::stub(walkdir::DirEntry::path, de_path_cut)]
#[kani::stub(walkdir::DirEntry::file_type, de_ft_cut)]
#[kani::stub(walkdir::DirEntry::depth, de_depth_cut)]
#[kani::stub(walkdir::DirEntry::path_is_symlink, de_sym_cut)]
fn c03_walk_loop3() { run_walk_loop(3, false); }

// ---------------------------------------------------------------------------------------------
// C18: the operand scan of parse_args
// ---------------------------------------------------------------------------------------------
static mut EXPR_LEN: usize = 99;
fn btlm_stub(args: &[&str], _config: &mut Config) -> Result<Box<dyn matchers::Matcher>, Box<dyn Error>> {
    unsafe { EXPR_LEN = args.len(); }
    Ok(Box::new(VerifTrue))
}
// vocabulary: 0 ".", 1 "a", 2 "-", 3 "--", 4 "-H", 5 "-L", 6 "-O2", 7 "!", 8 "-print", 9 "-P", 10 "(", 11 "./a/"
const VOC: [&str; 12] = [".", "a", "-", "--", "-H", "-L", "-O2", "!", "-print", "-P", "(", "./a/"];
fn is_flag(t: u8) -> bool { t == 4 || t == 5 || t == 6 || t == 9 }
fn is_path(t: u8) -> bool { t == 0 || t == 1 || t == 2 || t == 11 }
fn follow_of(t: u8, prev: u8) -> u8 { if t == 4 { 1 } else if t == 5 { 2 } else if t == 9 { 0 } else { prev } }
fn follow_code(f: Follow) -> u8 { match f { Follow::Never => 0, Follow::Roots => 1, Follow::Always => 2 } }

// @harness props=C18 tier=quick cost=120 flags=nomem
// @exec parse_args (global options scan, operand scan, default "."), Config::default
// @sym exactly two tokens, each from a 12-word vocabulary (paths, "-", "--", -H/-L/-P/-O2, "!", "(", an expression word)
// @bounds 2 tokens; the expression parser (build_top_level_matcher) is cut and only records how many tokens it was given
// @replay parse_args_operands
/// Leading -H/-L/-P/-O* set the follow mode and are consumed, "--" ends them; operands run up to the first token that starts an
/// expression; they are kept in order and spelled as given; none => "."; the rest goes to the expression parser.
#[kani::proof]
#[kani::unwind(7)]
#[kani::stub(alloc::fmt::format, fmt_stub)]
#[kani::stub(alloc::raw_vec::handle_error, he_stub)]
#[kani::stub(std::alloc::handle_alloc_error, hae_stub)]
#[kani::stub(matchers::build_top_level_matcher, btlm_stub)]
fn c18_parse_args_two_tokens() {
    let t0: u8 = kani::any(); let t1: u8 = kani::any();
    kani::assume((t0 as usize) < VOC.len() && (t1 as usize) < VOC.len());
    let args: [&str; 2] = [VOC[t0 as usize], VOC[t1 as usize]];
    let (k, follow): (usize, u8) =
        if t0 == 3 { (1, 0) }
        else if is_flag(t0) {
            let f0 = follow_of(t0, 0);
            if t1 == 3 { (2, f0) } else if is_flag(t1) { (2, follow_of(t1, f0)) } else { (1, f0) }
        } else { (0, 0) };
    let np: usize = if k == 0 { if is_path(t0) { if is_path(t1) { 2 } else { 1 } } else { 0 } }
                    else if k == 1 { if is_path(t1) { 1 } else { 0 } } else { 0 };
    let r = parse_args(&args);
    match r {
        Ok(p) => {
            assert!(follow_code(p.config.follow) == follow);
            if np == 0 { assert!(p.paths.len() == 1 && p.paths[0] == "."); }
            else if np == 1 { assert!(p.paths.len() == 1 && p.paths[0] == args[k]); }
            else { assert!(p.paths.len() == 2 && p.paths[0] == args[0] && p.paths[1] == args[1]); }
            unsafe { assert!(EXPR_LEN == 2 - k - np); }
            kani::cover!(np == 2 && t0 == 11);
            kani::cover!(k == 2 && follow == 1);
            kani::cover!(k == 1 && np == 1 && t0 == 3 && t1 == 2);
            std::mem::forget(p);
        }
        Err(e) => { std::mem::forget(e); assert!(false); }
    }
}
#[kani::proof]
#[kani::unwind(7)]
#[kani::stub(alloc::fmt::format, fmt_stub)]
#[kani::stub(alloc::raw_vec::handle_error, he_stub)]
#[kani::stub(std::alloc::handle_alloc_error, hae_stub)]
#[kani::stub(matchers::build_top_level_matcher, btlm_stub)]
fn c18_parse_args_two_tokens_canary() {
    let t0: u8 = kani::any();
    kani::assume((t0 as usize) < VOC.len());
    let args: [&str; 2] = [VOC[t0 as usize], "a"];
    match parse_args(&args) {
        Ok(p) => { assert!(p.paths.len() == 2); std::mem::forget(p); } // every first token is an operand: must FAIL
        Err(e) => { std::mem::forget(e); }
    }
}

// ---------------------------------------------------------------------------------------------
// C18/C02: do_find's loop over starting points (parse_args and process_dir abstracted)
// ---------------------------------------------------------------------------------------------
const DF_MAX: usize = 3;
static mut DF_N: usize = 0;
static mut DF_CALLS: usize = 0;
static mut DF_SEEN: [u8; DF_MAX] = [0; DF_MAX];
static mut DF_CODES: [i32; DF_MAX] = [0; DF_MAX];
static mut DF_QUITS: [bool; DF_MAX] = [false; DF_MAX];
static mut DF_HELP: bool = false;
fn parse_args_script(_args: &[&str]) -> Result<ParsedInfo, Box<dyn Error>> {
    let mut paths: Vec<String> = Vec::with_capacity(DF_MAX);
    unsafe {
        if DF_N >= 1 { paths.push(String::from("a")); }
        if DF_N >= 2 { paths.push(String::from("b")); }
        if DF_N >= 3 { paths.push(String::from("c")); }
    }
    let mut config = Config::default();
    unsafe { config.help_requested = DF_HELP; }
    Ok(ParsedInfo { matcher: Box::new(VerifTrue), paths, config })
}
fn process_dir_script(dir: &str, _c: &Config, _d: &dyn Dependencies, _m: &dyn matchers::Matcher, quit: &mut bool) -> i32 {
    unsafe {
        let i = DF_CALLS; DF_CALLS += 1;
        if i < DF_MAX { DF_SEEN[i] = dir.as_bytes()[0]; if DF_QUITS[i] { *quit = true; } DF_CODES[i] } else { 0 }
    }
}
fn print_help_cut() {}

fn run_do_find<const N: usize>(canary: bool) {
    unsafe {
        DF_N = N;
        DF_CALLS = 0; DF_SEEN = [0; DF_MAX];
        DF_CODES = kani::any(); DF_QUITS = kani::any(); DF_HELP = kani::any();
        kani::assume(DF_CODES[0] >= 0 && DF_CODES[0] <= 2 && DF_CODES[1] >= 0 && DF_CODES[1] <= 2 && DF_CODES[2] >= 0 && DF_CODES[2] <= 2);
    }
    let deps = Deps::new();
    let r = do_find(&["x"], &deps);
    unsafe {
        match r {
            Ok(code) => {
                if DF_HELP { assert!(DF_CALLS == 0 && code == 0); return; }
                if canary { assert!(code == DF_CODES[DF_N - 1]); return; } // "the last starting point decides the status": must FAIL
                // expected: walk in order until a quit
                let mut want_calls = 0usize; let mut quit = false; let mut failed = false;
                let mut i = 0;
                while i < DF_MAX {
                    if i < DF_N && !quit {
                        want_calls += 1;
                        if DF_CODES[i] != 0 { failed = true; }
                        if DF_QUITS[i] { quit = true; }
                    }
                    i += 1;
                }
                assert!(DF_CALLS == want_calls);
                let names = [b'a', b'b', b'c'];
                let mut i = 0;
                while i < DF_MAX { if i < want_calls { assert!(DF_SEEN[i] == names[i]); } i += 1; }
                assert!((code != 0) == failed);
                kani::cover!(want_calls == N && failed && DF_CODES[N - 1] == 0);
                kani::cover!(want_calls == 1 && N >= 2);
                kani::cover!(want_calls == N && !failed);
            }
            Err(e) => { std::mem::forget(e); assert!(false); }
        }
    }
}

// @harness props=C18,C02,C01 tier=quick cost=60 flags=nomem
// @exec do_find (loop over starting points, exit-status accumulation, stop after -quit, -help short-cut)
// @sym exactly 3 starting points (2: c18_do_find_loop2); per starting point the status process_dir returns (0..2) and whether the expression quit; help flag
// @bounds at most 3 starting points; parse_args and process_dir replaced by scripts (their own behaviour: c18_parse_args_two_tokens, c03_walk_loop*)
// @replay do_find_loop
/// Starting points are walked one after another in the order given; a failing one makes the exit status non-zero and does not
/// prevent the others from being processed; after -quit no further starting point is walked.
#[kani::proof]
#[kani::unwind(5)]
#[kani::stub(alloc::fmt::format, fmt_stub)]
#[kani::stub(alloc::raw_vec::handle_error, he_stub)]
#[kani::stub(std::alloc::handle_alloc_error, hae_stub)]
#[kani::stub(parse_args, parse_args_script)]
#[kani::stub(process_dir, process_dir_script)]
#[kani::stub(print_help, print_help_cut)]
#[kani::stub(print_version, print_help_cut)]
fn c18_do_find_loop() { run_do_find::<3>(false); }
#[kani::proof]
#[kani::unwind(5)]
#[kani::stub(alloc::fmt::format, fmt_stub)]
#[kani::stub(alloc::raw_vec::handle_error, he_stub)]
#[kani::stub(std::alloc::handle_alloc_error, hae_stub)]
#[kani::stub(parse_args, parse_args_script)]
#[kani::stub(process_dir, process_dir_script)]
#[kani::stub(print_help, print_help_cut)]
#[kani::stub(print_version, print_help_cut)]
fn c18_do_find_loop_canary() { run_do_find::<3>(true); }
// @harness props=C18,C02 tier=quick cost=40 flags=nomem
// @exec do_find with exactly 2 starting points
// @sym as c18_do_find_loop
// @bounds 2 starting points
#[kani::proof]
#[kani::unwind(5)]
#[kani::stub(alloc::fmt::format, fmt_stub)]
#[kani::stub(alloc::raw_vec::handle_error, he_stub)]
#[kani::stub(std::alloc::handle_alloc_error, hae_stub)]
#[kani::stub(parse_args, parse_args_script)]
#[kani::stub(process_dir, process_dir_script)]
#[kani::stub(print_help, print_help_cut)]
#[kani::stub(print_version, print_help_cut)]
fn c18_do_find_loop2() { run_do_find::<2>(false); }
