"""Parser for rustc's textual MIR dump (-Zunpretty=mir) — the subset findutils' functions use.

Produces Function objects: name, params, return type, blocks; each block = list of statements + terminator,
already parsed into small tuples so that the interpreter does no text processing.
"""
import re

# ----------------------------------------------------------------------------------------------- splitting helpers


def split_top(s, sep=","):
    """split at top-level separators (not inside () [] {} <> or string literals)"""
    out, depth, cur, i, n = [], 0, [], 0, len(s)
    instr = False
    while i < n:
        c = s[i]
        if instr:
            cur.append(c)
            if c == "\\" and i + 1 < n:
                cur.append(s[i + 1]); i += 1
            elif c == '"':
                instr = False
        elif c == '"':
            instr = True; cur.append(c)
        elif c in "([{":
            depth += 1; cur.append(c)
        elif c in ")]}":
            depth -= 1; cur.append(c)
        elif c == "<" and _is_generic_open(s, i):
            depth += 1; cur.append(c)
        elif c == ">" and depth > 0 and _is_generic_close(s, i):
            depth -= 1; cur.append(c)
        elif c == sep and depth == 0:
            out.append("".join(cur).strip()); cur = []
        else:
            cur.append(c)
        i += 1
    if "".join(cur).strip():
        out.append("".join(cur).strip())
    return out


def _is_generic_open(s, i):
    # '<' opens generics when preceded by an identifier char, ':' or start / after '(' ',' ' ' '&'
    if i + 1 < len(s) and s[i + 1] in "= ":
        return False
    return True


def _is_generic_close(s, i):
    if i > 0 and s[i - 1] in "-=":   # '->' or '=>'
        return False
    return True


def match_paren(s, i):
    """s[i] is an opening bracket; return index of its match"""
    pairs = {"(": ")", "[": "]", "{": "}"}
    o, c = s[i], pairs[s[i]]
    depth, instr, j = 0, False, i
    while j < len(s):
        ch = s[j]
        if instr:
            if ch == "\\":
                j += 1
            elif ch == '"':
                instr = False
        elif ch == '"':
            instr = True
        elif ch == o:
            depth += 1
        elif ch == c:
            depth -= 1
            if depth == 0:
                return j
        j += 1
    raise ValueError("unbalanced: " + s[i:i + 80])


# ----------------------------------------------------------------------------------------------- places / operands
class Place:
    __slots__ = ("local", "proj")

    def __init__(self, local, proj):
        self.local, self.proj = local, proj   # proj: list of ("deref",) ("field", n) ("downcast", name) ("index", local) ("constindex", n)

    def __repr__(self):
        return "Place(_%d%s)" % (self.local, "".join(":" + "/".join(map(str, p)) for p in self.proj))


def parse_place(s):
    s = s.strip()
    if s.startswith("(fake) "):
        s = s[7:]
    proj = []
    # peel postfix index / outer wrappers recursively
    while True:
        s = s.strip()
        m = re.match(r"^_(\d+)$", s)
        if m:
            return Place(int(m.group(1)), list(reversed(proj)))
        if s.endswith("]"):
            # P[_i] or P[n of m] or P[a..b]
            k = len(s) - 1
            depth = 0
            while k >= 0:
                if s[k] == "]":
                    depth += 1
                elif s[k] == "[":
                    depth -= 1
                    if depth == 0:
                        break
                k -= 1
            idx = s[k + 1:-1].strip()
            mi = re.match(r"^_(\d+)$", idx)
            if mi:
                proj.append(("index", int(mi.group(1))))
            else:
                mc = re.match(r"^(-?\d+) of (\d+)$", idx)
                if mc:
                    proj.append(("constindex", int(mc.group(1))))
                else:
                    raise ValueError("index form: " + s)
            s = s[:k]
            continue
        if s.startswith("(*") and match_paren(s, 0) == len(s) - 1:
            proj.append(("deref",))
            s = s[2:-1]
            continue
        if s.startswith("(") and match_paren(s, 0) == len(s) - 1:
            inner = s[1:-1].strip()
            # (P.N: T)  or (P as Variant)
            # find top-level ' as ' or field access '.N:' at top-level from the right
            k = _find_top(inner, " as ")
            kf = _find_field(inner)
            if kf is not None and (k is None or kf[0] > k):
                pos, n = kf
                proj.append(("field", n))
                s = inner[:pos]
                continue
            if k is not None:
                proj.append(("downcast", inner[k + 4:].strip()))
                s = inner[:k]
                continue
            s = inner
            continue
        # P.N without type annotation (rare)
        m = re.match(r"^(.*)\.(\d+)$", s)
        if m:
            proj.append(("field", int(m.group(2))))
            s = m.group(1)
            continue
        raise ValueError("place: " + s)


def _find_top(s, needle):
    depth, i, last = 0, 0, None
    while i < len(s):
        c = s[i]
        if c in "([{<" and not (c == "<" and not _is_generic_open(s, i)):
            depth += 1
        elif c in ")]}" or (c == ">" and depth > 0 and _is_generic_close(s, i)):
            depth -= 1
        elif depth == 0 and s.startswith(needle, i):
            last = i
        i += 1
    return last


def _find_field(s):
    """position of a top-level '.N:' (field projection with type annotation), rightmost"""
    depth, i, last = 0, 0, None
    while i < len(s):
        c = s[i]
        if c in "([{":
            depth += 1
        elif c in ")]}":
            depth -= 1
        elif c == "." and depth == 0:
            m = re.match(r"\.(\d+):", s[i:])
            if m:
                last = (i, int(m.group(1)))
        i += 1
    return last


def parse_operand(s):
    s = s.strip()
    if s.startswith("copy "):
        return ("copy", parse_place(s[5:]))
    if s.startswith("move "):
        return ("move", parse_place(s[5:]))
    if s.startswith("no_retag copy "):
        return ("copy", parse_place(s[14:]))
    if s.startswith("const "):
        return ("const", parse_const(s[6:]))
    if re.match(r"^[A-Za-z_<]", s):
        return ("const", ("other", s))     # function items passed as values
    raise ValueError("operand: " + s)


def parse_const(s):
    s = s.strip()
    if s == "true":
        return ("bool", True)
    if s == "false":
        return ("bool", False)
    if s == "()":
        return ("unit", None)
    m = re.match(r'^"\x00(\d+)\x00"$', s)
    if m:
        return ("str", _unescape(STRTAB[int(m.group(1))]))
    m = re.match(r'^"((?:[^"\\]|\\.)*)"$', s, flags=re.S)
    if m:
        return ("str", _unescape(m.group(1)))
    m = re.match(r"^b\"((?:[^\"\\]|\\.)*)\"$", s)
    if m:
        g = m.group(1)
        mm = re.match(r"^\x00(\d+)\x00$", g)
        if mm:
            g = STRTAB[int(mm.group(1))]
        return ("bytes", list(bytes(g, "utf-8").decode("unicode_escape").encode("latin-1")))
    m = re.match(r"^(-?\d+)_(u8|u16|u32|u64|u128|usize|i8|i16|i32|i64|i128|isize)$", s)
    if m:
        return ("int", int(m.group(1)), m.group(2))
    m = re.match(r"^'\x01(\d+)\x01'$", s)
    if m:
        ch = _unescape(STRTAB[int(m.group(1))])
        return ("char", ch)
    m = re.match(r"^'(.*)'$", s)
    if m:
        ch = m.group(1)
        ch = bytes(ch, "utf-8").decode("unicode_escape") if ch.startswith("\\") else ch
        return ("char", ch)
    m = re.match(r"^ZeroSized: (.*)$", s)
    if m:
        return ("zst", m.group(1).strip())
    m = re.match(r"^(-?[\d.]+(?:e[+-]?\d+)?)f(32|64)$", s)
    if m:
        return ("float", float(m.group(1)))
    return ("other", s)   # fn items, promoted consts, paths to constants


BINOPS = {"Add", "Sub", "Mul", "Div", "Rem", "BitAnd", "BitOr", "BitXor", "Shl", "Shr", "Eq", "Ne", "Lt", "Le", "Gt", "Ge", "Offset", "Cmp",
          "AddWithOverflow", "SubWithOverflow", "MulWithOverflow", "AddUnchecked", "SubUnchecked", "MulUnchecked", "ShlUnchecked", "ShrUnchecked"}
UNOPS = {"Not", "Neg", "PtrMetadata"}


def parse_rvalue(s):
    s = s.strip()
    if s.startswith(("copy ", "move ", "const ", "no_retag copy ")):
        # maybe a cast: "<operand> as T (Kind)"
        k = _find_top(s, " as ")
        if k is not None and s.endswith(")"):
            mk = re.search(r"\(([A-Za-z]+(?:\(.*\))?)\)$", s)
            if mk:
                ty = s[k + 4: s.rfind("(" + mk.group(1) + ")")].strip()
                return ("cast", parse_operand(s[:k]), ty, mk.group(1))
        return ("use", parse_operand(s))
    if s.startswith("&raw const "):
        return ("ref", parse_place(s[11:]), "raw")
    if s.startswith("&raw mut "):
        return ("ref", parse_place(s[9:]), "raw")
    if s.startswith("&mut "):
        return ("ref", parse_place(s[5:]), "mut")
    if s.startswith("&"):
        rest = s[1:].strip()
        if rest.startswith("fake "):
            rest = rest[5:].lstrip()
            if rest.startswith("shallow "):
                rest = rest[8:]
        return ("ref", parse_place(rest), "shared")
    m = re.match(r"^([A-Za-z]+)\((.*)\)$", s, flags=re.S)
    if m and m.group(1) in BINOPS:
        a, b = split_top(m.group(2))
        return ("binop", m.group(1), parse_operand(a), parse_operand(b))
    if m and m.group(1) in UNOPS:
        return ("unop", m.group(1), parse_operand(m.group(2)))
    if m and m.group(1) == "discriminant":
        return ("discriminant", parse_place(m.group(2)))
    if m and m.group(1) == "Len":
        return ("len", parse_place(m.group(2)))
    if m and m.group(1) == "ShallowInitBox":
        a, _ty = split_top(m.group(2))
        return ("use", parse_operand(a))
    if s.startswith("[") and s.endswith("]"):
        inner = s[1:-1]
        if ";" in inner and _find_top(inner, ";") is not None:
            k = _find_top(inner, ";")
            return ("repeat", parse_operand(inner[:k]), inner[k + 1:].strip())
        return ("aggregate", "array", None, [parse_operand(x) for x in split_top(inner)] if inner.strip() else [])
    if s.startswith("(") and match_paren(s, 0) == len(s) - 1:
        inner = s[1:-1]
        return ("aggregate", "tuple", None, [parse_operand(x) for x in split_top(inner)] if inner.strip() else [])
    # struct / enum aggregates:  Path { f: op, .. }  |  Path(op, ..)  |  Path
    mb = re.search(r"\s\{\s", s)
    if s.endswith("}") and mb:
        path = s[:mb.start()].strip()
        inner = s[mb.end() - 1: -1].strip()
        fields = []
        for f in split_top(inner):
            k = f.index(":")
            fields.append((f[:k].strip(), parse_operand(f[k + 1:])))
        return ("aggregate", "struct", path, fields)
    if s.endswith(")"):
        # find the matching '(' of the final ')'
        depth, k = 0, len(s) - 1
        while k >= 0:
            if s[k] == ")":
                depth += 1
            elif s[k] == "(":
                depth -= 1
                if depth == 0:
                    break
            k -= 1
        path, inner = s[:k].strip(), s[k + 1:-1]
        if path:
            return ("aggregate", "ctor", path, [parse_operand(x) for x in split_top(inner)] if inner.strip() else [])
    if re.match(r"^[A-Za-z_<][\w:<>,' &\[\]()*-]*$", s):
        return ("aggregate", "ctor", s, [])      # unit struct / fieldless variant
    raise ValueError("rvalue: " + s)


# ----------------------------------------------------------------------------------------------- functions
class Function:
    def __init__(self, name, params, ret, header):
        self.name, self.params, self.ret, self.header = name, params, ret, header
        self.blocks = {}
        self.local_types = {}
        self.impl_at = None

    def __repr__(self):
        return "Function(%s)" % self.name


TARGETS_RE = re.compile(r"->\s*(?:\[(.*)\]|unwind\s+\w+|bb(\d+))\s*;?$")


def parse_targets(s):
    """'[return: bb1, unwind: bb2]' -> dict"""
    out = {}
    for part in split_top(s):
        if ":" not in part:
            continue          # "unwind continue", "unwind terminate(cleanup)", "unwind unreachable"
        k, v = part.split(":", 1)
        out[k.strip()] = v.strip()
    return out


def _bb(s):
    m = re.match(r"bb(\d+)", s.strip())
    return int(m.group(1)) if m else None


STRTAB = []


def _hide_strings(s):
    def rep(m):
        STRTAB.append(m.group(1))
        return '"\x00%d\x00"' % (len(STRTAB) - 1)
    s = re.sub(r'"((?:[^"\\]|\\.)*)"', rep, s)

    def repc(m):
        STRTAB.append(m.group(1))
        return "'\x01%d\x01'" % (len(STRTAB) - 1)
    return re.sub(r"'((?:\\u\{[0-9a-fA-F]+\}|\\.|[^'\\]))'", repc, s)


def _unescape(t):
    def u(m):
        return chr(int(m.group(1), 16))
    t = re.sub(r"\\u\{([0-9a-fA-F]+)\}", u, t)
    if "\\" in t:
        try:
            t = bytes(t, "utf-8").decode("unicode_escape").encode("latin-1").decode("utf-8", errors="replace")
        except Exception:
            pass
    return t


def parse_statement(line):
    """returns ('assign', place, rvalue) | ('nop',) | ('setdisc', place, n) or a terminator tuple"""
    s = _hide_strings(line.strip().rstrip(";").strip())
    if s.startswith(("StorageLive", "StorageDead", "Retag", "FakeRead", "AscribeUserType", "PlaceMention", "Coverage", "nop", "ConstEvalCounter", "BackwardIncompatibleDropHint")):
        return ("nop",)
    if s.startswith("goto -> "):
        return ("goto", _bb(s[8:]))
    if s == "return":
        return ("return",)
    if s == "unreachable":
        return ("unreachable",)
    if s.startswith("resume") or s.startswith("unwind ") or s.startswith("terminate") or s.startswith("abort"):
        return ("resume",)
    if s.startswith("switchInt("):
        e = match_paren(s, 9)
        op = parse_operand(s[10:e])
        m = re.search(r"\[(.*)\]$", s[e:])
        tg = []
        for part in split_top(m.group(1)):
            k, v = part.split(":")
            k = k.strip()
            tg.append((None if k == "otherwise" else int(re.match(r"-?\d+", k).group(0)), _bb(v)))
        return ("switch", op, tg)
    if s.startswith("drop("):
        e = match_paren(s, 4)
        tg = parse_targets(re.search(r"\[(.*)\]$", s[e:]).group(1))
        return ("drop", parse_place(s[5:e]), _bb(tg["return"]))
    if s.startswith("assert("):
        e = match_paren(s, 6)
        args = split_top(s[7:e])
        cond = args[0]
        neg = cond.startswith("!")
        tg = parse_targets(re.search(r"\[(.*)\]$", s[e:]).group(1))
        return ("assert", parse_operand(cond[1:] if neg else cond), neg, args[1] if len(args) > 1 else "", _bb(tg["success"]))
    # assignment or call
    k = _find_top(s, " = ")
    if k is None:
        # call without destination?  "f(args) -> ..."
        raise ValueError("statement: " + s)
    k = s.index(" = ")
    lhs, rhs = s[:k], s[k + 3:]
    if lhs.startswith("discriminant("):
        return ("setdisc", parse_place(lhs[13:-1]), int(rhs))
    marrow = re.search(r"\)\s*->\s*(\[.*\]|unwind \w+(?:\(\w+\))?)$", rhs)
    if marrow:
        callpart = rhs[:marrow.start() + 1]
        # callee(args)
        depth, j = 0, len(callpart) - 1
        while j >= 0:
            if callpart[j] == ")":
                depth += 1
            elif callpart[j] == "(":
                depth -= 1
                if depth == 0:
                    break
            j -= 1
        callee = callpart[:j].strip()
        args = [parse_operand(a) for a in split_top(callpart[j + 1:-1])] if callpart[j + 1:-1].strip() else []
        tgs = marrow.group(1)
        ret = None
        if tgs.startswith("["):
            ret = _bb(parse_targets(tgs[1:-1]).get("return", "")) if "return" in tgs else None
        return ("call", parse_place(lhs), callee, args, ret)
    return ("assign", parse_place(lhs), parse_rvalue(rhs))


def parse_mir(text, want=None):
    """-> dict name -> Function.  `want`: optional predicate on the function header name to limit work."""
    funcs = {}
    lines = text.splitlines()
    i, n = 0, len(lines)
    while i < n:
        line = lines[i]
        mk = re.match(r"^(?:const|static) ([\w:]+): (.+?) = (const .+);$", line)
        if mk:
            f = Function(mk.group(1), [], mk.group(2), line)
            f.blocks[0] = ["_0 = %s;" % mk.group(3), "return;"]
            funcs.setdefault(mk.group(1), f)
            i += 1
            continue
        m = re.match(r"^fn (.+?)\((.*)\)(?: -> (.*))? \{$", line)
        if not m:
            mc = re.match(r"^const (.*::promoted\[\d+\]): (.*) = \{$", line) or re.match(r"^(?:const|static) ([\w:]+): (.*) = \{$", line)
            if mc:
                m = re.match(r"^(.*)()()$", mc.group(1))   # promoted constant: a nullary function
        if not m or line.startswith("    "):
            i += 1
            continue
        name = m.group(1)
        # find the end of the function
        j = i + 1
        while j < n and lines[j] != "}":
            j += 1
        if want is None or want(name):
            params = []
            for p in split_top(m.group(2) or ""):
                mp = re.match(r"^_(\d+): (.*)$", p)
                if mp:
                    params.append((int(mp.group(1)), mp.group(2)))
            f = Function(name, params, m.group(3), line)
            mi = re.search(r"<impl at ([^:]+):(\d+):\d+: \d+:\d+>", name)
            if mi:
                f.impl_at = (mi.group(1), int(mi.group(2)))
            cur = None
            k = i + 1
            while k < j:
                l = lines[k]
                mb = re.match(r"^    bb(\d+)(?: \(cleanup\))?: \{$", l)
                if mb:
                    cur = int(mb.group(1))
                    f.blocks[cur] = []
                elif l.strip() == "}":
                    cur = None if l.startswith("    }") else cur
                elif cur is not None and l.strip():
                    stmt = l.strip()
                    # statements may span lines (long aggregates): join until ';' at end
                    while not stmt.endswith(";") and k + 1 < j:
                        k += 1
                        stmt += " " + lines[k].strip()
                    f.blocks[cur].append(stmt)
                else:
                    ml = re.match(r"^\s+let (?:mut )?_(\d+): (.*);$", l)
                    if ml:
                        f.local_types[int(ml.group(1))] = ml.group(2)
                k += 1
            for pid, pty in params:
                f.local_types[pid] = pty
            funcs.setdefault(name, f)
        i = j + 1
    return funcs


def compile_function(f):
    """parse statements lazily (first use)"""
    if getattr(f, "compiled", None) is not None:
        return f.compiled
    comp = {}
    for b, stmts in f.blocks.items():
        comp[b] = [parse_statement(s) for s in stmts]
    f.compiled = comp
    return comp
