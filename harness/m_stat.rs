// harnesses for module m_stat (included into /repo under cfg(kani))
