// Standard cuts shared by every harness (DESIGN.md section 2, rule 4).  Included textually by
// m_entry.rs (find side; re-exported from there) and xargs.rs.
/// `alloc::fmt::format` → empty string: diagnostics only.
#[allow(dead_code)]
pub fn fmt_stub(_args: std::fmt::Arguments<'_>) -> String { String::new() }
/// Kani's allocator cannot fail: the capacity-overflow / OOM handlers are unreachable.
#[allow(dead_code)]
pub fn he_stub(_e: std::collections::TryReserveError) -> ! { kani::assume(false); unreachable!() }
#[allow(dead_code)]
pub fn hae_stub(_l: std::alloc::Layout) -> ! { kani::assume(false); unreachable!() }
/// `std::rt::thread_cleanup`: Kani 0.68 ICEs on the catch_unwind intrinsic inside it.
#[allow(dead_code)]
pub fn noop_stub() {}
/// `<Stderr as Write>::write_fmt` → Ok(()): diagnostics only.
#[allow(dead_code)]
pub fn wf_stub(_s: &mut std::io::Stderr, _a: std::fmt::Arguments<'_>) -> std::io::Result<()> { Ok(()) }
#[allow(dead_code)]
pub fn eprint_stub(_a: std::fmt::Arguments<'_>) {}
#[allow(dead_code)]
pub fn keys_stub() -> std::hash::RandomState { unsafe { std::mem::transmute((1u64, 2u64)) } }
