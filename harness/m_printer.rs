// harnesses for module m_printer (included into /repo under cfg(kani))
