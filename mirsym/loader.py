"""Regenerate the MIR dump from /repo's working tree and index its functions."""
import glob, os, re, subprocess, time
import mirparse
from interp import type_key

REPO = os.environ.get("FINDUTILS_REPO", "/repo")
CACHE = os.environ.get("FINDUTILS_VERIF_CACHE", "/root/.cache/findutils-verif")


def dump_mir(repo=REPO):
    """cargo +nightly rustc -- -Zunpretty=mir into a private target dir; returns (text, seconds)"""
    tdir = os.path.join(CACHE, "mir-target")
    os.makedirs(tdir, exist_ok=True)
    t0 = time.time()
    os.utime(os.path.join(repo, "src", "lib.rs"))       # force the crate to be re-emitted
    p = subprocess.run(["cargo", "+nightly", "rustc", "--offline", "--lib", "--target-dir", tdir, "--",
                        "-Zunpretty=mir", "-C", "debug-assertions=off", "-C", "overflow-checks=on"],
                       cwd=repo, capture_output=True, text=True, env=dict(os.environ, CARGO_NET_OFFLINE="true"))
    if p.returncode != 0 or "fn " not in p.stdout:
        raise RuntimeError("MIR dump failed:\n" + p.stderr[-2000:])
    return p.stdout, time.time() - t0


def source_line(repo, path, line):
    try:
        with open(os.path.join(repo, path)) as f:
            return f.read().splitlines()[line - 1]
    except Exception:
        return ""


IMPL_RE = re.compile(r"^\s*(?:unsafe\s+)?impl(?:<[^>]*>)?\s+(?:(.+?)\s+for\s+)?(.+?)\s*(?:where.*)?\{?\s*$")


def build_index(funcs, repo=REPO):
    """key (as produced by interp.normalize_callee) -> Function"""
    index = {}
    for name, f in funcs.items():
        if "::promoted[" in name:
            base, suffix = name.split("::promoted[", 1)
            mi = re.search(r"<impl at ([^:]+):(\d+):\d+: \d+:\d+>", base)
            method = base.split("::")[-1]
            key = None
            if mi:
                m = IMPL_RE.match(source_line(repo, mi.group(1), int(mi.group(2))))
                if m:
                    trait, ty = m.group(1), m.group(2)
                    key = ("<%s as %s>::%s" % (type_key(ty), type_key(trait), method)) if trait else "%s::%s" % (type_key(ty), method)
            else:
                key = method
            if key:
                index[key + "::promoted[" + suffix] = f
            index[name] = f
            continue
        if "{closure" in name or "{constant" in name or "::{" in name:
            index[name] = f
            if f.params:
                mc = re.search(r"\{closure@[^}]*\}", f.params[0][1])
                if mc:
                    index[mc.group(0)] = f       # closures are looked up by their source location
            continue
        method = name.split("::")[-1]
        if f.impl_at:
            src = source_line(repo, *f.impl_at)
            m = IMPL_RE.match(src)
            if not m:
                if "derive" in src and f.params:
                    # #[derive(..)] impls: the trait follows from the method, the type from the receiver
                    trait = {"eq": "PartialEq", "ne": "PartialEq", "clone": "Clone", "fmt": "Debug", "cmp": "Ord", "partial_cmp": "PartialOrd", "hash": "Hash"}.get(method)
                    ty = type_key(f.params[0][1].lstrip("&").replace("mut ", ""))
                    if trait:
                        index.setdefault("<%s as %s>::%s" % (ty, trait, method), f)
                elif "derive" in src and method == "default" and f.ret:
                    index.setdefault("<%s as Default>::default" % type_key(f.ret), f)
                continue
            trait, ty = m.group(1), m.group(2)
            tk = type_key(ty)
            if trait:
                k = "<%s as %s>::%s" % (tk, type_key(trait), method)
                if k in index and index[k] is not f:
                    # two impls whose keys coincide after path stripping (From<std::io::Error> / From<walkdir::Error>): resolved at the call site by parameter type
                    index.setdefault("?" + k, [index[k]]).append(f)
                index[k] = f
            else:
                index["%s::%s" % (tk, method)] = f
        else:
            segs = name.split("::")
            if len(segs) >= 2 and segs[-2][:1].isupper():
                index["%s::%s" % (segs[-2], method)] = f        # trait default methods: Matcher::into_box
            index.setdefault(method, f)
            index[name] = f
    return index


def crate_enums(repo=REPO):
    """enum name -> [variant names] in declaration order, scanned from the crate sources"""
    enums = {}
    for path in glob.glob(os.path.join(repo, "src", "**", "*.rs"), recursive=True):
        text = open(path).read()
        text = re.sub(r"//[^\n]*", "", text)
        for m in re.finditer(r"\benum\s+(\w+)(?:<[^>]*>)?\s*\{", text):
            i = m.end()
            depth, j = 1, i
            while j < len(text) and depth:
                if text[j] == "{":
                    depth += 1
                elif text[j] == "}":
                    depth -= 1
                j += 1
            body = text[i:j - 1]
            vs = []
            depth = 0
            cur = ""
            for ch in body:
                if ch in "({[":
                    depth += 1
                elif ch in ")}]":
                    depth -= 1
                if ch == "," and depth == 0:
                    vs.append(cur); cur = ""
                else:
                    cur += ch
            vs.append(cur)
            names = []
            for v in vs:
                v = re.sub(r"#\[[^\]]*\]", "", v).strip()
                mv = re.match(r"^(\w+)", v)
                if mv:
                    names.append(mv.group(1))
            enums[m.group(1)] = names
    return enums


def load(repo=REPO, text=None):
    secs = 0.0
    if text is None:
        text, secs = dump_mir(repo)
    funcs = mirparse.parse_mir(text)
    return funcs, build_index(funcs, repo), crate_enums(repo), secs, text
