// C13/C14: -links and -inum are the numeric comparison on the selected record's field.
use super::*;
use crate::find::matchers::entry::verif_kani::*;
use crate::find::matchers::Follow;

pub fn any_cv() -> (ComparableValue, u8, u64) {
    let n: u64 = kani::any();
    let k = kani::any::<u8>() % 3;
    (match k { 0 => ComparableValue::MoreThan(n), 1 => ComparableValue::EqualTo(n), _ => ComparableValue::LessThan(n) }, k, n)
}
pub fn want_cmp(k: u8, n: u64, v: u64) -> bool { match k { 0 => v > n, 1 => v == n, _ => v < n } }

// @harness props=C13,C14 tier=quick cost=60 flags=nomem
// @exec LinksMatcher::matches, InodeMatcher::matches, ComparableValue::matches, WalkEntry::metadata, Follow::metadata_at_depth
// @sym world (lstat/stat records, errno {ENOENT,ELOOP}), follow P/H/L, depth 0..1, N: u64, form N/+N/-N
// @bounds one path; depth <= 1
// @assume kernel contract for stat vs lstat
#[kani::proof]
#[kani::unwind(3)]
#[kani::stub(alloc::fmt::format, fmt_stub)]
#[kani::stub(std::fs::metadata, stat_stub)]
#[kani::stub(std::fs::symlink_metadata, lstat_stub)]
fn c13_links_inum_record() {
    let (lst, sst, s_ok, s_err) = any_world(&[libc::ENOENT, libc::ELOOP]);
    let follow = any_follow();
    let depth: usize = kani::any();
    kani::assume(depth <= 1);
    let entry = WalkEntry::new("a", depth, follow);
    let (cv, k, n) = any_cv();
    let deps = Deps::new();
    let mut io = MatcherIO::new(&deps);
    let rec = selected_record(lst, sst, s_ok, s_err, follow.follow_at_depth(depth));
    if kani::any() {
        let got = LinksMatcher::new(cv).matches(&entry, &mut io);
        match rec { Some(r) => assert!(got == want_cmp(k, n, r.st_nlink)), None => assert!(!got) }
        kani::cover!(got && k == 0);
    } else {
        let got = InodeMatcher::new(cv).matches(&entry, &mut io);
        match rec { Some(r) => assert!(got == want_cmp(k, n, r.st_ino)), None => assert!(!got) }
        kani::cover!(got && k == 2 && follow == Follow::Always && s_ok && lst.st_ino != sst.st_ino);
    }
    std::mem::forget(entry);
}
#[kani::proof]
#[kani::unwind(3)]
#[kani::stub(alloc::fmt::format, fmt_stub)]
#[kani::stub(std::fs::metadata, stat_stub)]
#[kani::stub(std::fs::symlink_metadata, lstat_stub)]
fn c13_links_inum_record_canary() {
    let (lst, _sst, _s_ok, _s_err) = any_world(&[libc::ENOENT]);
    let entry = WalkEntry::new("a", 0, any_follow());
    let (cv, k, n) = any_cv();
    let deps = Deps::new();
    let mut io = MatcherIO::new(&deps);
    let got = InodeMatcher::new(cv).matches(&entry, &mut io);
    assert!(got == want_cmp(k, n, lst.st_ino)); // always lstat: must FAIL
    std::mem::forget(entry);
}
