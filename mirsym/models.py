"""Models of the std/alloc/core functions the interpreted findutils code calls (documented behaviour only)."""
import re, z3
from interp import (type_key, BoxObj, Enum, Opaque, Ptr, RStr, RustPanic, SliceRef, Struct, Tuple, UNIT, Unsupported, VecObj)

EXACT, PATTERNS = {}, []


def model(*keys):
    def deco(fn):
        for k in keys:
            if k.startswith("^"):
                PATTERNS.append((re.compile(k), fn))
            else:
                EXACT[k] = fn
        return fn
    return deco


def lookup(key, raw):
    if key in EXACT:
        return EXACT[key]
    for pat, fn in PATTERNS:
        if pat.search(key):
            return fn
    return None


def Some(v): return Enum("Option", "Some", [v])
NONE = lambda: Enum("Option", "None", [])
def Ok(v): return Enum("Result", "Ok", [v])
def Err(v): return Enum("Result", "Err", [v])


def deref(v):
    while isinstance(v, Ptr):
        v = v.load()
    return v


def as_list(v):
    """the Python list behind a &Vec / &[T] / Vec value, with window"""
    v = deref(v)
    if isinstance(v, VecObj):
        return v.items, 0, len(v.items)
    if isinstance(v, SliceRef):
        return v.items, v.start, v.end
    if isinstance(v, list):
        return v, 0, len(v)
    raise Unsupported("not a sequence: %r" % (v,))


# ----------------------------------------------------------------------------------------------- strings
def str_eq(m, a, b):
    a, b = deref(a), deref(b)
    if not isinstance(a, RStr) or not isinstance(b, RStr):
        raise Unsupported("str eq on %r %r" % (a, b))
    if a.sym is None and b.sym is None:
        return a.text == b.text
    if a.sym is not None and b.sym is not None:
        if a.vocab is not b.vocab:
            raise Unsupported("eq of tokens from different vocabularies")
        return a.sym == b.sym
    s, c = (a, b) if a.sym is not None else (b, a)
    if c.text in s.vocab:
        return s.sym == s.vocab.index(c.text)
    return False


@model("<str as PartialEq>::eq", "<&str as PartialEq>::eq", "<String as PartialEq>::eq", "<&&str as PartialEq>::eq")
def _str_eq(m, args, raw):
    return str_eq(m, args[0], args[1])


@model("<&str as PartialEq>::ne", "<str as PartialEq>::ne")
def _str_ne(m, args, raw):
    r = str_eq(m, args[0], args[1])
    return (not r) if isinstance(r, bool) else z3.Not(r)


@model("str::starts_with")
def _starts_with(m, args, raw):
    s, p = deref(args[0]), deref(args[1])
    if isinstance(p, str):          # a char pattern
        p = RStr(p)
    if isinstance(p, int):
        p = RStr(chr(p))
    if isinstance(p, RStr) and p.text is not None:
        if s.sym is None:
            return s.text.startswith(p.text)
        hits = [i for i, w in enumerate(s.vocab) if w.startswith(p.text)]
        return z3.Or([s.sym == i for i in hits]) if hits else False
    if isinstance(p, list) and all(isinstance(c, int) for c in p):       # [char; N]: any of these characters
        firsts = tuple(chr(c) for c in p)
        if s.sym is None:
            return s.text.startswith(firsts)
        hits = [i for i, w in enumerate(s.vocab) if w.startswith(firsts)]
        return z3.Or([s.sym == i for i in hits]) if hits else False
    raise Unsupported("starts_with pattern %r" % (p,))


@model("str::is_empty", "String::is_empty")
def _str_is_empty(m, args, raw):
    s = deref(args[0])
    if hasattr(s, "chars"):                 # a string carried as a list of (possibly symbolic) bytes: its length is concrete
        return len(s.chars) == 0
    if getattr(s, "sym", None) is None:
        return s.text == ""
    hits = [i for i, w in enumerate(s.vocab) if w == ""]
    return z3.Or([s.sym == i for i in hits]) if hits else False


@model("<str as ToString>::to_string", "<String as Deref>::deref", "String::as_str", "<str as ToOwned>::to_owned", "<String as Clone>::clone",
       "<&str as ToString>::to_string", "^<String as From(<.*>)?>::from$")
def _str_identity(m, args, raw):
    return deref(args[0])


# ----------------------------------------------------------------------------------------------- Vec / slices / Box / Option / Result
@model("Vec::new")
def _vec_new(m, args, raw):
    return VecObj()


@model("Vec::push")
def _vec_push(m, args, raw):
    deref(args[0]).items.append(args[1])
    return UNIT


@model("Vec::clear")
def _vec_clear(m, args, raw):
    del deref(args[0]).items[:]
    return UNIT


@model("Vec::truncate")
def _vec_truncate(m, args, raw):
    n = args[1]
    if not isinstance(n, int):
        raise Unsupported("Vec::truncate with a symbolic length")
    del deref(args[0]).items[n:]
    return UNIT


@model("Vec::pop")
def _vec_pop(m, args, raw):
    v = deref(args[0])
    return Some(v.items.pop()) if v.items else NONE()


@model("Vec::len", "slice::len")
def _len(m, args, raw):
    _, a, b = as_list(args[0])
    return b - a


@model("Vec::is_empty", "slice::is_empty")
def _is_empty(m, args, raw):
    _, a, b = as_list(args[0])
    return b == a


@model("^<Vec<.*> as Deref(Mut)?>::deref(_mut)?$")
def _vec_deref(m, args, raw):
    return SliceRef(deref(args[0]).items)


@model("slice::last", "slice::last_mut")
def _last(m, args, raw):
    items, a, b = as_list(args[0])
    return Some(Ptr(items, b - 1)) if b > a else NONE()


@model("slice::first", "slice::first_mut")
def _first(m, args, raw):
    items, a, b = as_list(args[0])
    return Some(Ptr(items, a)) if b > a else NONE()


@model("slice::iter", "slice::iter_mut", "^<&(mut )?Vec<.*> as IntoIterator>::into_iter$", "^<&(mut )?\\[.*\\] as IntoIterator>::into_iter$")
def _iter(m, args, raw):
    items, a, b = as_list(args[0])
    return Struct("SliceIter", [items, a, b])


@model("^<Vec<.*> as IntoIterator>::into_iter$")
def _into_iter(m, args, raw):
    v = deref(args[0])
    return Struct("VecIntoIter", [list(v.items), 0, len(v.items)])


@model("<Iter as Iterator>::next", "<IterMut as Iterator>::next")
def _iter_next(m, args, raw):
    it = deref(args[0])
    items, pos, end = it.fields
    if pos >= end:
        return NONE()
    it.fields[1] = pos + 1
    return Some(Ptr(items, pos))


@model("<IntoIter as Iterator>::next")
def _into_iter_next(m, args, raw):
    it = deref(args[0])
    items, pos, end = it.fields
    if pos >= end:
        return NONE()
    it.fields[1] = pos + 1
    return Some(items[pos])


@model("<Iter as Iterator>::any")
def _iter_any(m, args, raw):
    it = deref(args[0])
    items, pos, end = it.fields
    fn = args[1]
    # the predicate is a function item: <Box<dyn Matcher> as Matcher>::has_side_effects
    name = fn.what[len("const "):] if isinstance(fn, Opaque) else None
    acc = False
    while pos < end:
        r = m.call(name, [Ptr(items, pos)])
        pos += 1
        it.fields[1] = pos
        if m.truth(r):
            return True
    return acc


@model("Box::new")
def _box_new(m, args, raw):
    return BoxObj(args[0])


@model("Option::unwrap", "Result::unwrap", "Option::expect", "Result::expect")
def _unwrap(m, args, raw):
    v = args[0]
    if v.variant in ("Some", "Ok"):
        return v.fields[0]
    raise RustPanic("called unwrap() on %s" % v.variant)


@model("Option::is_some")
def _is_some(m, args, raw):
    return deref(args[0]).variant == "Some"


@model("Option::is_none")
def _is_none(m, args, raw):
    return deref(args[0]).variant == "None"


@model("Option::take")
def _take(m, args, raw):
    p = args[0]
    v = p.load()
    p.store(NONE())
    return v


@model("Option::as_mut", "Option::as_ref", "Option::as_deref_mut", "Option::as_deref")
def _opt_as_mut(m, args, raw):
    """Option<&mut T> / Option<&T> into the option's payload (writes through it reach the original)"""
    p = args[0]
    v = p.load() if isinstance(p, Ptr) else p
    if v.variant == "None":
        return NONE()
    return Some(Ptr(v.fields, 0))


@model("Option::insert")
def _insert(m, args, raw):
    p = args[0]
    p.store(Some(args[1]))
    return Ptr(p.load().fields, 0)


@model("Result::is_ok")
def _is_ok(m, args, raw):
    return deref(args[0]).variant == "Ok"


@model("Result::is_err")
def _is_err(m, args, raw):
    return deref(args[0]).variant == "Err"


@model("^<Result<.*> as Try>::branch$")
def _result_branch(m, args, raw):
    r = args[0]
    if r.variant == "Ok":
        return Enum("ControlFlow", "Continue", [r.fields[0]])
    return Enum("ControlFlow", "Break", [Err(r.fields[0])])


@model("^<Result<.*> as FromResidual>::from_residual$")
def _from_residual(m, args, raw):
    r = args[0]
    e = r.fields[0]
    # `?` converts the error with From when the two error types differ
    mt = re.match(r"^<Result<.*, ([^,<>]+(?:<.*>)?)> as FromResidual<Result<(?:std::convert::)?Infallible, (.+)>>>::from_residual$", raw)
    if mt:
        dst, src = mt.group(1).strip(), mt.group(2).strip()
        if type_key(dst) != type_key(src):
            return Err(m.call("<%s as From<%s>>::from" % (dst, src), [e]))
    return Err(e)


@model("^<Option<.*> as Try>::branch$")
def _option_branch(m, args, raw):
    r = args[0]
    if r.variant == "Some":
        return Enum("ControlFlow", "Continue", [r.fields[0]])
    return Enum("ControlFlow", "Break", [NONE()])


@model("^<Option<.*> as FromResidual>::from_residual$")
def _option_residual(m, args, raw):
    return NONE()


# ----------------------------------------------------------------------------------------------- formatting / errors: opaque
@model("Argument::new_display", "Argument::new_debug", "Arguments::new", "Arguments::new_const", "format", "fmt::format", "must_use", "Arguments::new_v1")
def _fmt(m, args, raw):
    if raw.startswith("must_use"):
        return args[0]
    return Opaque("fmt")


@model("^<Box<dyn Error> as From(<.*>)?>::from$")
def _err_from(m, args, raw):
    a = deref(args[0])
    return BoxObj(Opaque("error: %s" % (a.text if isinstance(a, RStr) and a.text else "formatted")))


@model("panic_fmt", "panic", "panic_bounds_check", "unwrap_failed", "expect_failed")
def _panic(m, args, raw):
    raise RustPanic(raw)


# ----------------------------------------------------------------------------------------------- trait objects
@model("^<.* as Matcher>::into_box$", "Matcher::into_box")
def _into_box(m, args, raw):
    v = args[0]
    return v if isinstance(v, BoxObj) else BoxObj(v)


@model("^<dyn Matcher as Matcher>::\\w+$")
def _dyn_matcher(m, args, raw):
    method = raw.rsplit("::", 1)[1]
    recv = deref(args[0])
    if isinstance(recv, BoxObj):
        recv = recv.cell[0]
    ty = recv.ty if isinstance(recv, (Struct, Enum)) else ("Box<dyn Matcher>" if isinstance(recv, BoxObj) else None)
    if ty is None:
        raise Unsupported("dyn dispatch on %r" % (recv,))
    key = "<%s as Matcher>::%s" % (ty, method)
    self_ref = args[0] if isinstance(deref(args[0]), (Struct, Enum)) else Ptr([recv], 0)
    if key in m.natives:
        return m.natives[key](m, [self_ref] + args[1:])
    fn = m.index.get(key) or m.index.get("Matcher::%s" % method)
    if fn is None:
        raise Unsupported("no impl for " + key)
    return m.run(fn, [self_ref] + args[1:])


# ----------------------------------------------------------------------------------------------- more slices / iterators / OsStr (xargs)
class OsVal:
    """an OsString/OsStr value known only by an identity and a (possibly symbolic) byte length"""
    __slots__ = ("ident", "length")

    def __init__(self, ident, length):
        self.ident, self.length = ident, length

    def __repr__(self):
        return "os#%s" % (self.ident,)


class BytesRef:
    __slots__ = ("length",)

    def __init__(self, length):
        self.length = length


@model("slice::split_at_mut", "slice::split_at")
def _split_at(m, args, raw):
    items, a, b = as_list(args[0])
    k = args[1]
    if a + k > b:
        raise RustPanic("split_at out of range")
    return Tuple([SliceRef(items, a, a + k), SliceRef(items, a + k, b)])


@model("^<Vec<.*> as Index(Mut)?>::index(_mut)?$", "^<\\[.*\\] as Index(Mut)?>::index(_mut)?$")
def _seq_index_range(m, args, raw):
    items, a, b = as_list(args[0])
    r = args[1]
    if "RangeFull" in raw:
        return SliceRef(items, a, b)
    if isinstance(r, Struct) and r.ty in ("RangeFrom", "RangeTo", "Range", "RangeInclusive"):
        lo, hi = a, b
        if r.ty == "RangeFrom":
            lo = a + r.fields[0]
        elif r.ty == "RangeTo":
            hi = a + r.fields[0]
        elif r.ty == "Range":
            lo, hi = a + r.fields[0], a + r.fields[1]
        if not (a <= lo <= hi <= b):
            raise RustPanic("range %r out of bounds for a sequence of length %d" % (r, b - a))
        return SliceRef(items, lo, hi)
    if isinstance(r, int):
        if not (0 <= r < b - a):
            raise RustPanic("index out of bounds")
        return Ptr(items, a + r)
    raise Unsupported(raw)


@model("<Iter as Iterator>::map", "<IntoIter as Iterator>::map")
def _iter_map(m, args, raw):
    mc = re.search(r"\{closure@[^}]*\}", raw)
    if mc:
        return Struct("MapIter", [deref(args[0]), mc.group(0), args[1]])
    mf = re.search(r"\{([^{}]+)\}>$", raw)          # a function item used as the mapping function
    return Struct("MapIter", [deref(args[0]), "fn:" + mf.group(1) if mf else None, args[1]])


@model("<Map as Iterator>::collect")
def _map_collect(m, args, raw):
    mp = deref(args[0])
    it, clos, env = mp.fields
    items, pos, end = it.fields
    out = VecObj()
    if clos and clos.startswith("fn:"):
        while pos < end:
            elem = Ptr(items, pos) if it.ty == "SliceIter" else items[pos]
            out.items.append(m.call(clos[3:], [elem]))
            pos += 1
        return out
    fn = m.index.get(clos)
    if fn is None:
        raise Unsupported("closure %s" % clos)
    while pos < end:
        elem = Ptr(items, pos) if it.ty == "SliceIter" else items[pos]
        out.items.append(m.run(fn, [Ptr([env], 0), elem]))
        pos += 1
    return out


@model("<OsString as Deref>::deref", "<OsStr as OsStrExt>::as_bytes", "OsString::as_os_str", "<OsString as AsRef>::as_ref", "<OsStr as ToOwned>::to_owned",
       "<OsString as Clone>::clone")
def _os_views(m, args, raw):
    v = deref(args[0])
    if raw.endswith("as_bytes"):
        return BytesRef(v.length)
    return v


@model("^<dyn (\\w+) as \\1>::\\w+$")
def _dyn_any(m, args, raw):
    mt = re.match(r"^<dyn (\w+) as \w+>::(\w+)$", raw)
    trait, method = mt.group(1), mt.group(2)
    recv = deref(args[0])
    if isinstance(recv, BoxObj):
        recv = recv.cell[0]
    key = "<%s as %s>::%s" % (recv.ty, trait, method)
    self_ref = args[0] if isinstance(deref(args[0]), (Struct, Enum)) else Ptr([recv], 0)
    if key in m.natives:
        return m.natives[key](m, [self_ref] + args[1:])
    fn = m.index.get(key) or m.index.get("%s::%s" % (trait, method))
    if fn is None:
        raise Unsupported("no impl for " + key)
    return m.run(fn, [self_ref] + args[1:])


@model("^<\\w+ as PartialEq>::ne$")
def _derived_ne(m, args, raw):
    r = m.call(raw[:-2] + "eq", args)
    return (not r) if isinstance(r, bool) else z3.Not(r)


@model("slice::to_vec", "^<Vec<.*> as Clone>::clone$")
def _to_vec(m, args, raw):
    items, a, b = as_list(args[0])
    return VecObj(list(items[a:b]))


@model("<Iter as Iterator>::filter")
def _iter_filter(m, args, raw):
    mc = re.search(r"\{closure@[^}]*\}", raw)
    return Struct("FilterIter", [deref(args[0]), mc.group(0) if mc else None, args[1]])


@model("<Filter as Iterator>::count")
def _filter_count(m, args, raw):
    f = deref(args[0])
    it, clos, env = f.fields
    fn = m.index.get(clos)
    if fn is None:
        raise Unsupported("closure %s" % clos)
    items, pos, end = it.fields
    n = 0
    while pos < end:
        if m.truth(m.run(fn, [Ptr([env], 0), Ptr([Ptr(items, pos)], 0)])):
            n += 1
        pos += 1
    return n


@model("Option::or")
def _option_or(m, args, raw):
    return args[0] if args[0].variant == "Some" else args[1]


@model("^<[iu](8|16|32|64|128|size) as From(<\\w+>)?>::from$")
def _int_from_bool(m, args, raw):
    if "bool" not in raw:
        return args[0]          # a widening integer conversion
    v = args[0]
    if isinstance(v, bool):
        return int(v)
    return z3.If(v, z3.IntVal(1), z3.IntVal(0))


@model("Option::unwrap_or", "Result::unwrap_or")
def _unwrap_or_default(m, args, raw):
    return args[0].fields[0] if args[0].variant in ("Some", "Ok") else args[1]


@model("num::saturating_add", "num::saturating_sub", "num::wrapping_add", "num::wrapping_sub")
def _int_saturating(m, args, raw):
    """usize/u64 saturating / wrapping add and sub on concrete or symbolic values (64-bit)"""
    a, b = args[0], args[1]
    top = (1 << 64) - 1
    op = raw.rsplit("::", 1)[-1].split("::<")[0]
    if isinstance(a, int) and isinstance(b, int):
        r = a + b if op.endswith("add") else a - b
        if op.startswith("saturating"):
            return min(max(r, 0), top)
        return r & top
    za, zb = (z3.IntVal(a) if isinstance(a, int) else a), (z3.IntVal(b) if isinstance(b, int) else b)
    r = za + zb if op.endswith("add") else za - zb
    if op.startswith("saturating"):
        return z3.If(r > top, z3.IntVal(top), z3.If(r < 0, z3.IntVal(0), r))
    return r % (top + 1)


@model("<Iter as Iterator>::position", "<Iter as Iterator>::any", "<Iter as Iterator>::all")
def _iter_position(m, args, raw):
    """position / any / all over a slice iterator with a closure taking the element (by reference for any/all on Iter<T>: Item = &T)"""
    it = deref(args[0])
    items, pos, end = it.fields
    mc = re.search(r"\{closure@[^}]*\}", raw)
    fn = m.index.get(mc.group(0)) if mc else None
    fname = None
    if fn is None:
        # the predicate is a function item (e.g. <Box<dyn Matcher> as Matcher>::has_side_effects)
        fname = args[1].what[len("const "):] if isinstance(args[1], Opaque) and str(args[1].what).startswith("const ") else None
        if fname is None:
            raise Unsupported("closure of " + raw[:60])
    which = normalize_tail(raw)
    k = 0
    while it.fields[1] < end:
        p = it.fields[1]
        it.fields[1] = p + 1
        if fname is not None:
            r = m.truth(m.call(fname, [Ptr(items, p)]))
        else:
            r = m.run(fn, [Ptr([args[1]], 0) if fn.params and fn.params[0][1].lstrip().startswith("&") else args[1], Ptr(items, p)])
        if not isinstance(r, bool):
            r = m.decide(r)
        if which == "position" and r:
            return Some(k)
        if which == "any" and r:
            return True
        if which == "all" and not r:
            return False
        k += 1
    return NONE() if which == "position" else (which == "all")


def normalize_tail(raw):
    """the method name of a callee path: generic arguments (balanced <...>, the '>' of '->' not counted) removed, last segment"""
    out, depth, prev = [], 0, ""
    for ch in raw:
        if ch == "<":
            depth += 1
        elif ch == ">" and prev != "-":
            depth -= 1
        elif depth == 0:
            out.append(ch)
        prev = ch
    return "".join(out).rstrip(":").rsplit("::", 1)[-1]


@model("bool::then")
def _bool_then(m, args, raw):
    c = args[0] if isinstance(args[0], bool) else m.decide(args[0])
    if not c:
        return NONE()
    mc = re.search(r"\{closure@[^}]*\}", raw)
    fn = m.index.get(mc.group(0)) if mc else None
    if fn is None:
        raise Unsupported("closure of " + raw[:60])
    return Some(m.run(fn, [args[1]]))


@model("Result::ok", "Result::err")
def _result_ok(m, args, raw):
    v = args[0]
    want = "Ok" if normalize_tail(raw) == "ok" else "Err"
    return Some(v.fields[0]) if v.variant == want else NONE()


@model("Option::or_else")
def _opt_or_else(m, args, raw):
    v = args[0]
    if v.variant == "Some":
        return v
    mc = re.search(r"\{closure@[^}]*\}", raw)
    fn = m.index.get(mc.group(0)) if mc else None
    if fn is None:
        raise Unsupported("closure of " + raw[:60])
    return m.run(fn, [args[1]])


@model("^.*::unsigned_abs$", "^.*::abs$")
def _abs(m, args, raw):
    v = args[0]
    if isinstance(v, int):
        return abs(v)
    return z3.If(interp_z(v) >= 0, interp_z(v), -interp_z(v))


def interp_z(v):
    import interp
    return interp._z(v)


_INT_RANGE = {"u8": (0, 2 ** 8), "u16": (0, 2 ** 16), "u32": (0, 2 ** 32), "u64": (0, 2 ** 64), "usize": (0, 2 ** 64), "u128": (0, 2 ** 128),
              "i8": (-2 ** 7, 2 ** 7), "i16": (-2 ** 15, 2 ** 15), "i32": (-2 ** 31, 2 ** 31), "i64": (-2 ** 63, 2 ** 63), "isize": (-2 ** 63, 2 ** 63), "i128": (-2 ** 127, 2 ** 127)}


@model("^<(u8|u16|u32|u64|usize|u128|i8|i16|i32|i64|isize|i128) as TryFrom(<.*>)?>::try_from$", "^<(u8|u16|u32|u64|usize|u128|i8|i16|i32|i64|isize|i128) as TryInto(<.*>)?>::try_into$")
def _int_try_from(m, args, raw):
    """integer conversions that check the range (concrete values only)"""
    v = args[0]
    if not isinstance(v, int) or isinstance(v, bool):
        raise Unsupported("try_from on a symbolic integer")
    if "TryFrom" in raw:
        ty = re.match(r"^<(\w+) as", raw).group(1)
    else:
        ty = re.search(r"TryInto<(\w+)>", raw).group(1)
    lo, hi = _INT_RANGE[ty]
    return Ok(v) if lo <= v < hi else Err(Opaque("TryFromIntError"))


@model("Result::as_ref", "Result::as_mut")
def _result_as_ref(m, args, raw):
    v = deref(args[0])
    return Enum(v.ty, v.variant, [Ptr(v.fields, 0)])


@model("str::trim", "str::trim_start", "str::trim_end")
def _str_trim(m, args, raw):
    """on concrete text: Unicode White_Space, as str::trim specifies"""
    s = deref(args[0])
    if getattr(s, "sym", None) is not None or not hasattr(s, "text"):
        raise Unsupported("trim of a symbolic string")
    t = s.text
    which = normalize_tail(raw)
    if which in ("trim", "trim_start"):
        t = t.lstrip()
    if which in ("trim", "trim_end"):
        t = t.rstrip()
    return RStr(t)


@model("Result::is_err_and", "Result::is_ok_and", "Option::is_some_and", "Option::is_none_or")
def _is_x_and(m, args, raw):
    v = args[0]
    which = normalize_tail(raw)
    hit = {"is_err_and": "Err", "is_ok_and": "Ok", "is_some_and": "Some", "is_none_or": "Some"}[which]
    if v.variant != hit:
        return which == "is_none_or"
    mc = re.search(r"\{closure@[^}]*\}", raw)
    fn = m.index.get(mc.group(0)) if mc else None
    if fn is None:
        raise Unsupported("closure of " + raw[:60])
    r = m.run(fn, [args[1], v.fields[0]])
    return r if isinstance(r, bool) else m.decide(r)


# ----------------------------------------------------------------------------------------------- Option / Result combinators taking a closure or a function item
# (several modules register their own, narrower versions of some of these at run time; those take precedence - these fill the gaps)
def _apply_fn_arg(m, raw, env, extra):
    """the F of a combinator: a closure of the crate ({closure@file:line:col}, run from MIR with its environment) or a function item ({path})"""
    mc = re.search(r"\{closure@[^}]*\}", raw)
    if mc:
        fn = m.index.get(mc.group(0))
        if fn is None:
            raise Unsupported("closure of " + raw[:60])
        return m.run(fn, [env] + list(extra))
    mf = re.search(r"\{([^{}]+)\}>$", raw)
    if mf:
        return m.call(mf.group(1), list(extra))
    raise Unsupported("function argument of " + raw[:60])


@model("Option::map", "Result::map", "Result::map_err")
def _x_map(m, args, raw):
    v = args[0]
    hit = "Err" if normalize_tail(raw) == "map_err" else ("Ok" if v.ty == "Result" else "Some")
    if v.variant != hit:
        return v
    return Enum(v.ty, v.variant, [_apply_fn_arg(m, raw, args[1], [v.fields[0]])])


@model("Option::and_then", "Result::and_then")
def _x_and_then(m, args, raw):
    v = args[0]
    if v.variant not in ("Some", "Ok"):
        return v
    return _apply_fn_arg(m, raw, args[1], [v.fields[0]])


@model("Option::unwrap_or_else", "Result::unwrap_or_else")
def _x_unwrap_or_else(m, args, raw):
    v = args[0]
    if v.variant in ("Some", "Ok"):
        return v.fields[0]
    return _apply_fn_arg(m, raw, args[1], [v.fields[0]] if v.variant == "Err" else [])


@model("Option::map_or")
def _opt_map_or(m, args, raw):
    v = args[0]
    if v.variant != "Some":
        return args[1]
    return _apply_fn_arg(m, raw, args[2], [v.fields[0]])


@model("Option::filter")
def _opt_filter(m, args, raw):
    v = args[0]
    if v.variant != "Some":
        return v
    cell = [v.fields[0]]
    r = _apply_fn_arg(m, raw, args[1], [Ptr(cell, 0)])
    r = r if isinstance(r, bool) else m.decide(r)
    return v if r else NONE()


@model("^<Option<(bool|char|u8|u16|u32|u64|usize|i8|i16|i32|i64|isize)> as PartialEq>::(eq|ne)$")
def _opt_prim_eq(m, args, raw):
    a, b = deref(args[0]), deref(args[1])
    if a.variant != b.variant:
        r = False
    elif a.variant == "None":
        r = True
    else:
        x, y = a.fields[0], b.fields[0]
        if isinstance(x, (bool, int)) and isinstance(y, (bool, int)):
            r = x == y
        else:
            r = m.decide(x == y)
    return (not r) if raw.rstrip(">").endswith("ne") or normalize_tail(raw) == "ne" else r


@model("^<(u8|u16|u32|u64|usize|i8|i16|i32|i64|isize) as Ord>::(min|max)$", "cmp::min", "cmp::max")
def _int_min_max(m, args, raw):
    a, b = args[0], args[1]
    which = normalize_tail(raw)
    if isinstance(a, int) and isinstance(b, int):
        return min(a, b) if which == "min" else max(a, b)
    le = m.decide(a <= b)
    return (a if le else b) if which == "min" else (b if le else a)
