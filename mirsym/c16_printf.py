#!/usr/bin/env python3
"""C16: MIR-level symbolic execution of -printf: FormatString::parse on format strings assembled from a vocabulary of items
(literals, escapes, %%, path/depth directives with optional '-' flag and width), then Printf::{matches,print} and
format_directive on the entries of a tree whose NAMES ARE SYMBOLIC BYTES; what is written goes through fmt_model (port of
core::fmt::write incl. width/alignment padding).  Per path z3 proves the written bytes equal the reference rendering."""
import json, os, re, sys, time, z3
import loader, models, interp, natives_fs, fmt_model
from interp import Machine, SliceRef, RStr, Ptr, Struct, Enum, Opaque, BoxObj, VecObj, Tuple, Unsupported, RustPanic, PathAbort, UNIT
from models import model, Some, NONE, Ok, Err, deref, as_list
from natives_fs import PStr, text_of
from fmt_model import SymStr, Sink, str_bytes
import c07_print0 as c7

STARTS = [x for x in c7.STARTS if isinstance(x, str)]

# ---- vocabulary of format items: (text, kind, payload)
LITERALS = ["x", " ", "é", "a-b", "{}"]
ESCAPES = {"\\a": 7, "\\b": 8, "\\f": 12, "\\n": 10, "\\r": 13, "\\t": 9, "\\v": 11, "\\\\": 92, "\\0": 0, "\\101": 65, "\\7": None, "\\012": 10}
DIRECTIVES = ["p", "f", "h", "H", "P", "d"]
WIDTHS = ["", "1", "5", "-5", "12", "-12", "70", "-70", "-", "03"]


def items_vocab(tier):
    v = [(t, "lit", t) for t in LITERALS[:3 if tier == "quick" else None]]
    v += [(t, "esc", c) for t, c in ESCAPES.items() if c is not None]
    v += [("%%", "lit", "%")]
    for d in DIRECTIVES:
        for w in (WIDTHS if tier != "quick" else WIDTHS[:8]):
            v.append(("%" + w + d, "dir", (d, w)))
    return v


# ---- concrete-string natives (UTF-8 byte offsets, chars as scalar values)
def _t(v):
    v = deref(v)
    while isinstance(v, (Ptr, BoxObj)):
        v = deref(v)
    if isinstance(v, RStr) and v.text is not None:
        return v.text
    if isinstance(v, PStr):
        return v.text
    raise Unsupported("concrete string expected: %r" % (v,))


def _slice(s, a, b):
    raw = s.encode()
    if a > b or b > len(raw):
        raise RustPanic("str index out of range")
    try:
        raw[:a].decode(); raw[a:b].decode(); raw[b:].decode()
    except UnicodeDecodeError:
        raise RustPanic("str index not on a char boundary")
    return RStr(raw[a:b].decode())


def _closure(m, raw, args):
    mc = re.search(r"\{closure@[^}]*\}", raw)
    fn = m.index.get(mc.group(0)) if mc else None
    if fn is None:
        raise Unsupported("closure of " + raw[:60])
    return m.run(fn, args)


def str_natives():
    def index(m, args):
        s, r = _t(args[0]), args[1]
        n = len(s.encode())
        if r.ty == "RangeFrom": return _slice(s, r.fields[0], n)
        if r.ty == "RangeTo": return _slice(s, 0, r.fields[0])
        if r.ty == "Range": return _slice(s, r.fields[0], r.fields[1])
        raise Unsupported("str index by " + r.ty)

    def _sym(v):
        v = deref(v)
        while isinstance(v, (Ptr, BoxObj)):
            v = deref(v)
        return v if isinstance(v, SymStr) else None

    def chars(m, args):
        sv = _sym(args[0])
        if sv is not None:
            return Struct("Chars", [list(sv.chars), 0])        # symbolic name bytes are ASCII (1..127): one char per byte
        return Struct("Chars", [[ord(c) for c in _t(args[0])], 0])

    def chars_count(m, args):
        lst, pos = deref(args[0]).fields
        return len(lst) - pos

    def chars_next(m, args):
        it = deref(args[0])
        lst, pos = it.fields
        if pos >= len(lst):
            return NONE()
        it.fields[1] = pos + 1
        return Some(lst[pos])

    def find(m, args):
        s = _t(args[0])
        pat = deref(args[1])
        wanted = pat if isinstance(pat, list) else (pat.items if hasattr(pat, "items") else [pat])
        for i, c in enumerate(s):
            if ord(c) in wanted:
                return Some(len(s[:i].encode()))
        return NONE()

    def from_str_radix(m, args):
        s, radix = _t(args[0]), args[1]
        try:
            if not s or s[0] in "_ " or any(c in "_ " for c in s):
                raise ValueError
            t = s[1:] if s[0] == "+" else s
            if not t or t[0] in "+-":
                raise ValueError
            return Ok(int(t, radix))
        except ValueError:
            return Err(Opaque("ParseIntError"))

    def parse(m, args):
        s = _t(args[0])
        if re.fullmatch(r"\+?[0-9]+", s) and int(s) < 2 ** 64:
            return Ok(int(s))
        return Err(Opaque("ParseIntError"))

    def from_u32(m, args):
        c = args[0]
        return Some(c) if (c < 0xD800 or 0xE000 <= c < 0x110000) else NONE()

    nat = {
        "<str as Index>::index": index, "str::chars": chars, "<Chars as Iterator>::next": chars_next, "str::find": find,
        "<Chars as Iterator>::count": chars_count,
        "str::len": lambda m, a: len(_sym(a[0]).chars) if _sym(a[0]) is not None else len(_t(a[0]).encode()),
        "str::as_bytes": lambda m, a: SliceRef(list(_sym(a[0]).chars) if _sym(a[0]) is not None else list(_t(a[0]).encode())),
        "str::split_at": lambda m, a: Tuple([RStr(_t(a[0]).encode()[:a[1]].decode()), RStr(_t(a[0]).encode()[a[1]:].decode())]),
        "str::is_char_boundary": lambda m, a: a[1] == len(_t(a[0]).encode()) or (a[1] < len(_t(a[0]).encode()) and (_t(a[0]).encode()[a[1]] & 0xC0) != 0x80),
        "char::len_utf8": lambda m, a: len(chr(deref(a[0])).encode()),
        "char::is_digit": lambda m, a: chr(deref(a[0])) in "0123456789abcdefghijklmnopqrstuvwxyz"[:a[1]] or chr(deref(a[0])).lower() in "0123456789abcdefghijklmnopqrstuvwxyz"[10:a[1]],
        "char::is_ascii_digit": lambda m, a: 48 <= deref(a[0]) <= 57,
        "u32::from_str_radix": from_str_radix, "str::parse": parse, "char::from_u32": from_u32,
        "<char as ToString>::to_string": lambda m, a: RStr(chr(deref(a[0]))),
        "Option::ok_or_else": lambda m, a: Ok(a[0].fields[0]) if a[0].variant == "Some" else Err(Opaque("error")),
        "Result::unwrap_or": lambda m, a: a[0].fields[0] if a[0].variant == "Ok" else a[1],
    }
    nat["<&str as Into>::into"] = lambda m, a: a[0]
    nat["<String as Into>::into"] = lambda m, a: a[0]
    nat["<usize as ToString>::to_string"] = lambda m, a: RStr(str(deref(a[0])))
    for k in ("len_utf8", "is_digit", "is_ascii_digit", "from_u32"):
        nat["methods::" + k] = nat["char::" + k]
    nat["num::from_str_radix"] = from_str_radix
    nat["convert::from_u32"] = from_u32
    return nat


def with_closures(nat):
    """natives that need the raw callee (closure id): registered as models for this module"""
    def and_then(m, args, raw):
        v = args[0]
        if v.variant not in ("Ok", "Some"):
            return v
        return _closure(m, raw, [args[1], v.fields[0]])

    def rmap(m, args, raw):
        v = args[0]
        if v.variant not in ("Ok", "Some"):
            return v
        return Enum(v.ty, v.variant, [_closure(m, raw, [args[1], v.fields[0]])])

    def map_err(m, args, raw):
        v = args[0]
        return v if v.variant == "Ok" else Err(Opaque("error"))
    models.EXACT["Result::and_then"] = and_then
    models.EXACT["Result::map"] = rmap
    models.EXACT["Result::map_err"] = map_err


# ---- reference rendering
def ref_render(items, entry, start, depth, h_value=None):
    """entry: byte list of the path (symbolic bytes allowed); returns expected byte list (h_value: a deviating %H, used to classify)"""
    out = []
    for text, kind, payload in items:
        if kind == "lit":
            out += list(payload.encode())
        elif kind == "esc":
            out.append(payload)
        else:
            d, w = payload
            val = directive_value(d, entry, start, depth) if not (d == "H" and h_value is not None) else list(h_value.encode())
            left = w.startswith("-")
            digits = w.lstrip("-")
            width = int(digits) if digits else 0
            nchars = len(bytes(b for b in val if isinstance(b, int)).decode("utf-8", errors="replace")) + sum(1 for b in val if not isinstance(b, int))
            pad = [32] * max(0, width - nchars)
            out += (val + pad) if left else (pad + val)
    return out


def split_last(path):
    """(dir part without the separating '/', last component) of a path whose '/' are concrete; trailing slashes ignored"""
    p = list(path)
    while len(p) > 1 and p[-1] == 47:
        p.pop()
    idx = [i for i, b in enumerate(p) if isinstance(b, int) and b == 47]
    if not idx:
        return None, p
    i = idx[-1]
    j = i
    while j > 0 and p[j - 1] == 47:
        j -= 1
    return (p[:j] if j > 0 else [47]), p[i + 1:]


def directive_value(d, entry, start, depth):
    sb = list(start.encode())
    if d == "p":
        return list(entry)
    if d == "d":
        return list(str(depth).encode())
    if d == "H":
        return sb
    if d == "P":
        if depth == 0:
            return []
        rest = entry[len(sb):]
        return rest[1:] if rest and rest[0] == 47 and not (sb and sb[-1] == 47) else rest
    dirp, last = split_last(entry)
    if d == "f":
        return last
    if d == "h":
        return [46] if dirp is None else dirp
    raise ValueError(d)


def explore(n_items, shape_name, funcs, index, enums, tier="quick", vocab=None):
    shape = c7.SHAPES_ALL[shape_name]
    vocab = vocab or items_vocab(tier)
    res = {"kind": "%d items/%s" % (n_items, shape_name), "paths": 0, "checks": 0, "violations": [], "unsupported": {}, "samples": [], "formats": 0}
    names = [[z3.Int("n%d_%d" % (i, j)) for j in range(ln)] for i, (_p, ln) in enumerate(shape)]
    start_i = z3.Int("start")
    item_i = [z3.Int("item%d" % k) for k in range(n_items)]
    state = {}
    nat = str_natives()
    with_closures(nat)

    def as_path(m, args):
        v = deref(args[0])
        while isinstance(v, (Ptr, BoxObj)):
            v = deref(v)
        return v if isinstance(v, SymStr) else PStr(text_of(m, v))
    nat.update({"DirEntry::path": lambda m, a: deref(a[0]).fields[0], "DirEntry::depth": lambda m, a: deref(a[0]).fields[1],
                "DirEntry::into_path": lambda m, a: deref(a[0]).fields[0], "DirEntry::path_is_symlink": lambda m, a: False,
                "DirEntry::file_name": lambda m, a: SymStr(c7_last(deref(a[0]).fields[0].chars)),
                "PathBuf::as_path": as_path, "<PathBuf as Deref>::deref": as_path, "Path::to_path_buf": as_path, "Path::to_string_lossy": as_path,
                "OsStr::to_string_lossy": as_path, "<&Path as Into>::into": as_path, "<impl Into<PathBuf> as Into>::into": as_path, "<Cow as Deref>::deref": as_path, "Path::new": as_path, "Path::as_os_str": as_path,
                "<dyn Dependencies as Dependencies>::get_output": lambda m, a: Ptr([Struct("Cell", [state["sink"]])], 0)})
    pn = path_natives(as_path)
    nat.update(pn)

    def components(m, a):
        # Path::components on a path whose bytes are all concrete (the starting points are; names below them are symbolic and never get here)
        v = as_path(m, a)
        chars = v.chars if isinstance(v, SymStr) else list(text_of(m, v).encode())
        if not all(isinstance(c, int) for c in chars):
            raise Unsupported("Path::components on a symbolic path")
        import natives_fs
        root, comps = natives_fs.components(bytes(chars).decode())
        return Struct("ComponentsV", [(["/"] if root else []) + comps])

    def comp_next_back(m, a):
        it = deref(a[0])
        return Some(SymStr(list(it.fields[0].pop().encode()))) if it.fields[0] else NONE()
    def comp_collect(m, a):
        # Components collected into a PathBuf: the components joined by '/', a root component not repeated (std's PathBuf::push)
        comps = list(deref(a[0]).fields[0])
        text = ("/" + "/".join(comps[1:])) if comps[:1] == ["/"] else "/".join(comps)
        return SymStr(list(text.encode()))
    nat.setdefault("<Components as Iterator>::collect", comp_collect)
    nat.setdefault("Path::components", components)
    nat.setdefault("<Components as DoubleEndedIterator>::next_back", comp_next_back)
    nat.setdefault("Component::as_os_str", lambda m, a: deref(a[0]))
    m = Machine(funcs, index, enums, models, natives=nat, max_steps=2000000)
    m.base_constraints = [z3.And(c >= 1, c <= 127, c != 47) for nm in names for c in nm] + [start_i >= 0, start_i < len(STARTS)] + [
        z3.And(i >= 0, i < len(vocab)) for i in item_i]
    for nm in names:
        if len(nm) == 1:
            m.base_constraints.append(nm[0] != 46)
        if len(nm) == 2:
            m.base_constraints.append(z3.Or(nm[0] != 46, nm[1] != 46))
    follow_i = z3.Int("follow_mode")
    m.base_constraints += [follow_i >= 0, follow_i <= 2]
    m.pending = [[]]
    t0 = time.time()
    while m.pending:
        m.reset_path(m.pending.pop())
        state.update(sink=None)
        try:
            st = m.decide_int(start_i, list(range(len(STARTS) - 1)))
            start = STARTS[len(STARTS) - 1 if st is None else st]
            chosen = []
            for k in range(n_items):
                c = m.decide_int(item_i[k], list(range(len(vocab) - 1)))
                chosen.append(vocab[len(vocab) - 1 if c is None else c])
            fmt = "".join(t for t, _k, _p in chosen)
            pr = m.call("Printf::new", [RStr(fmt), NONE()])
            if pr.variant != "Ok":
                res["violations"].append({"what": "format %r rejected" % fmt, "format": fmt})
                res["paths"] += 1
                continue
            printf = [pr.fields[0]]
            tree = c7.build_tree(start, shape, names)
            bad = []
            for (p, d, isdir) in tree:
                state["sink"] = Sink()
                # the follow mode is symbolic: under -H / -L the starting point is re-made as an explicit entry (WalkEntry::new) - its spelling must survive that too
                fo = m.decide_int(follow_i, [0, 1]); fo = 2 if fo is None else fo
                ent = m.call("WalkEntry::from_walkdir", [Ok(Struct("DirEntryV", [SymStr(p), d, isdir])), Enum("Follow", ["Never", "Roots", "Always"][fo], [])])
                if ent.variant != "Ok":
                    raise Unsupported("from_walkdir failed")
                io = [Struct("MatcherIO", [False, 0, False, Opaque("deps")])]
                r = m.call("<Printf as Matcher>::matches", [Ptr(printf, 0), Ptr([ent.fields[0]], 0), Ptr(io, 0)])
                got = list(state["sink"].bytes)
                exp = ref_render(chosen, p, start, d)
                res["checks"] += 1
                w = c7_prove_eq(m, got, exp)
                if w:
                    cls = "other"
                    if d > 0 and start.endswith("/") and any(k == "dir" and pl[0] == "H" for _t, k, pl in chosen):
                        if c7_prove_eq(m, got, ref_render(chosen, p, start, d, h_value=start.rstrip("/") or "/")) is None:
                            cls = "%H of an entry below a starting point given with a trailing slash lacks the slash"
                    bad.append((cls, "format %r on depth-%d entry of start %r: %s" % (fmt, d, start, w)))
                if r is not True:
                    bad.append(("other", "-printf returned %r" % (r,)))
        except RustPanic as e:
            res["violations"].append({"what": "panic: %s (format %r)" % (str(e)[:80], fmt), "format": fmt})
            res["paths"] += 1
            continue
        except Unsupported as e:
            res["unsupported"][str(e)[:110]] = res["unsupported"].get(str(e)[:110], 0) + 1
            continue
        except PathAbort:
            continue
        res["paths"] += 1
        res["formats"] += 1
        for cls, w in bad:
            res["violations"].append({"what": w, "class": cls, "format": fmt, "start": start, "shape": shape_name})
        if len(res["samples"]) < 3 and any(k == "dir" for _t, k, _p in chosen):
            res["samples"].append({"format": fmt, "start": start})
    res["wall_s"] = round(time.time() - t0, 2)
    res["solver_calls"] = m.stats["solver_calls"]
    res["functions_executed"] = sorted(m.executed)
    return res


def c7_last(chars):
    return split_last(chars)[1]


def c7_prove_eq(m, got, exp):
    if len(got) != len(exp):
        return "wrote %d bytes %r, expected %d bytes %r" % (len(got), got, len(exp), exp)
    eqs = [interp._z(g) == interp._z(e) for g, e in zip(got, exp) if not (isinstance(g, int) and isinstance(e, int) and g == e)]
    if any(isinstance(g, int) and isinstance(e, int) and g != e for g, e in zip(got, exp)):
        return "wrote %r, expected %r" % (got, exp)
    if not eqs:
        return None
    s = z3.Solver()
    for c in m.base_constraints + m.pc: s.add(c)
    s.add(z3.Not(z3.And(eqs)))
    if s.check() == z3.sat:
        mod = s.model()
        conc = lambda x: x if isinstance(x, int) else mod.eval(interp._z(x), model_completion=True).as_long()
        return "wrote %r, expected %r" % (bytes(conc(g) & 255 for g in got), bytes(conc(e) & 255 for e in exp))
    return None


def path_natives(as_path):
    """std::path on byte lists whose '/' are all concrete (documented component semantics)"""
    def chars_of(m, v):
        v = as_path(m, [v])
        return list(v.chars) if isinstance(v, SymStr) else list(v.text.encode())

    def comps(chars):
        root = bool(chars) and isinstance(chars[0], int) and chars[0] == 47
        parts, cur = [], []
        for c in chars:
            if isinstance(c, int) and c == 47:
                parts.append(cur); cur = []
            else:
                cur.append(c)
        parts.append(cur)
        parts = [q for q in parts if q]
        out = []
        for i, q in enumerate(parts):
            if len(q) == 1 and isinstance(q[0], int) and q[0] == 46 and (i > 0 or root):
                continue
            out.append(q)
        return root, out

    def unsplit(root, parts):
        out = [47] if root else []
        for i, q in enumerate(parts):
            if i: out.append(47)
            out += q
        return out

    def same(a, b):
        return len(a) == len(b) and all((x is y) or (isinstance(x, int) and isinstance(y, int) and x == y) for x, y in zip(a, b))

    def parent(m, args):
        root, parts = comps(chars_of(m, args[0]))
        if not parts:
            return NONE()
        return Some(SymStr(unsplit(root, parts[:-1])))

    def file_name(m, args):
        root, parts = comps(chars_of(m, args[0]))
        if not parts or (len(parts[-1]) == 2 and parts[-1] == [46, 46]):
            return NONE()
        return Some(SymStr(parts[-1]))

    def ancestors(m, args):
        root, parts = comps(chars_of(m, args[0]))
        out = [SymStr(chars_of(m, args[0]))]
        while parts:
            parts = parts[:-1]
            out.append(SymStr(unsplit(root, parts)))
        return Struct("Ancestors", [out, 0])

    def anc_nth(m, args):
        it = deref(args[0])
        lst, pos = it.fields
        k = pos + args[1]
        if k >= len(lst):
            return NONE()
        it.fields[1] = k + 1
        return Some(lst[k])

    def strip_prefix(m, args):
        ra, pa = comps(chars_of(m, args[0]))
        rb, pb = comps(chars_of(m, args[1]))
        if ra != rb and (rb or pb):
            return Err(Opaque("StripPrefixError"))
        if len(pb) > len(pa) or not all(same(x, y) for x, y in zip(pa, pb)):
            return Err(Opaque("StripPrefixError"))
        return Ok(SymStr(unsplit(False, pa[len(pb):])))

    def path_eq(m, args):
        a, b = comps(chars_of(m, args[0])), comps(chars_of(m, args[1]))
        return a[0] == b[0] and len(a[1]) == len(b[1]) and all(same(x, y) for x, y in zip(a[1], b[1]))
    return {"Path::parent": parent, "Path::file_name": file_name, "Path::ancestors": ancestors, "<Ancestors as Iterator>::nth": anc_nth,
            "Path::strip_prefix": strip_prefix, "<&Path as PartialEq>::eq": path_eq, "<Path as PartialEq>::eq": path_eq}


if __name__ == "__main__":
    n = int(sys.argv[1]) if len(sys.argv) > 1 else 1
    shapes = sys.argv[2].split(",") if len(sys.argv) > 2 else ["nested"]
    text = open(sys.argv[3]).read() if len(sys.argv) > 3 else None
    funcs, index, enums, secs, _ = loader.load(os.environ.get("FINDUTILS_REPO", "/repo"), text)
    for sh in shapes:
        r = explore(n, sh, funcs, index, enums, os.environ.get("TIER", "quick"))
        v = r.pop("violations")
        print(json.dumps({k: r[k] for k in ("kind", "paths", "formats", "checks", "solver_calls", "wall_s", "unsupported", "samples")})[:900])
        print(len(v), "violations")
        seen = set()
        for x in v:
            k = x["what"][:60]
            if k in seen: continue
            seen.add(k); print("  ", x["what"][:300])
