#!/usr/bin/env python3
"""Driver for the solver-based checks of uutils/findutils (Kani/CBMC engine).

usage: check.py <PROPERTY-ID> [--tier quick|thorough] [--only SUBSTR] [--jobs N] [--keep-logs]
       check.py --replay <witness.json>
       check.py --list

Exit status: 0 = every admitted harness of the property verified (known findings are
printed as KNOWN-FINDING lines), 1 = VIOLATION (a harness failed outside the recorded
known findings), 2 = INCONCLUSIVE (timeout, out of memory, Kani/CBMC error, failed
vacuity guard, witness that does not reproduce natively).
"""
import argparse, fcntl, hashlib, json, os, re, shutil, signal, subprocess, sys, time
from concurrent.futures import ThreadPoolExecutor

VERIF = os.path.dirname(os.path.abspath(__file__))
REPO = os.environ.get("FINDUTILS_REPO", "/repo")
CACHE = os.environ.get("FINDUTILS_VERIF_CACHE", "/root/.cache/findutils-verif")
HARNESS_DIR = os.path.join(VERIF, "harness")
EVIDENCE_DIR = os.environ.get("VERIF_EVIDENCE_DIR") or os.path.join(VERIF, "evidence")      # seeded runs point this elsewhere: what they write is not evidence
REPLAY_DIR = os.path.join(VERIF, "replays")
KF_FILE = os.path.join(VERIF, "known_findings.json")

TIER_CAPS = {  # per harness: (seconds, address-space GiB)
    "quick": (600, 12),
    "thorough": (2700, 24),
}

MODULE_OF = {"xargs": "xargs::verif_kani", "find": "find::verif_kani", "matchers": "find::matchers::verif_kani"}


def module_path(fname):
    base = fname[:-3]
    if base in MODULE_OF:
        return MODULE_OF[base]
    assert base.startswith("m_"), base
    return "find::matchers::%s::verif_kani" % base[2:]


# ----------------------------------------------------------------------------- discovery
META_RE = re.compile(r"^\s*//\s*@(\w+)\s*(.*)$")
FN_RE = re.compile(r"^\s*(?:pub\s+)?fn\s+(\w+)\s*\(")


def make_harness(name, mod, fname, ln, meta, attrs):
    h = {"name": name, "full": mod + "::" + name, "file": fname, "line": ln, "meta": meta, "attrs": attrs}
    hm = {}
    for item in " ".join(meta.get("harness", [])).split():
        if "=" in item:
            k, v = item.split("=", 1)
            hm[k] = v
    h["props"] = hm.get("props", "").split(",") if hm.get("props") else []
    h["tier"] = hm.get("tier", "quick")
    h["cost"] = float(hm.get("cost", "10"))
    h["flags"] = hm.get("flags", "").split(",") if hm.get("flags") else []
    h["unwind"] = None
    h["stubs"] = []
    for a in " ".join(attrs).split("#["):
        mu = re.match(r"kani::unwind\((\d+)\)", a)
        if mu:
            h["unwind"] = int(mu.group(1))
        ms = re.match(r"kani::stub\((.*)\)\]", a.strip())
        if ms:
            h["stubs"].append(ms.group(1).strip())
    return h


def discover():
    """Parse harness/*.rs: every #[kani::proof] fn with its @-metadata, unwind and stubs."""
    out = {}
    for fname in sorted(os.listdir(HARNESS_DIR)):
        if not fname.endswith(".rs") or fname == "common_stubs.rs":
            continue
        mod = module_path(fname)
        meta, attrs, in_proof = {}, [], False
        macros, in_macro = {}, None
        for ln, line in enumerate(open(os.path.join(HARNESS_DIR, fname)), 1):
            # harness-generating macros: remember the attributes in their body, skip the body itself
            mm = re.match(r"^macro_rules!\s*(\w+)", line)
            if mm:
                in_macro = mm.group(1)
                macros[in_macro] = []
                continue
            if in_macro:
                if line.rstrip() == "}":
                    in_macro = None
                elif line.strip().startswith("#[kani::"):
                    macros[in_macro].append(line.strip())
                continue
            mi = re.match(r"^\s*(\w+)!\((\w+),\s*(\w+)", line)  # name!(harness, canary_or_first_arg, ...)
            if mi and mi.group(1) in macros and meta.get("harness"):
                mattrs = macros[mi.group(1)]
                half = len(mattrs) // 2 if mi.group(3).endswith("_canary") else len(mattrs)
                names = [mi.group(2)] + ([mi.group(3)] if mi.group(3).endswith("_canary") else [])
                for j, name in enumerate(names):
                    out[name] = make_harness(name, mod, fname, ln, meta if j == 0 else {}, mattrs[:half])
                    um = re.search(r",\s*(\d+)\s*\)\s*;\s*$", line)
                    if um:
                        out[name]["unwind"] = int(um.group(1))
                meta, attrs, in_proof = {}, [], False
                continue
            m = META_RE.match(line)
            if m:
                key, val = m.group(1), m.group(2).strip()
                meta.setdefault(key, []).append(val)
                continue
            s = line.strip()
            if s.startswith("#[kani::") or s.startswith("#[cfg_attr(kani"):
                attrs.append(s)
                if "kani::proof" in s:
                    in_proof = True
                continue
            m = FN_RE.match(line)
            if m and in_proof:
                name = m.group(1)
                out[name] = make_harness(name, mod, fname, ln, meta, attrs)
                meta, attrs, in_proof = {}, [], False
            elif s and not s.startswith("//") and not s.startswith("#["):
                if not in_proof:
                    meta, attrs = {}, []
    # attach canary / kf twins
    for name, h in out.items():
        h["role"] = "main"
    for name, h in list(out.items()):
        for suffix, role in (("_canary", "canary"), ("_kf", "kf")):
            if name.endswith(suffix) and name[: -len(suffix)] in out:
                parent = out[name[: -len(suffix)]]
                h["role"] = role
                h["parent"] = parent["name"]
                parent[role] = name
                if not h["props"]:
                    h["props"] = parent["props"]
                h["tier"] = parent["tier"]
                if not h["flags"]:
                    h["flags"] = parent["flags"]
    return out


# ----------------------------------------------------------------------------- running kani
def kani_cmd(harnesses, flags, target_dir, playback=False):
    cmd = ["cargo", "kani", "-Z", "stubbing"]
    if "nomem" in flags:
        cmd += ["-Z", "unstable-options", "--no-memory-safety-checks"]
    if playback:
        cmd += ["-Z", "concrete-playback", "--concrete-playback=print"]
    cmd += ["--target-dir", target_dir]
    for h in harnesses:
        cmd += ["--harness", h["full"], "--exact"]
    return cmd


def kani_env():
    env = dict(os.environ)
    env["FINDUTILS_VERIF_DIR"] = VERIF
    env["CARGO_NET_OFFLINE"] = "true"
    env.pop("RUSTFLAGS", None)
    return env


class Slot:
    """A private cargo target dir, protected by flock so concurrent check.py runs do not collide."""

    def __init__(self):
        os.makedirs(CACHE, exist_ok=True)
        self.fd = None
        k = 0
        while True:
            path = os.path.join(CACHE, "slot%02d" % k)
            os.makedirs(path, exist_ok=True)
            fd = os.open(path + ".lock", os.O_CREAT | os.O_RDWR)
            try:
                fcntl.flock(fd, fcntl.LOCK_EX | fcntl.LOCK_NB)
                self.fd, self.path = fd, path
                return
            except OSError:
                os.close(fd)
                k += 1

    def release(self):
        if self.fd is not None:
            fcntl.flock(self.fd, fcntl.LOCK_UN)
            os.close(self.fd)
            self.fd = None


def run_batch(batch, tier, logdir, playback=False):
    """Run one cargo-kani invocation over `batch` (harnesses sharing flags). Returns (log text, wall, rc, note)."""
    cap_s, cap_gb = TIER_CAPS[tier]
    timeout = 120 + sum(min(cap_s, max(60, 8 * h["cost"])) if tier == "quick" else cap_s for h in batch)
    timeout = min(timeout, 120 + cap_s * len(batch))
    slot = Slot()
    try:
        cmd = kani_cmd(batch, batch[0]["flags"], slot.path, playback)
        logpath = os.path.join(logdir, "%s%s.log" % (batch[0]["name"], ".playback" if playback else ""))
        t0 = time.time()
        shell = "ulimit -v %d; exec %s" % (cap_gb * 1024 * 1024, " ".join("'%s'" % c for c in cmd))
        with open(logpath, "w") as lf:
            p = subprocess.Popen(["bash", "-c", shell], cwd=REPO, env=kani_env(), stdout=lf, stderr=subprocess.STDOUT,
                                 start_new_session=True)
            note = ""
            try:
                rc = p.wait(timeout=timeout)
            except subprocess.TimeoutExpired:
                os.killpg(p.pid, signal.SIGKILL)
                p.wait()
                rc, note = -9, "timeout after %ds" % timeout
        wall = time.time() - t0
        return open(logpath, errors="replace").read(), wall, rc, note, logpath
    finally:
        slot.release()


# ----------------------------------------------------------------------------- log parsing
def parse_log(text):
    """Split a Kani log into per-harness results."""
    res = {}
    parts = re.split(r"^Checking harness (\S+?)\.\.\.$", text, flags=re.M)
    # parts[0] = build output; then name, body, name, body...
    build = parts[0]
    for i in range(1, len(parts), 2):
        full, body = parts[i], parts[i + 1]
        r = {"full": full, "checks": [], "covers": []}
        for m in re.finditer(r"^Check \d+: (.+)\n\s+- Status: (\w+)\n\s+- Description: \"((?s:.*?))\"\n(?:\s+- Location: (.*)\n)?", body, flags=re.M):
            name, status, desc, loc = m.groups()
            entry = {"name": name, "status": status, "desc": desc, "loc": (loc or "").strip()}
            if ".cover." in name:
                r["covers"].append(entry)
            else:
                r["checks"].append(entry)

        def num(pat, cast=float):
            m = re.search(pat, body)
            return cast(m.group(1)) if m else None

        r["symex_s"] = num(r"Runtime Symex: ([\d.e+-]+)s")
        r["steps"] = num(r"size of program expression: (\d+) steps", int)
        m = re.search(r"Generated (\d+) VCC\(s\), (\d+) remaining", body)
        r["vccs"], r["vccs_remaining"] = (int(m.group(1)), int(m.group(2))) if m else (None, None)
        m = re.search(r"(\d+) variables, (\d+) clauses", body)
        r["variables"], r["clauses"] = (int(m.group(1)), int(m.group(2))) if m else (None, None)
        def total(pat):
            xs = [float(x) for x in re.findall(pat, body)]
            return round(sum(xs), 4) if xs else None

        r["solver_s"] = total(r"Runtime Solver: ([\d.e+-]+)s")
        r["decision_s"] = total(r"Runtime decision procedure: ([\d.e+-]+)s")
        r["solver_calls"] = len(re.findall(r"Runtime Solver: ", body))
        r["verification_s"] = num(r"Verification Time: ([\d.e+-]+)s")
        m = re.search(r"^ \*\* (\d+) of (\d+) failed", body, flags=re.M)
        r["summary_failed"], r["summary_total"] = (int(m.group(1)), int(m.group(2))) if m else (None, None)
        m = re.search(r"^VERIFICATION:- (\w+)", body, flags=re.M)
        r["verdict"] = m.group(1) if m else "NONE"
        r["cbmc_error"] = bool(re.search(r"Status: ERROR|CBMC failed|std::bad_alloc|Out of memory|killed by signal", body))
        # stubs actually applied, as reported by kani-compiler
        r["playback"] = None
        m = re.search(r"Concrete playback unit test for `[^`]+`:\n```\n(.*?)```", body, flags=re.S)
        if m:
            r["playback"] = m.group(1)
        res[full] = r
    return build, res


def decode_playback(src):
    """concrete_vals from a Kani playback test -> list of (bytes, comment)."""
    vals = []
    comment = None
    for line in src.splitlines():
        s = line.strip()
        if s.startswith("// "):
            comment = s[3:]
        m = re.match(r"vec!\[([\d, ]*)\],?$", s)
        if m:
            b = bytes(int(x) for x in m.group(1).split(",") if x.strip())
            vals.append({"bytes": list(b), "le_uint": int.from_bytes(b, "little") if b else 0, "text": comment})
            comment = None
    mcheck = re.search(r'Check for `(\w+)`: "(.*)"', src)
    return vals, (mcheck.group(2) if mcheck else None)


def functions_encoded(r):
    fns = set()
    for c in r["checks"]:
        m = re.search(r"^(src/\S+?):\d+:\d+ in function (\S+)", c["loc"])
        if m:
            fns.add(m.group(2))
    return sorted(fns)


def failing_checks(r, flags=()):
    # UNREACHABLE = the check sits in code CBMC proved unreachable from the harness: vacuously fine
    bad = [c for c in r["checks"] if c["status"] not in ("SUCCESS", "UNREACHABLE")]
    if "nomem" in flags:
        # harnesses that opt out of memory-safety checking also opt out of the assertions inside Kani's allocator
        # model (kani_lib.c: __rust_alloc/__rust_dealloc); they fire on fabricated values, never on findutils code
        bad = [c for c in bad if not (c["name"].startswith("__rust_") and "kani_lib.c" in c["loc"])]
    return bad


def classify(h, r):
    """-> (status, detail). status in verified|failed|inconclusive"""
    if r is None:
        return "inconclusive", "no result (build failure, timeout or crash before this harness)"
    if r["cbmc_error"]:
        return "inconclusive", "CBMC error / out of memory"
    nfail = sum(1 for c in r["checks"] if c["status"] == "FAILURE")
    if r.get("summary_failed") is not None and (nfail != r["summary_failed"] or len(r["checks"]) != r["summary_total"]):
        return "inconclusive", "log parse mismatch: parsed %d/%d checks failing, Kani's summary says %d/%d" % (
            nfail, len(r["checks"]), r["summary_failed"], r["summary_total"])
    bad = failing_checks(r, h.get("flags", ()))
    unwind = [c for c in bad if "unwinding assertion" in c["desc"]]
    if unwind:
        return "inconclusive", "unwinding assertion failed (bound too small): %s" % unwind[0]["loc"]
    undet = [c for c in bad if c["status"] != "FAILURE"]
    fails = [c for c in bad if c["status"] == "FAILURE"]
    if r["verdict"] in ("SUCCESSFUL", "FAILED") and not bad and r["checks"]:
        unsat_cov = [c for c in r["covers"] if c["status"] != "SATISFIED"]
        if unsat_cov:
            return "inconclusive", "vacuity guard: cover not satisfied: %s" % unsat_cov[0]["desc"]
        return "verified", ""
    if fails:
        return "failed", "; ".join("%s @ %s" % (c["desc"], c["loc"]) for c in fails[:4])
    if undet:
        return "inconclusive", "undetermined checks: %s" % undet[0]["desc"]
    return "inconclusive", "verdict %s" % r["verdict"]


# ----------------------------------------------------------------------------- known findings
def load_kf():
    if not os.path.exists(KF_FILE):
        return {"findings": [], "fixed": []}
    return json.load(open(KF_FILE))


# ----------------------------------------------------------------------------- native replay
def native_replay(h, witness):
    """Run the native replayer named in the harness metadata. -> (reproduced|None, detail)"""
    names = h["meta"].get("replay") or (h.get("parent_meta") or {}).get("replay")
    if not names:
        return None, "no native replayer for this harness (solver verdict on the real code stands alone)"
    sys.path.insert(0, os.path.join(VERIF, "replay"))
    import importlib
    try:
        mod = importlib.import_module("replayers")
    except Exception as e:  # noqa
        return None, "replayer module failed to load: %r" % (e,)
    fn = getattr(mod, names[0].split()[0], None)
    if fn is None:
        return None, "replayer %s missing" % names[0]
    try:
        return fn(witness, REPO)
    except Exception as e:  # noqa
        return None, "replayer raised %r" % (e,)


# ----------------------------------------------------------------------------- main check
def select(hs, prop, tier, only):
    sel = []
    for h in hs.values():
        if h["role"] != "main" or prop not in h["props"]:
            continue
        if tier == "quick" and h["tier"] != "quick":
            continue
        if only and only not in h["name"]:
            continue
        sel.append(h)
    return sorted(sel, key=lambda h: -h["cost"])


def make_batches(units, jobs):
    """units: list of lists of harnesses that must run together (main+canary+kf). Balance by cost; same flags per batch."""
    by_flags = {}
    for u in units:
        by_flags.setdefault(tuple(u[0]["flags"]), []).append(u)
    batches = []
    for flags, us in by_flags.items():
        us.sort(key=lambda u: -sum(h["cost"] for h in u))
        # expensive units alone; cheap ones grouped so that a batch stays below ~90 cost units
        cur, cur_cost = [], 0
        for u in us:
            c = sum(h["cost"] for h in u)
            if c >= 60:
                batches.append(list(u))
                continue
            if cur and cur_cost + c > 90:
                batches.append(cur)
                cur, cur_cost = [], 0
            cur += u
            cur_cost += c
        if cur:
            batches.append(cur)
    # if there are fewer batches than jobs, split the biggest multi-unit batches
    return batches


MIRSYM_PROPS = {"C01", "C11", "C04", "C19", "C18", "C02", "C08", "C09", "C05", "C12", "C20", "C07", "C16", "C13", "C03", "C10", "C14", "C15", "C06", "C17"}
MIRSYM_PRIMS = {"-true", "-false", "-print", "-print0", "-prune", "-quit", "-empty", "-readable"}


def run_mirsym(prop, tier, logdir):
    out = os.path.join(logdir, "mirsym.json")
    log = os.path.join(logdir, "mirsym.log")
    try:
        with open(log, "w") as lf:
            p = subprocess.run(["python3-vt", os.path.join(VERIF, "mirsym", "run.py"), prop, tier, out], stdout=lf, stderr=subprocess.STDOUT,
                               timeout=TIER_CAPS[tier][0] * 2, env=dict(os.environ, FINDUTILS_REPO=REPO))
    except subprocess.TimeoutExpired:
        return {"error": "mirsym timed out", "log": log}
    if p.returncode != 0 or not os.path.exists(out):
        tail = open(log, errors="replace").read()[-400:]
        return {"error": "mirsym failed: " + tail.replace("\n", " | "), "log": log}
    r = json.load(open(out))
    r["log"] = log
    return r


def run_check(prop, tier, only=None, jobs=None, seed=0):
    t_start = time.time()
    hs = discover()
    sel = select(hs, prop, tier, only)
    if not sel and prop not in MIRSYM_PROPS:
        print("no harness registered for %s at tier %s" % (prop, tier))
        return 2
    jobs = jobs or int(os.environ.get("VERIF_JOBS", "4"))  # 4 x 12 GiB caps fit the 62 GiB machine
    logdir = os.path.join(CACHE, "logs", "%s-%s-%d" % (prop, tier, os.getpid()))
    os.makedirs(logdir, exist_ok=True)
    units = []
    for h in sel:
        u = [h]
        for role in ("canary", "kf"):
            if role in h:
                t = hs[h[role]]
                t["parent_meta"] = h["meta"]
                u.append(t)
        units.append(u)
    batches = make_batches(units, jobs)
    results, walls, notes = {}, {}, {}
    builds = []

    def work(batch):
        text, wall, rc, note, logpath = run_batch(batch, tier, logdir)
        build, res = parse_log(text)
        return batch, res, wall, rc, note, build, logpath

    with ThreadPoolExecutor(max_workers=jobs) as ex:
        for batch, res, wall, rc, note, build, logpath in ex.map(work, batches):
            for h in batch:
                results[h["name"]] = res.get(h["full"])
                walls[h["name"]] = wall
                notes[h["name"]] = (note, rc, logpath, build)

    kf = load_kf()
    kf_entries = kf.get("findings", [])
    kf_by_harness = {f["harness"]: f for f in kf_entries if f.get("property") == prop and f.get("harness")}
    violations, inconclusive, known, queries, samples = [], [], [], [], []
    evaluations, distinct = 0, 0
    fn_all, stubs_all, assumptions = set(), set(), set()
    os.makedirs(REPLAY_DIR, exist_ok=True)

    for h in sel:
        r = results.get(h["name"])
        status, detail = classify(h, r)
        note, rc, logpath, build = notes[h["name"]]
        if r is None and note:
            detail = note
        if r is None:
            m = re.search(r"^error.*$", build or "", flags=re.M)
            if m:
                detail = "build/compile failure: %s" % m.group(0)
            elif not note:
                detail = "no result in the log (an earlier harness of the same batch ran out of time or memory)"
        q = {"harness": h["full"], "role": "main", "status": status, "detail": detail, "log": logpath}
        if r:
            q.update({k: r[k] for k in ("symex_s", "steps", "vccs", "vccs_remaining", "variables", "clauses", "solver_s",
                                        "decision_s", "solver_calls", "verification_s")})
            q["checks"] = len(r["checks"])
            q["covers_satisfied"] = sum(1 for c in r["covers"] if c["status"] == "SATISFIED")
            q["covers_total"] = len(r["covers"])
            evaluations += len(r["checks"]) + len(r["covers"])
            fn_all.update(functions_encoded(r))
        q["unwind"] = h["unwind"]
        q["stubs"] = h["stubs"]
        q["flags"] = h["flags"]
        for k in ("exec", "sym", "bounds", "outside", "assume"):
            if h["meta"].get(k):
                q[k] = " ".join(h["meta"][k])
        stubs_all.update(h["stubs"])
        for a in h["meta"].get("assume", []):
            assumptions.add("%s: %s" % (h["name"], a))
        queries.append(q)

        # --- canary (vacuity guard 2)
        canary_ok = True
        if "canary" in h:
            c = hs[h["canary"]]
            cr = results.get(c["name"])
            cstatus, cdetail = classify(c, cr)
            cq = {"harness": c["full"], "role": "canary", "status": cstatus, "detail": cdetail}
            if cr:
                evaluations += len(cr["checks"])
                cq["solver_s"] = cr["solver_s"]
            queries.append(cq)
            if cstatus != "failed":
                canary_ok = False
                if status == "verified":
                    status, detail = "inconclusive", "canary twin did not fail (%s: %s): harness may be vacuous" % (cstatus, cdetail)
                    q["status"], q["detail"] = status, detail

        # --- known-finding twin
        if "kf" in h:
            k = hs[h["kf"]]
            kr = results.get(k["name"])
            kstatus, kdetail = classify(k, kr)
            kq = {"harness": k["full"], "role": "known-finding twin", "status": kstatus, "detail": kdetail}
            if kr:
                evaluations += len(kr["checks"])
            queries.append(kq)
            entry = kf_by_harness.get(k["name"])
            if kstatus == "failed" and entry:
                labels = [c["desc"] for c in failing_checks(kr, k.get("flags", ())) if c["status"] == "FAILURE"]
                if all(any(l in d for l in entry["labels"]) for d in labels):
                    known.append(entry)
                    samples.append({"harness": k["full"], "kind": "known finding reproduced by the solver", "failing": labels,
                                    "finding": entry["id"], "what": entry["what"]})
                else:
                    violations.append((k, kr, "known-finding twin failed with an unlisted assertion: %s" % labels))
            elif kstatus == "failed" and not entry:
                violations.append((k, kr, "twin fails but no known finding is recorded: " + kdetail))
            elif kstatus == "verified" and entry:
                inconclusive.append((k, "recorded known finding %s no longer reproduces (fixed? update known_findings.json)" % entry["id"]))
            elif kstatus == "inconclusive":
                inconclusive.append((k, kdetail))

        if status == "verified":
            if r["covers"]:
                distinct += sum(1 for c in r["covers"] if c["status"] == "SATISFIED")
            if "canary" in h and canary_ok:
                distinct += 1
            for c in r["covers"][:3]:
                samples.append({"harness": h["full"], "kind": "cover scenario witnessed by the solver", "scenario": c["desc"], "at": c["loc"]})
        elif status == "failed":
            violations.append((h, r, detail))
        else:
            inconclusive.append((h, detail))

    # --- second engine: MIR-level symbolic execution
    mirsym = None
    if prop in MIRSYM_PROPS and (not only or "mirsym" in only):
        mirsym = run_mirsym(prop, tier, logdir)
        if mirsym.get("error"):
            inconclusive.append(({"name": "mirsym", "full": "mirsym"}, mirsym["error"]))
        else:
            evaluations += mirsym["inputs_covered"]
            distinct += mirsym["paths"]
            kf_keys = {k for e in kf_entries if e.get("property") == prop for k in e.get("mirsym_keys", [])}
            unlisted = [v for v in mirsym["violations"] if v["key"] not in kf_keys]
            queries.append({"harness": "mirsym: " + mirsym["target"], "role": "main",
                            "status": "verified" if not unlisted and not mirsym["unsupported"] else "failed",
                            "known_finding_inputs": len(mirsym["violations"]) - len(unlisted),
                            "engine": mirsym["engine"], "bounds": mirsym["bounds"], "paths": mirsym["paths"], "inputs_or_obligations_discharged": mirsym["inputs_covered"],
                            "solver_calls": mirsym["solver_calls"], "decision_s": mirsym["wall_s"], "mir_dump_s": mirsym["mir_dump_s"],
                            "functions_executed": mirsym["functions_executed"], "runs": [{k: r[k] for k in ("bound", "paths", "inputs_covered", "solver_calls", "wall_s")} for r in mirsym["runs"]],
                            "detail": "", "log": mirsym.get("log")})
            fn_all.update("mir:" + f for f in mirsym["functions_executed"])
            for r in mirsym["runs"]:
                samples.extend({"harness": "mirsym", "kind": "explored path and its outcome (values pinned by the path condition / a model of it)", **x} for x in r.get("samples", [])[:1])
            if mirsym["unsupported"]:
                inconclusive.append(({"name": "mirsym", "full": "mirsym"}, "paths left the modelled fragment: %s" % mirsym["unsupported"]))
            assumptions.add("mirsym: std/alloc calls are answered by the models in mirsym/models.py; process spawning / printing / leaf tests are natives (recorders, events, symbolic values)")

    # --- witnesses for violations: concrete playback, then native replay
    vio_out = []
    for h, r, detail in violations:
        text, wall_pb, rc, note, logpath = run_batch([h], tier, logdir, playback=True)
        _, res = parse_log(text)
        pr = res.get(h["full"])
        vals, failing = ([], None)
        if pr and pr.get("playback"):
            vals, failing = decode_playback(pr["playback"])
        witness = {"property": prop, "harness": h["full"], "harness_name": h["name"], "tier": tier, "failing": detail,
                   "failing_check": failing, "concrete_vals": vals, "witness_schema": " ".join(h["meta"].get("witness", []) or
                                                                                               (h.get("parent_meta") or {}).get("witness", [])),
                   "playback_test": pr.get("playback") if pr else None, "log": logpath}
        reproduced, rdetail = native_replay(h, witness)
        witness["native_replay"] = {"reproduced": reproduced, "detail": rdetail}
        wid = hashlib.sha1(json.dumps([h["full"], detail, vals], sort_keys=True).encode()).hexdigest()[:10]
        wpath = os.path.join(REPLAY_DIR, "%s-%s-%s.json" % (prop, h["name"], wid))
        json.dump(witness, open(wpath, "w"), indent=1)
        if reproduced is False:
            inconclusive.append((h, "solver witness did not reproduce natively (%s); encoding or stub suspect. witness=%s" % (rdetail, wpath)))
        else:
            vio_out.append((h, detail, wpath, reproduced, rdetail))
            samples.append({"harness": h["full"], "kind": "violation witness", "failing": detail, "replay": wpath,
                            "reproduced_natively": reproduced})
    if mirsym and mirsym.get("violations"):
        groups = {}
        for v in mirsym["violations"]:
            groups.setdefault(v["key"], []).append(v)
        kf_mirsym = {k: e for e in kf_entries if e.get("property") == prop for k in e.get("mirsym_keys", [])}
        for key in [k for k in groups if k in kf_mirsym]:
            entry = kf_mirsym[key]
            if entry not in known:
                known.append(entry)
            samples.append({"harness": "mirsym", "kind": "known finding reproduced by the solver", "finding": entry["id"], "inputs_of_this_kind": len(groups[key]),
                            "example": groups[key][0]["summary"][:300]})
            del groups[key]
        for key, vs in list(groups.items())[:8]:
            v = vs[0]
            witness = dict(v, property=prop, harness="mirsym", harness_name="mirsym", tier=tier, failing=v["summary"], same_kind_inputs=len(vs))
            h = {"name": "mirsym", "full": "mirsym", "meta": {"replay": [v.get("replayer", "")]}}
            reproduced, rdetail = native_replay(h, witness)
            witness["native_replay"] = {"reproduced": reproduced, "detail": rdetail}
            wid = hashlib.sha1(json.dumps(v, sort_keys=True, default=str).encode()).hexdigest()[:10]
            wpath = os.path.join(REPLAY_DIR, "%s-mirsym-%s.json" % (prop, wid))
            json.dump(witness, open(wpath, "w"), indent=1, default=str)
            if reproduced is False:
                inconclusive.append((h, "mirsym witness did not reproduce natively: %s (%s)" % (v["summary"][:200], rdetail)))
            else:
                vio_out.append((h, v["summary"][:400], wpath, reproduced, rdetail))
                samples.append({"harness": "mirsym", "kind": "violation witness", "failing": v["summary"][:400], "replay": wpath, "reproduced_natively": reproduced})

    if mirsym and not mirsym.get("error"):
        seen_keys = {v["key"] for v in mirsym.get("violations", [])}
        for e in kf_entries:
            if e.get("property") == prop and e.get("mirsym_keys") and not any(k in seen_keys for k in e["mirsym_keys"]):
                inconclusive.append(({"name": "mirsym", "full": "mirsym"}, "recorded known finding %s no longer reproduces (fixed? update known_findings.json)" % e["id"]))

    wall = time.time() - t_start
    ev = {
        "property_id": prop, "tier": tier, "seed": seed, "level": "model_checking",
        "coverage": {
            "evaluations": evaluations,
            "distinct_nontrivial": distinct,
"rule": ("evaluations = CBMC properties (assertions, overflow/bounds/pointer checks, covers) decided by the SAT solver in this run, "
                     "each over ALL values of the harness's symbolic inputs within the stated bounds; distinct_nontrivial = number of distinct "
                     "kani::cover! scenarios the solver proved reachable in verified harnesses + number of verified harnesses whose deliberately "
                     "wrong canary twin was refuted (measured from the Kani output of this run)." if sel else "") +
                    (" mirsym: evaluations += obligations discharged by z3 under a path condition plus inputs of a path compared with the reference "
                     "(every completion of the variables the path left free); distinct_nontrivial += feasible paths explored to the end." if mirsym else ""),
            "samples": samples[:40] or [{"note": "no verified harness in this run"}],
            "exhaustive": False,
            "engine": " + ".join(([("Kani 0.68.0 / CBMC 6.11.0 / CaDiCaL; goto-program rebuilt from %s working tree in this run" % REPO)] if sel else []) +
                                 ([mirsym["engine"] + "; MIR dumped from %s working tree in this run" % REPO] if mirsym and not mirsym.get("error") else [])),
            "functions_encoded": sorted(fn_all),
            "queries": queries,
            "stubs": sorted(stubs_all),
            "harnesses_verified": sum(1 for q in queries if q["role"] == "main" and q["status"] == "verified"),
            "harnesses_total": len(sel),
            "solver_time_s": round(sum((q.get("decision_s") or 0) for q in queries), 3),
            "symex_time_s": round(sum((q.get("symex_s") or 0) for q in queries), 3),
            "known_findings": [k["id"] for k in known],
            "inconclusive": [{"harness": h["full"], "why": why} for h, why in inconclusive],
        },
        "assumptions": sorted(assumptions) + ([
            "Kani/CBMC model of rustc MIR (Kani's pinned nightly) stands in for the release toolchain",
            "every #[kani::stub] listed under coverage.stubs replaces the named function by the harness model",
            "results hold within the unwind bound and value ranges listed per query; unwinding assertions are on",
        ] if sel else []) + ([
            "mirsym: the nightly toolchain's MIR (debug assertions off, overflow checks on) stands in for the release build; results hold within the bounds listed per query",
        ] if mirsym else []),
        "wall_s": round(wall, 2),
        "violations": len(vio_out),
    }
    os.makedirs(EVIDENCE_DIR, exist_ok=True)
    json.dump(ev, open(os.path.join(EVIDENCE_DIR, prop + ".json"), "w"), indent=1)

    for q in queries:
        if q["role"] == "main":
            print("  %-11s %-55s %s" % (q["status"], q["harness"].split("verif_kani::")[-1][:55],
                                        ("solver %.1fs" % q["decision_s"]) if q.get("decision_s") is not None else q.get("detail", "")))
    for k in known:
        print("KNOWN-FINDING: property=%s %s: %s" % (prop, k["id"], k["what"]))
    for h, detail, wpath, reproduced, rdetail in vio_out:
        print("  failing: %s: %s (native replay: %s)" % (h["name"], detail, rdetail))
        print("VIOLATION property=%s replay=%s" % (prop, wpath))
    for h, why in inconclusive:
        print("INCONCLUSIVE property=%s harness=%s: %s" % (prop, h["name"], why))
    print("%s %s: %d Kani harnesses%s, %d solver-decided checks/inputs, wall %.0fs" % (prop, tier, len(sel), " + mirsym" if mirsym else "", evaluations, wall))
    if vio_out:
        return 1
    if inconclusive:
        return 2
    if any(q["role"] == "main" and q["status"] == "failed" for q in queries):
        # defensive: a failed harness must never end in exit 0
        print("VIOLATION property=%s replay=%s" % (prop, os.path.join(EVIDENCE_DIR, prop + ".json")))
        return 1
    if not os.environ.get("VERIF_KEEP_LOGS"):
        shutil.rmtree(logdir, ignore_errors=True)
    return 0


def replay(path):
    w = json.load(open(path))
    if w.get("harness_name") == "mirsym":
        # a witness of the MIR-level engine: the concrete input is in the file; replay it against the real binaries (the solver run is the property's check itself)
        h = {"name": "mirsym", "full": "mirsym", "meta": {"replay": [w.get("replayer", "")]}}
        print("mirsym witness for %s: %s" % (w.get("property"), str(w.get("failing", w.get("summary", "")))[:300]))
        reproduced, rdetail = native_replay(h, w)
        print("native replay of recorded witness: reproduced=%s (%s)" % (reproduced, rdetail))
        return 1 if reproduced else 0
    hs = discover()
    h = hs[w["harness_name"]]
    if "parent" in h:
        h["parent_meta"] = hs[h["parent"]]["meta"]
    print("re-running harness %s on the current tree" % h["full"])
    logdir = os.path.join(CACHE, "logs", "replay-%d" % os.getpid())
    os.makedirs(logdir, exist_ok=True)
    text, wall, rc, note, logpath = run_batch([h], "thorough", logdir, playback=True)
    _, res = parse_log(text)
    r = res.get(h["full"])
    status, detail = classify(h, r)
    print("solver: %s %s" % (status, detail))
    reproduced, rdetail = native_replay(h, w)
    print("native replay of recorded witness: reproduced=%s (%s)" % (reproduced, rdetail))
    return 1 if (status == "failed" or reproduced) else 0


def main():
    ap = argparse.ArgumentParser()
    ap.add_argument("prop", nargs="?")
    ap.add_argument("--tier", default=os.environ.get("VERIF_TIER", "quick"))
    ap.add_argument("--only")
    ap.add_argument("--jobs", type=int)
    ap.add_argument("--replay")
    ap.add_argument("--list", action="store_true")
    a = ap.parse_args()
    if a.list:
        for h in discover().values():
            print("%-8s %-8s %-7s %5.0f %s" % (",".join(h["props"]), h["role"], h["tier"], h["cost"], h["full"]))
        return 0
    if a.replay:
        return replay(a.replay)
    seed = int(os.environ.get("VERIF_SEED", "0") or 0)
    return run_check(a.prop, a.tier, a.only, a.jobs, seed)


if __name__ == "__main__":
    sys.exit(main())
