// harnesses for module m_samefile (included into /repo under cfg(kani))
