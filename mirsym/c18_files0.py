#!/usr/bin/env python3
"""C18, last clause: -files0-from FILE.  do_find + parse_args + the real expression parser + parse_files0_args from MIR on
symbolic command lines over a vocabulary that contains -files0-from and file names standing for NUL-separated name lists
(names starting with '-', containing a newline, an empty name in the middle, no final NUL, an empty file, only a NUL, a
missing file); process_dir is a recorder.  Reference: equivalent to giving the names as starting points in the same order,
empty names skipped (and diagnosed), file operands cannot be combined with it, a file that cannot be opened is an error."""
import itertools, json, os, re, sys, time, z3
import loader, models, interp, natives_fs
from interp import Machine, SliceRef, RStr, Ptr, Struct, Enum, Opaque, BoxObj, VecObj, Unsupported, RustPanic, PathAbort, UNIT
from models import Some, NONE, Ok, Err, deref, as_list
from natives_fs import PStr, text_of
from reference import Reject

FILES = {"F_ab": b"a\0./b/\0", "F_dash_nl": b"-n\0x\ny\0", "F_hole": b"a\0\0b\0", "F_empty": b"", "F_nofinal": b"a\0b", "F_onlynul": b"\0", "F_hole3": b"a\0\0b\0c\0",
         "F_blank": b"a\0 \0\n\0\t \0"}       # names that consist of blanks / a newline only are names, not empty
VOCAB = ["-files0-from"] + list(FILES) + ["F_missing", "a", ".", "-L", "--", "-print", "-quit", "!", "(", ")", "-bogus"]


def names_of(content):
    parts = content.split(b"\0")
    if parts and parts[-1] == b"":
        parts = parts[:-1]
    return [p.decode() for p in parts]


def reference(words):
    i, follow = 0, "Never"
    while i < len(words):
        if words[i] == "-L":
            follow = "Always"; i += 1
        elif words[i] == "--":
            i += 1; break
        else:
            break
    paths = []
    while i < len(words) and (words[i] == "-" or not words[i].startswith("-")) and words[i] not in ("!", "("):
        paths.append(words[i]); i += 1
    explicit = list(paths)
    expr = words[i:]
    # expression grammar with -files0-from taking one operand
    pos = [0]
    files0 = [None]

    def peek():
        return expr[pos[0]] if pos[0] < len(expr) else None

    def primary():
        t = peek()
        if t is None: raise Reject("missing operand")
        if t == "(":
            pos[0] += 1
            if peek() == ")": raise Reject("empty parentheses")
            ex()
            if peek() != ")": raise Reject("missing )")
            pos[0] += 1
            return
        if t in ("-print", "-quit"):
            pos[0] += 1
            return
        if t == "-files0-from":
            pos[0] += 1
            if peek() is None: raise Reject("missing argument to -files0-from")
            files0[0] = peek()
            pos[0] += 1
            return
        raise Reject("unexpected %s" % t)

    def notx():
        if peek() == "!":
            pos[0] += 1
            return notx()
        return primary()

    def andx():
        notx()
        while peek() is not None and peek() not in ("-o", ",", ")"):
            notx()

    def ex():
        andx()
    try:
        if expr:
            ex()
            if pos[0] != len(expr): raise Reject("trailing %s" % expr[pos[0]])
    except Reject as r:
        return {"accept": False, "why": str(r)}
    if files0[0] is not None:
        if files0[0] not in FILES:
            return {"accept": False, "why": "cannot open %s" % files0[0]}
        if explicit and explicit != ["."]:      # (an explicit single '.' is indistinguishable from the default for the implementation; not demanded)
            return {"accept": False, "why": "file operands cannot be combined with -files0-from"}
        if explicit == ["."]:
            return {"accept": None}
        names = names_of(FILES[files0[0]])
        return {"accept": True, "follow": follow, "paths": [n for n in names if n != ""], "empties": sum(1 for n in names if n == "")}
    return {"accept": True, "follow": follow, "paths": explicit or ["."], "empties": 0}


def _closure(m, raw, args):
    found = re.findall(r"\{closure@[^}]*\}", raw)            # the adapter's own closure is the last one named (earlier ones belong to the receiver's type)
    fn = m.index.get(found[-1]) if found else None
    if fn is None:
        raise Unsupported("closure of " + raw[:70])
    return m.run(fn, args)


def install_models():
    def split(m, args, raw):
        items, a, b = as_list(args[0])
        segs, start = [], a
        for i in range(a, b):
            if _closure(m, raw, [args[1], Ptr(items, i)]):
                segs.append(SliceRef(items, start, i)); start = i + 1
        segs.append(SliceRef(items, start, b))
        return Struct("SplitIter", [segs])

    def split_collect(m, args, raw):
        return VecObj(list(deref(args[0]).fields[0]))

    def is_some_and(m, args, raw):
        v = args[0]
        return _closure(m, raw, [args[1], v.fields[0]]) if v.variant == "Some" else False

    def filter_map(m, args, raw):
        it = deref(args[0])
        items, pos, end = it.fields
        out = []
        for i in range(pos, end):
            r = _closure(m, raw, [args[1], Ptr(items, i)])
            if r.variant == "Some":
                out.append(r.fields[0])
        return Struct("Iter", [out, 0, len(out)])

    def map_(m, args, raw):
        it = deref(args[0])
        items, pos, end = it.fields
        out = [_closure(m, raw, [args[1], items[i]]) for i in range(pos, end)]
        return Struct("Iter", [out, 0, len(out)])

    def collect(m, args, raw):
        it = deref(args[0])
        items, pos, end = it.fields
        return VecObj(list(items[pos:end]))

    orig_any = models.EXACT.get("<Iter as Iterator>::any")

    def any_(m, args, raw):
        if "{closure@" not in raw:
            return orig_any(m, args, raw)
        it = deref(args[0])
        items, pos, end = it.fields
        for i in range(pos, end):
            if _closure(m, raw, [args[1], Ptr(items, i)]):
                return True
        return False

    def retain(m, args, raw):
        v = deref(args[0])
        v.items[:] = [x for i, x in enumerate(list(v.items)) if _closure(m, raw, [args[1], Ptr(v.items, i)])]
        return UNIT

    def from_utf8(m, args, raw):
        items, a, b = as_list(args[0])
        try:
            return Ok(RStr(bytes(items[a:b]).decode()))
        except UnicodeDecodeError:
            return Err(Opaque("Utf8Error"))
    def vec_remove(m, a, raw):
        v = deref(a[0])
        if a[1] >= len(v.items):
            raise RustPanic("removal index out of bounds")
        return v.items.pop(a[1])
    models.EXACT["Vec::remove"] = vec_remove
    models.EXACT["Result::ok"] = lambda m, a, raw: (Some(a[0].fields[0]) if a[0].variant == "Ok" else NONE())
    def extend(m, a, raw):
        items, x, y = as_list(a[1])
        deref(a[0]).items.extend(items[x:y])
        return UNIT
    models.EXACT["<Vec<String> as Extend>::extend"] = extend
    def position(m, a, raw):
        it = deref(a[0])
        items, pos, end = it.fields
        for i in range(pos, end):
            if _closure(m, raw, [a[1], Ptr(items, i)]):
                it.fields[1] = i + 1
                return Some(i - pos)
        return NONE()

    def swap_remove(m, a, raw):
        v = deref(a[0])
        i = a[1]
        if i >= len(v.items):
            raise RustPanic("swap_remove index out of bounds")
        out = v.items[i]
        v.items[i] = v.items[-1]
        v.items.pop()
        return out
    models.EXACT["<Iter as Iterator>::position"] = position
    models.EXACT["Vec::swap_remove"] = swap_remove
    models.EXACT["Option::as_ref"] = lambda m, a, raw: (Some(Ptr(deref(a[0]).fields, 0)) if deref(a[0]).variant == "Some" else NONE())
    for k, f in (("slice::split", split), ("<Split as Iterator>::collect", split_collect), ("Option::is_some_and", is_some_and), ("<Iter as Iterator>::filter_map", filter_map),
                 ("<FilterMap as Iterator>::map", map_), ("<Map as Iterator>::collect", collect), ("<Iter as Iterator>::any", any_), ("Vec::retain", retain),
                 ("from_utf8", from_utf8), ("str::from_utf8", from_utf8), ("converts::from_utf8", from_utf8)):
        models.EXACT[k] = f


def explore(n, funcs, index, enums, vocab=VOCAB):
    install_models()
    res = {"paths": 0, "inputs_covered": 0, "violations": [], "unsupported": {}, "samples": []}
    toks = [z3.Int("tok%d" % i) for i in range(n)]
    state = {}

    def process_dir(m, args):
        state["calls"].append(text_of(m, args[0]))
        state["follow"] = deref(args[1]).fields[9].variant
        return 0

    def file_open(m, args):
        name = text_of(m, args[0])
        state["opened"].append(name)
        if name in FILES:
            return Ok(Struct("FileV", [name]))
        return Err(Struct("IoError", [2]))

    def read_to_end(m, args):
        f = deref(args[0])
        buf = deref(args[1])
        data = FILES[f.fields[0]]
        buf.items.extend(list(data))
        return Ok(len(data))

    natives = {"process_dir": process_dir, "print_help": lambda m, a: UNIT, "print_version": lambda m, a: UNIT, "parse_str_to_newer_args": lambda m, a: NONE(),
               "File::open": file_open, "<File as Read>::read_to_end": read_to_end,
               "_eprint": lambda m, a: (state.__setitem__("diags", state["diags"] + 1), UNIT)[1],
               "io::_eprint": lambda m, a: (state.__setitem__("diags", state["diags"] + 1), UNIT)[1],
               "<String as PartialEq<str>>::eq": lambda m, a: text_of(m, a[0]) == text_of(m, a[1]),
               "<String as PartialEq<&str>>::eq": lambda m, a: text_of(m, a[0]) == text_of(m, a[1]),
               "<String as PartialEq<&str>>::eq": lambda m, a: text_of(m, a[0]) == text_of(m, a[1]),
               "<String as PartialEq>::eq": lambda m, a: text_of(m, a[0]) == text_of(m, a[1]),
               "<str as PartialEq>::eq": lambda m, a: (text_of(m, a[0]) == text_of(m, a[1])) if any(isinstance(deref(x), PStr) for x in a[:2]) else models.str_eq(m, a[0], a[1]),
               "Arguments::from_str": lambda m, a: Opaque("fmt"),
               "String::is_empty": lambda m, a: text_of(m, a[0]) == "",
               "<&String as PartialEq>::eq": lambda m, a: text_of(m, a[0]) == text_of(m, a[1])}
    m = Machine(funcs, index, enums, models, natives=natives, max_steps=2000000)
    m.base_constraints = [z3.And(t >= 0, t < len(vocab)) for t in toks]
    m.pending = [[]]
    t0 = time.time()
    while m.pending:
        m.reset_path(m.pending.pop())
        state.update(calls=[], follow=None, opened=[], diags=0)
        args = SliceRef([RStr(sym=toks[i], vocab=vocab) for i in range(n)])
        try:
            r = m.call("do_find", [args, Opaque("deps")])
        except RustPanic as e:
            res["violations"].append({"what": "panic: %s" % str(e)[:100], "tokens": None})
            res["paths"] += 1
            continue
        except Unsupported as e:
            res["unsupported"][str(e)[:100]] = res["unsupported"].get(str(e)[:100], 0) + 1
            continue
        except PathAbort:
            continue
        res["paths"] += 1
        s = z3.Solver()
        for c in m.base_constraints + m.pc: s.add(c)
        while s.check() == z3.sat:
            mod = s.model()
            vals = [mod.eval(t, model_completion=True).as_long() for t in toks]
            s.add(z3.Or([t != v for t, v in zip(toks, vals)]))
            words = [vocab[v] for v in vals]
            want = reference(words)
            res["inputs_covered"] += 1
            if want["accept"] is None:
                continue
            bad = None
            if r.variant == "Err":
                if want["accept"]:
                    bad = "rejected, but the command line is well formed"
            elif not want["accept"]:
                bad = "accepted, reference rejects (%s)" % want["why"]
            else:
                exp = want["paths"]
                if "-quit" in words and state["calls"] != exp:
                    pass        # -quit semantics are c18_startpoints' subject (process_dir is a plain recorder here)
                elif state["calls"] != exp:
                    bad = "starting points walked %r, expected %r" % (state["calls"], exp)
                elif state["follow"] is not None and state["follow"] != want["follow"]:
                    bad = "follow mode %s, expected %s" % (state["follow"], want["follow"])
                elif want["empties"] and not state["diags"]:
                    bad = "%d empty name(s) were not diagnosed" % want["empties"]
            if bad:
                res["violations"].append({"what": bad, "tokens": words})
        if len(res["samples"]) < 4 and r.variant == "Ok" and state["opened"]:
            res["samples"].append({"walked": state["calls"], "file": state["opened"]})
    res["wall_s"] = round(time.time() - t0, 2)
    res["solver_calls"] = m.stats["solver_calls"]
    res["functions_executed"] = sorted(m.executed)
    return res


if __name__ == "__main__":
    n = int(sys.argv[1]) if len(sys.argv) > 1 else 2
    funcs, index, enums, secs, _ = loader.load(os.environ.get("FINDUTILS_REPO", "/repo"), None)
    r = explore(n, funcs, index, enums)
    v = r.pop("violations")
    print(json.dumps({k: r[k] for k in ("paths", "inputs_covered", "solver_calls", "wall_s", "unsupported", "samples")})[:1000])
    print(len(v), "violations")
    seen = set()
    for x in v:
        k = x["what"][:40] + str(x["tokens"])
        if k in seen: continue
        seen.add(k); print("  ", x["tokens"], x["what"])
        if len(seen) > 12: break
