// harnesses for module m_group (included into /repo under cfg(kani))
