"""Reference POSIX fnmatch() without flags for the constructs in the C12 bound (pure Python)."""


# ----------------------------------------------------------------------------------------------- reference fnmatch (POSIX, no flags)
def fnmatch_ref(p, s, bracket_backslash="quote"):
    """bracket_backslash: 'quote' = POSIX fnmatch() without FNM_NOESCAPE (a backslash quotes the next character, also inside a bracket
    expression: glibc, and what GNU find does); 'literal' = regular-expression bracket semantics (the backslash is a member)"""
    def bracket(pi):
        """p[pi] == '['; -> (negated, members, next index) or None if not a bracket expression"""
        j = pi + 1
        neg = j < len(p) and p[j] == "!"
        if neg: j += 1
        members = []
        if j < len(p) and p[j] == "]":
            members.append("]"); j += 1
        while j < len(p) and p[j] != "]":
            if p[j] == "\\" and bracket_backslash == "quote":
                if j + 1 >= len(p):
                    return None
                members.append(p[j + 1]); j += 2
                continue
            members.append(p[j]); j += 1
        if j >= len(p) or not members:
            return None
        return neg, members, j + 1

    def go(pi, si):
        while pi < len(p):
            c = p[pi]
            if c == "*":
                for k in range(si, len(s) + 1):
                    if go(pi + 1, k): return True
                return False
            if c == "?":
                if si >= len(s): return False
                pi += 1; si += 1; continue
            if c == "\\":
                if pi + 1 >= len(p): return False          # trailing backslash: no match
                if si >= len(s) or s[si] != p[pi + 1]: return False
                pi += 2; si += 1; continue
            if c == "[":
                b = bracket(pi)
                if b is not None:
                    neg, members, nxt = b
                    if si >= len(s) or ((s[si] in members) == neg): return False
                    pi = nxt; si += 1; continue
            if si >= len(s) or s[si] != c: return False
            pi += 1; si += 1
        return si == len(s)
    # a pattern ending in a lone backslash matches nothing
    k, esc = 0, False
    return go(0, 0)


