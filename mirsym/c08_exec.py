#!/usr/bin/env python3
"""C08 / C09 (and the walk loop of C02/C03 once more): MIR-level symbolic execution of process_dir + WalkEntry::from_walkdir +
the -exec matchers (built by the real expression parser) over a scripted walkdir.

Symbolic: whether each path still fits into the command line under construction (argmax's verdict), every child's outcome,
the argument templates (drawn from a vocabulary), -depth.  Recorders: argmax::Command, std::process::Command, walkdir."""
import json, os, posixpath, sys, time, z3
import loader, models, interp, natives_fs
from interp import Machine, SliceRef, RStr, Ptr, Struct, Enum, Opaque, BoxObj, VecObj, Tuple, Unsupported, RustPanic, PathAbort, UNIT
from models import Some, NONE, Ok, Err, deref
from natives_fs import PStr, text_of

# the scripted tree: (path, depth, is_dir); names with blanks, quotes, a leading dash, braces
TREE = [("r", 0, True), ("r/a b", 1, False), ("r/d", 1, True), ("r/d/-n", 2, False), ("r/e'{}\udce9", 1, False)]     # the last name ends in a byte that is not UTF-8 (0xE9, carried as a lone surrogate)
# for -mindepth 2: two sibling directories with entries of their own - consecutive entries of equal depth with different parents, the directories between them not yielded
TREE_MIN = [("r", 0, True), ("r/d", 1, True), ("r/d/-n", 2, False), ("r/d/x y", 2, False), ("r/e", 1, True), ("r/e/z", 2, False), ("r/f", 1, False)]
TEMPLATES = ["{}", "a{}", "{}{}", "x", "-n", "{} {}", ""]


def visit_order(depth_first):
    """pre-order as listed; post-order: children before their directory"""
    if not depth_first:
        return list(TREE)
    out, stack = [], []
    for ent in TREE:
        while stack and stack[-1][1] >= ent[1]:
            out.append(stack.pop())
        if ent[2]:
            stack.append(ent)
        else:
            out.append(ent)
    while stack:
        out.append(stack.pop())
    return out


def make_natives(state, sym):
    nat = {}

    # ---- walkdir (documented behaviour on the scripted tree)
    def wd_new(m, args):
        state["wd"] = {"root": text_of(m, args[0])}
        return Struct("WalkDir", [])

    def wd_opt(name):
        def f(m, args):
            state["wd"][name] = args[1]
            return args[0]
        return f

    def wd_into_iter(m, args):
        cf = state["wd"].get("contents_first", False)
        state["order"] = visit_order(bool(cf))
        state["pos"] = 0
        return Struct("WalkIter", [])

    def wd_next(m, args):
        mind = state["wd"].get("min_depth", 0)
        if not isinstance(mind, int):
            raise Unsupported("symbolic min_depth")
        while state["pos"] < len(state["order"]) and state["order"][state["pos"]][1] < mind:
            state["pos"] += 1                      # walkdir descends into but does not yield what lies above min_depth
        i = state["pos"]
        if i >= len(state["order"]):
            return NONE()
        state["pos"] = i + 1
        p, d, isdir = state["order"][i]
        state["yielded"].append(p)
        return Some(Ok(Struct("DirEntryV", [PStr(p), d, isdir])))

    def wd_skip(m, args):
        # abandon the directory most recently descended into (pre-order: the entry just yielded, if a directory)
        i = state["pos"] - 1
        p, d, isdir = state["order"][i]
        if not state["wd"].get("contents_first", False) and isdir:
            while state["pos"] < len(state["order"]) and state["order"][state["pos"]][1] > d:
                state["pos"] += 1
        state["skips"].append(p)
        return UNIT

    def parse_usize(m, args):
        t = text_of(m, args[0])
        return Ok(int(t)) if t.isdigit() and t.isascii() else Err(Opaque("ParseIntError"))
    nat["str::parse"] = parse_usize
    nat.update({"WalkDir::new": wd_new, "WalkDir::contents_first": wd_opt("contents_first"), "WalkDir::max_depth": wd_opt("max_depth"),
                "WalkDir::min_depth": wd_opt("min_depth"), "WalkDir::same_file_system": wd_opt("same_file_system"),
                "WalkDir::follow_links": wd_opt("follow_links"), "WalkDir::follow_root_links": wd_opt("follow_root_links"),
                "WalkDir::sort_by": wd_opt("sort_by"), "<WalkDir as IntoIterator>::into_iter": wd_into_iter,
                "<IntoIter as Iterator>::next": wd_next, "IntoIter::skip_current_dir": wd_skip,
                "DirEntry::path": lambda m, a: deref(a[0]).fields[0], "DirEntry::depth": lambda m, a: deref(a[0]).fields[1],
                "DirEntry::into_path": lambda m, a: deref(a[0]).fields[0], "DirEntry::path_is_symlink": lambda m, a: False})

    # ---- argmax::Command
    def am_new(m, args):
        c = Struct("ArgmaxCommand", [text_of(m, args[0]), [], None])
        state["commands"].append(c)
        return c

    def am_try_args(m, args):
        c = deref(args[0])
        items, a, b = models.as_list(args[1])
        c.fields[1].extend(text_of(m, x) for x in items[a:b])
        state["nfixed"] = len(c.fields[1])
        return Ok(args[0])

    def am_try_arg(m, args):
        c = deref(args[0])
        k = state["ntry"]
        state["ntry"] += 1
        # assumption: a single path always fits into a fresh command line (PATH_MAX is far below any ARG_MAX)
        fresh = len(c.fields[1]) == state.get("nfixed", 0)        # no path in this command yet
        fits = True if (fresh or state.get("all_fit")) else (m.decide(sym["fits"][k]) if k < len(sym["fits"]) else True)
        state["verdicts"].append(fits)
        if not fits:
            return Err(Opaque("E2BIG"))
        c.fields[1].append(text_of(m, args[1]))
        return Ok(args[0])

    def am_cwd(m, args):
        deref(args[0]).fields[2] = text_of(m, args[1])
        return args[0]

    def am_status(m, args):
        c = deref(args[0])
        k = len(state["runs"])
        # outcome: 0 exit 0, 1 exit non-zero, 2 cannot be started, 3 killed by a signal (no exit code)
        if k < 2:
            o = m.decide_int(sym["out"][k], [0, 1, 3] if k == 0 else [0, 1])
        elif k < len(sym["out"]):
            o = 0 if m.decide(sym["out"][k] == 0) else 1
        else:
            o = 0
        state["runs"].append({"prog": c.fields[0], "argv": list(c.fields[1]), "cwd": c.fields[2], "outcome": 2 if o is None else o})
        if o is None:
            return Err(Opaque("spawn error"))
        return Ok(Struct("ExitStatus", [o]))

    nat["ExitStatus::success"] = lambda m, a: deref(a[0]).fields[0] == 0
    nat["ExitStatus::code"] = lambda m, a: (NONE() if deref(a[0]).fields[0] == 3 else Some(0 if deref(a[0]).fields[0] == 0 else 1))
    nat["<ExitStatus as ExitStatusExt>::signal"] = lambda m, a: (Some(9) if deref(a[0]).fields[0] == 3 else NONE())

    nat.update({"Command::new": am_new, "Command::try_args": am_try_args, "Command::try_arg": am_try_arg, "Command::current_dir": am_cwd,
                "Command::status": am_status, "Command::arg": None})

    # std::process::Command shares the names Command::new / arg / current_dir / status: same recorder, `arg` appends unconditionally
    def cmd_arg(m, args):
        deref(args[0]).fields[1].append(text_of(m, args[1]))
        return args[0]
    nat["Command::arg"] = cmd_arg

    def printer(m, args):
        e = deref(args[1])
        m.trace.append("print " + text_of(m, m.call("WalkEntry::path", [args[1]])))
        return True
    nat["<Printer as Matcher>::matches"] = printer
    nat["parse_str_to_newer_args"] = lambda m, a: models.NONE()
    return nat


def run_one(m, funcs, index, enums, expr_tokens, depth_sym, state, walks=1):
    args = SliceRef([t if isinstance(t, RStr) else RStr(t) for t in expr_tokens])
    cfg = [m.call("<Config as Default>::default", [])]
    r = m.call("build_top_level_matcher", [args, Ptr(cfg, 0)])
    if r.variant != "Ok":
        return {"parse": "rejected"}
    if depth_sym is not None and m.decide(depth_sym):
        cfg[0].fields[1] = True                     # Config.depth_first
    state["depth_first"] = bool(cfg[0].fields[1])
    box = r.fields[0]
    quit_cell = [False]
    ret = 0
    for _w in range(walks):
        # do_find's loop: one process_dir per starting point with the same matcher (here the same starting point again: `find r r ...`)
        r1 = m.call("process_dir", [RStr("r"), Ptr(cfg, 0), Opaque("deps"), Ptr(box.cell, 0), Ptr(quit_cell, 0)])
        ret = r1 if r1 != 0 else ret
        state["at_walk_end"].append((len(state["yielded"]), [list(r["argv"]) for r in state["runs"]]))
    return {"parse": "ok", "ret": ret, "quit": quit_cell[0]}


def explore(kind, funcs, index, enums):
    global TREE
    if kind == "multi_dir_min":
        saved, TREE = TREE, TREE_MIN
        try:
            return _explore(kind, funcs, index, enums)
        finally:
            TREE = saved
    return _explore(kind, funcs, index, enums)


def _explore(kind, funcs, index, enums):
    """kind: 'multi', 'multi_dir', 'multi_dir_min' (-mindepth 2 -execdir ... {} +), 'multi_quit', 'multi_two', 'single', 'single_dir'"""
    res = {"kind": kind, "paths": 0, "violations": [], "unsupported": {}, "samples": [], "checks": 0}
    nent = len(TREE)
    sym = {"fits": [z3.Bool("fits%d" % i) for i in range(2 * nent)], "out": [z3.Int("out%d" % i) for i in range(2 * nent + 2)]}
    t1, t2 = z3.Int("tmpl1"), z3.Int("tmpl2")
    depth = z3.Bool("depth_first")
    state = {}
    nat = make_natives(state, sym)
    m = Machine(funcs, index, enums, models, natives=nat)
    m.base_constraints = [z3.And(o >= 0, o <= 3) for o in sym["out"]] + [t1 >= 0, t1 < len(TEMPLATES), t2 >= 0, t2 < len(TEMPLATES)]
    m.pending = [[]]
    if kind.startswith("multi"):
        expr = ["-execdir" if kind == "multi_dir" else "-exec", "cmd", "fixed", "{}", "+"] + (["-name?"] if False else [])
        if kind == "multi_two":
            # two batch actions: both flush at the end of the walk under one MatcherIO (all paths fit: the verdicts are not symbolic here)
            expr = ["-exec", "cmd", "fixed", "{}", "+", "-exec", "cmd2", "fixed", "{}", "+"]
        if kind == "multi_quit":
            expr = ["-exec", "cmd", "{}", "+", "-name", "d", "-quit"] if False else ["-exec", "cmd", "{}", "+", "-quit"]
        if kind == "multi_roots_dir":
            expr = ["-execdir", "cmd", "fixed", "{}", "+"]
        if kind == "multi_dir_min":
            expr = ["-mindepth", "2", "-execdir", "cmd", "fixed", "{}", "+"]
    else:
        expr = ["-execdir" if kind == "single_dir" else "-exec", "cmd", RStr(sym=t1, vocab=TEMPLATES), RStr(sym=t2, vocab=TEMPLATES), ";", "-print"]
    t0 = time.time()
    while m.pending:
        m.reset_path(m.pending.pop())
        state.update(wd={}, order=[], pos=0, yielded=[], skips=[], commands=[], ntry=0, verdicts=[], runs=[], depth_first=False, at_walk_end=[])
        state["all_fit"] = kind in ("multi_two", "multi_roots", "multi_roots_dir")
        try:
            out = run_one(m, funcs, index, enums, expr, depth if kind in ("multi", "multi_dir", "multi_dir_min", "single") else None, state, walks=2 if kind.startswith("multi_roots") else 1)
        except RustPanic as e:
            res["violations"].append({"what": "panic: " + str(e)[:120]})
            res["paths"] += 1
            continue
        except Unsupported as e:
            res["unsupported"][str(e)[:110]] = res["unsupported"].get(str(e)[:110], 0) + 1
            continue
        except PathAbort:
            continue
        res["paths"] += 1
        if out["parse"] != "ok":
            res["violations"].append({"what": "well-formed -exec expression rejected", "expr": [str(x) for x in expr]})
            continue
        bad = check_multi(kind, out, state, m) if kind.startswith("multi") else check_single(kind, out, state, m, t1, t2)
        res["checks"] += 1
        for b in bad:
            res["violations"].append(dict(b, kind=kind, runs=state["runs"], verdicts=state["verdicts"], depth_first=state["depth_first"]))
        if len(res["samples"]) < 3 and len(state["runs"]) >= 2:
            res["samples"].append({"kind": kind, "depth_first": state["depth_first"], "verdicts": state["verdicts"], "runs": state["runs"], "ret": str(out["ret"])})
    res["wall_s"] = round(time.time() - t0, 2)
    res["solver_calls"] = m.stats["solver_calls"]
    res["functions_executed"] = sorted(m.executed)
    return res


def check_multi(kind, out, state, m):
    bad = []
    execdir = kind in ("multi_dir", "multi_dir_min")
    runs, verdicts = state["runs"], state["verdicts"]
    visited = state["yielded"]
    if kind == "multi_quit":
        # -quit after the first entry: only it was reached, and its invocation still ran before find returned
        if [r["argv"] for r in runs] != [["r"]] and verdicts[:1] == [True]:
            bad.append({"what": "-quit: pending invocation not run exactly once (%r)" % [r["argv"] for r in runs]})
        if not out["quit"]:
            bad.append({"what": "-quit not propagated"})
        return bad
    fixed = ["fixed"]
    if kind.startswith("multi_roots"):
        # two starting points, one matcher: by the end of each walk exactly the paths visited so far have been delivered, each once, in order
        arg = (lambda p: "./" + posixpath.basename(p)) if kind.endswith("_dir") else (lambda p: p)
        for k, (nvis, argvs) in enumerate(state["at_walk_end"]):
            got = [a for av in argvs for a in av[1:]]
            if got != [arg(p) for p in visited[:nvis]] or any(av[:1] != fixed for av in argvs):
                bad.append({"what": "after starting point %d the invocations so far received %r, expected %r (each visited path once, nothing carried over)" % (k + 1, argvs, [arg(p) for p in visited[:nvis]])})
        failed = any(r["outcome"] != 0 for r in runs)
        if (out["ret"] != 0) != failed:
            bad.append({"what": "status %r although %s" % (out["ret"], "an invocation failed" if failed else "everything succeeded")})
        return bad
    if kind == "multi_two":
        for prog in ("cmd", "cmd2"):
            mine = [r for r in runs if r["prog"] == prog]
            if [a for r in mine for a in r["argv"][1:]] != visited or any(r["argv"][:1] != fixed for r in mine):
                bad.append({"what": "%s received %r, expected every visited path once after the fixed argument" % (prog, [r["argv"] for r in mine])})
        failed = any(r["outcome"] != 0 for r in runs)
        if (out["ret"] != 0) != failed:
            bad.append({"what": "find's status %r although %s (outcomes %r)" % (out["ret"], "an invocation failed" if failed else "everything succeeded", [r["outcome"] for r in runs])})
        return bad
    # which paths were dropped because they do not fit even alone (two consecutive rejections)
    delivered, dropped, k = [], [], 0
    for p in visited:
        if k >= len(verdicts):
            break
        if verdicts[k]:
            delivered.append(p); k += 1
        else:
            k += 1
            if k < len(verdicts) and verdicts[k]:
                delivered.append(p)
            else:
                dropped.append(p)
            k += 1
    want_arg = (lambda p: "./" + posixpath.basename(p)) if execdir else (lambda p: p)
    if execdir:
        # the root "r" has parent "" ; its basename is r
        pass
    flat = [a for r in runs for a in r["argv"][len(fixed):]]
    if flat != [want_arg(p) for p in delivered]:
        bad.append({"what": "paths delivered %r, expected %r (each once, in visit order, after the fixed arguments)" % (flat, [want_arg(p) for p in delivered])})
    for r in runs:
        if r["argv"][:len(fixed)] != fixed or r["prog"] != "cmd":
            bad.append({"what": "invocation does not start with the command and its fixed arguments: %r" % (r,)})
        if len(r["argv"]) == len(fixed):
            bad.append({"what": "invocation without any path"})
    if execdir:
        # every invocation: entries of one directory, cwd = that directory
        i = 0
        for r in runs:
            n = len(r["argv"]) - len(fixed)
            group = delivered[i:i + n]; i += n
            parents = {posixpath.dirname(p) for p in group}
            if len(parents) > 1:
                bad.append({"what": "-execdir invocation mixes directories %r" % sorted(parents)})
            elif group:
                par = parents.pop()
                cwd = r["cwd"]
                ok = (cwd is None and par == "") or (cwd is not None and posixpath.normpath(cwd) == posixpath.normpath(par or "."))
                if not ok:
                    bad.append({"what": "-execdir invocation for %r ran in %r" % (group, cwd)})
    else:
        for r in runs:
            if r["cwd"] is not None:
                bad.append({"what": "-exec invocation changed directory to %r" % r["cwd"]})
        # maximal: an invocation ends only when the next path did not fit (or at the end)
        # (reconstructed from the verdict script: a run before the end must coincide with a rejection)
        nrej = sum(1 for v in verdicts if not v)
        nflush = len(runs) - 1 if runs else 0
        firsts = 0
        kk = 0
        for p in visited:
            if kk >= len(verdicts): break
            if verdicts[kk]: kk += 1
            else:
                firsts += 1; kk += 2
        if nflush != firsts and delivered:
            bad.append({"what": "%d invocations were dispatched early but %d paths did not fit" % (nflush, firsts)})
    failed = bool(dropped) or any(r["outcome"] != 0 for r in runs)
    ret = out["ret"]
    if (ret != 0) != failed:
        bad.append({"what": "find's status %r although %s" % (ret, "an invocation failed / a path was dropped" if failed else "everything succeeded")})
    return bad


def check_single(kind, out, state, m, t1, t2):
    bad = []
    execdir = kind == "single_dir"
    mod_s = z3.Solver()
    for c in m.base_constraints + m.pc: mod_s.add(c)
    mod_s.check()
    mod = mod_s.model()
    tm = [TEMPLATES[mod.eval(t, model_completion=True).as_long()] for t in (t1, t2)]
    runs, visited = state["runs"], state["yielded"]
    if len(runs) != len(visited):
        bad.append({"what": "%d invocations for %d files" % (len(runs), len(visited))})
        return bad
    prints = [t for t in m.trace]
    want_prints = []
    for p, r in zip(visited, runs):
        arg = ("./" + posixpath.basename(p)) if execdir else p
        want = [t.replace("{}", arg) for t in tm]
        if r["prog"] != "cmd" or r["argv"] != want:
            bad.append({"what": "argv %r for %r with templates %r, expected %r" % (r["argv"], p, tm, want)})
        if execdir:
            par = posixpath.dirname(p)
            ok = (r["cwd"] is None and par == "") or (r["cwd"] is not None and posixpath.normpath(r["cwd"]) == posixpath.normpath(par))
            if not ok:
                bad.append({"what": "-execdir for %r ran in %r" % (p, r["cwd"])})
        elif r["cwd"] is not None:
            bad.append({"what": "-exec changed directory"})
        if r["outcome"] == 0:
            want_prints.append("print " + p)
    if prints != want_prints:
        bad.append({"what": "-exec truth: printed %r, expected %r (true iff the command exits 0)" % (prints, want_prints)})
    if out["ret"] != 0:
        bad.append({"what": "a failing -exec ... ; changed find's exit status to %r" % (out["ret"],)})
    return bad


KINDS = ["multi", "multi_dir", "multi_dir_min", "multi_quit", "multi_two", "multi_roots", "multi_roots_dir", "single", "single_dir"]

if __name__ == "__main__":
    text = open(sys.argv[2]).read() if len(sys.argv) > 2 else None
    funcs, index, enums, secs, _ = loader.load(os.environ.get("FINDUTILS_REPO", "/repo"), text)
    for kind in (sys.argv[1].split(",") if len(sys.argv) > 1 else KINDS):
        r = explore(kind, funcs, index, enums)
        v = r.pop("violations")
        print(json.dumps({k: r[k] for k in ("kind", "paths", "checks", "solver_calls", "wall_s", "unsupported")}))
        seen = set()
        for x in v:
            if x["what"][:60] in seen: continue
            seen.add(x["what"][:60]); print("   VIOLATION", json.dumps(x)[:600])
