#!/usr/bin/env python3
"""C02 (and C03's order): MIR-level symbolic execution of process_dir + WalkEntry::from_walkdir + WalkError's conversions over
a model of walkdir that honours the options process_dir passes (min_depth, max_depth, contents_first, follow_links) and
yields *errors* the way walkdir 2.5 does: a dangling link under follow_links is an Err(NotFound) carrying path and depth, an
unreadable directory is yielded and then an Err(EACCES) when its contents are wanted - and errors are not subject to the
min_depth filter (walkdir/src/lib.rs: handle_entry's itry!(self.follow(dent)) returns before skippable()).

Symbolic: -mindepth, -maxdepth (0..4 each, including min > max), -depth, the follow mode.  The expression is -print (a
recorder).  Obligation per path: the entries evaluated are exactly those with mindepth <= depth <= maxdepth, each once, in
pre- or post-order, a dangling link included as a link; the status is non-zero iff an unreadable directory was reported."""
import json, os, sys, time, z3
import loader, models, interp, natives_fs
from interp import Machine, SliceRef, RStr, Ptr, Struct, Enum, Opaque, BoxObj, VecObj, Tuple, Unsupported, RustPanic, PathAbort, UNIT
from models import model, Some, NONE, Ok, Err, deref
from natives_fs import PStr, text_of

ENOENT, EACCES = 2, 13
# (path, depth, kind)  kinds: dir, file, dangling (symlink whose target is missing), loop (symlink to an ancestor directory),
# unreadable (directory that cannot be opened)
TREE = [("r", 0, "dir"), ("r/a", 1, "file"), ("r/d", 1, "dir"), ("r/d/f", 2, "file"), ("r/d/g", 2, "dir"), ("r/d/g/h", 3, "file"), ("r/d/k", 2, "loop"), ("r/d/m", 2, "dangling"),
        ("r/l", 1, "dangling"), ("r/x", 1, "unreadable"), ("r/z", 1, "file")]


def children(i):
    p, d, _k = TREE[i]
    return [j for j, (q, e, _) in enumerate(TREE) if e == d + 1 and q.startswith(p + "/")]


def _vname(v):
    return v.variant if isinstance(v, Enum) else v.ty


class WalkIter:
    """a port of walkdir 2.5's IntoIter::next / handle_entry / get_deferred_dir / skip_current_dir onto the static TREE"""

    def __init__(self, min_d, max_d, contents_first, follow_links, follow_root_links=False, root_is_link=False, root_dangling=False):
        self.min, self.max, self.cf, self.fl = min_d, max_d, contents_first, follow_links
        self.frl, self.root_is_link, self.root_dangling = follow_root_links, root_is_link, root_dangling
        self.start, self.stack, self.deferred, self.depth = True, [], [], 0

    def skippable(self):
        return self.depth < self.min or self.depth > self.max

    def push(self, i):
        p, d, k = TREE[i]
        if k == "unreadable":
            self.stack.append({"err": ("err", EACCES, p, self.depth), "items": [], "pos": 0})
        else:
            self.stack.append({"err": None, "items": children(i), "pos": 0})

    def handle(self, i):
        p, d, k = TREE[i]
        if self.fl and k == "dangling":
            return ("err", ENOENT, p, d)              # itry!(self.follow(dent)): before the skippable() test
        if self.fl and k == "loop":
            return ("err", None, p, d)                # Error::from_loop: no io::Error inside
        is_dir = k in ("dir", "unreadable") or (k == "dirlink" and self.fl)      # a followed link to a directory is descended (its target is empty here)
        if i == 0 and self.root_dangling:
            # the starting point is a symbolic link to nothing: following it (follow_links, or follow_root_links for the root) fails
            if self.fl or self.frl:
                return ("err", ENOENT, p, 0)
            return None if self.skippable() else ("ok", i)
        if i == 0 and self.root_is_link and not self.fl:
            # the starting point is a symbolic link to the directory: without follow_links the DirEntry stays a symlink
            # (is_normal_dir = false); with follow_root_links walkdir still descends into it - but does not defer it
            if self.frl:
                self.push(i)
            if self.skippable():
                return None
            return ("ok", i)
        if is_dir:
            self.push(i)
        if is_dir and self.cf:
            self.deferred.append(i)
            return None
        if self.skippable():
            return None
        return ("ok", i)

    def get_deferred(self):
        if self.cf and self.depth < len(self.deferred):
            d = self.deferred.pop()
            if not self.skippable():
                return ("ok", d)
        return None

    def next(self):
        if self.start:
            self.start = False
            r = self.handle(0)
            if r: return r
        while self.stack:
            self.depth = len(self.stack)
            r = self.get_deferred()
            if r: return r
            if self.depth > self.max:
                self.stack.pop()
                continue
            top = self.stack[-1]
            if top["err"] is not None:
                e, top["err"] = top["err"], None
                return e
            if top["pos"] >= len(top["items"]):
                self.stack.pop()
                continue
            i = top["items"][top["pos"]]; top["pos"] += 1
            r = self.handle(i)
            if r: return r
        if self.cf:
            self.depth = len(self.stack)
            r = self.get_deferred()
            if r: return r
        return None

    def skip_current_dir(self):
        if self.stack:
            self.stack.pop()


def reference(min_d, max_d, contents_first, follow_links):
    """what find must evaluate, from the property: every entry in range once, in pre- / post-order"""
    order = []

    def visit(i):
        p, d, k = TREE[i]
        isdir = k in ("dir", "unreadable")
        if isdir and not contents_first:
            order.append(i)
        if k == "dir":
            for j in children(i):
                visit(j)
        if not isdir or contents_first:
            order.append(i)
    visit(0)
    vis = [TREE[i][0] for i in order if min_d <= TREE[i][1] <= max_d and not (follow_links and TREE[i][2] == "loop")]
    diagnosed = min_d <= max_d and any((k == "unreadable" and d + 1 <= max_d) or (k == "loop" and follow_links and d <= max_d) for _p, d, k in TREE)
    return vis, diagnosed


def explore(funcs, index, enums, text):
    import re
    mm = re.search(r"_0 = Config \{ ([^}]*) \}", text or "")
    CONFIG_FIELDS[:] = [f.split(":")[0].strip() for f in mm.group(1).split(", ")] if mm else []
    res = {"kind": "walk", "paths": 0, "checks": 0, "violations": [], "unsupported": {}, "samples": []}
    mind, maxd, follow = z3.Int("mindepth"), z3.Int("maxdepth"), z3.Int("follow")
    depth_first = z3.Bool("depth_first")
    root_link = z3.Bool("starting_point_is_a_link")
    root_dang = z3.Bool("starting_point_is_a_dangling_link")
    state = {}

    def wd_new(m, args):
        state["wd"] = {"root": text_of(m, args[0])}
        return Struct("WalkDir", [])

    def wd_opt(name):
        def f(m, args):
            state["wd"][name] = args[1]
            return args[0]
        return f

    def wd_into_iter(m, args):
        w = state["wd"]
        state["it"] = WalkIter(w.get("min_depth", 0), w.get("max_depth", 10 ** 9), bool(w.get("contents_first", False)), bool(w.get("follow_links", False)),
                               bool(w.get("follow_root_links", False)), state.get("root_link", False), state.get("root_dang", False))
        return Struct("WalkIter", [])

    def wd_skip(m, args):
        state["it"].skip_current_dir()
        state["skips"] = state.get("skips", 0) + 1
        return UNIT

    def wd_next(m, args):
        it = state["it"].next()
        if it is None:
            return NONE()
        if it[0] == "ok":
            p, d, k = TREE[it[1]]
            return Some(Ok(Struct("DirEntryV", [PStr(p), d, k in ("dir", "unreadable"), k])))
        return Some(Err(Struct("WdError", [it[1], PStr(it[2]), it[3]])))

    def printer(m, args):
        state["visited"].append(text_of(m, m.call("WalkEntry::path", [args[1]])))
        return True

    def err_obj(a):
        v = deref(a[0])
        while isinstance(v, (Ptr, BoxObj)):
            v = deref(v)
        return v

    def e_path(m, a):
        v = err_obj(a)
        if isinstance(v, Struct) and v.ty == "WdError":
            return Some(v.fields[1])
        raise Unsupported("Error::path of %r" % (v,))

    def e_kind(m, a):
        v = err_obj(a)
        errno = v.fields[0]
        return Enum("ErrorKind", {ENOENT: "NotFound", EACCES: "PermissionDenied"}.get(errno, "Other"), [])

    def opt_and_then(m, args, raw):
        v = args[0]
        if v.variant != "Some":
            return NONE()
        import re
        mc = re.search(r"\{closure@[^}]*\}", raw)
        return m.run(m.index[mc.group(0)], [args[1], v.fields[0]])
    models.EXACT["Option::and_then"] = opt_and_then

    def opt_unwrap_or_else(m, args, raw):
        v = args[0]
        if v.variant in ("Some", "Ok"):
            return v.fields[0]
        import re
        mc = re.search(r"\{closure@[^}]*\}", raw)
        return m.run(m.index[mc.group(0)], [args[1]])
    models.EXACT["Option::unwrap_or_else"] = opt_unwrap_or_else

    def symlink_metadata(m, a):
        p = text_of(m, a[0])
        kinds = {q: k for q, _d, k in TREE}
        if p == "r" and state.get("root_dang"):
            return Ok(Struct("MetadataV", ["dangling"]))
        if p in kinds:
            return Ok(Struct("MetadataV", [kinds[p]]))
        return Err(Struct("IoError", [ENOENT]))

    nat = {"WalkDir::new": wd_new, "WalkDir::contents_first": wd_opt("contents_first"), "WalkDir::max_depth": wd_opt("max_depth"),
           "WalkDir::min_depth": wd_opt("min_depth"), "WalkDir::same_file_system": wd_opt("same_file_system"),
           "WalkDir::follow_links": wd_opt("follow_links"), "WalkDir::follow_root_links": wd_opt("follow_root_links"),
           "WalkDir::sort_by": wd_opt("sort_by"), "<WalkDir as IntoIterator>::into_iter": wd_into_iter,
           "<IntoIter as Iterator>::next": wd_next, "IntoIter::skip_current_dir": wd_skip,
           "DirEntry::path": lambda m, a: deref(a[0]).fields[0], "DirEntry::depth": lambda m, a: deref(a[0]).fields[1],
           "DirEntry::into_path": lambda m, a: deref(a[0]).fields[0],
           "<Printer as Matcher>::matches": printer,
           "Error::path": e_path, "Error::depth": lambda m, a: err_obj(a).fields[2],
           "Error::io_error": lambda m, a: Some(Struct("IoError", [err_obj(a).fields[0]])) if err_obj(a).fields[0] is not None else NONE(),
           "Error::raw_os_error": lambda m, a: Some(err_obj(a).fields[0]),
           "Error::from_raw_os_error": lambda m, a: Struct("IoError", [a[0]]),
           "Error::kind": e_kind,
           "<ErrorKind as PartialEq>::eq": lambda m, a: _vname(deref(a[0])) == _vname(deref(a[1])),
           "Path::symlink_metadata": symlink_metadata,
           # Path::is_dir follows links: a directory, or a link that leads to one (the link closing a cycle points at an ancestor directory)
           "Path::is_dir": lambda m, a: ({q: k for q, _d, k in TREE}.get(text_of(m, a[0])) in ("dir", "unreadable", "loop", "dirlink")) and not (text_of(m, a[0]) == "r" and state.get("root_dang")),
           "Option::as_deref": lambda m, a: deref(a[0]),
           "<Option<i32> as PartialEq>::eq": lambda m, a: (deref(a[0]).variant == deref(a[1]).variant and (deref(a[0]).variant == "None" or deref(a[0]).fields[0] == deref(a[1]).fields[0])),
           "<impl Into<PathBuf> as Into>::into": lambda m, a: PStr(text_of(m, a[0])), "<Path as ToOwned>::to_owned": lambda m, a: PStr(text_of(m, a[0])),
           "<ErrorKind as Into>::into": lambda m, a: Struct("IoError", [0]),
           "parse_str_to_newer_args": lambda m, a: NONE()}
    m = Machine(funcs, index, enums, models, natives=nat, max_steps=2000000)
    m.enums.setdefault("ErrorKind", ["NotFound", "PermissionDenied", "Other"])
    m.base_constraints = [mind >= 0, mind <= 4, maxd >= 0, maxd <= 4, follow >= 0, follow <= 2]
    m.pending = [[]]
    t0 = time.time()
    while m.pending:
        m.reset_path(m.pending.pop())
        state.update(wd={}, it=None, visited=[], skips=0)
        try:
            mn = m.decide_int(mind, [0, 1, 2, 3]); mn = 4 if mn is None else mn
            mx = m.decide_int(maxd, [0, 1, 2, 3]); mx = 4 if mx is None else mx
            fo = m.decide_int(follow, [0, 1]); fo = 2 if fo is None else fo
            df = m.decide(depth_first)
            rl = m.decide(root_link)
            rd = (not rl) and m.decide(root_dang)
            state["root_link"], state["root_dang"] = rl, rd
            cfg = [m.call("<Config as Default>::default", [])]
            r = m.call("build_top_level_matcher", [SliceRef([RStr("-print")]), Ptr(cfg, 0)])
            c = cfg[0]
            names = state.setdefault("cfg_fields", None)
            set_config(m, c, mn, mx, df, ["Never", "Roots", "Always"][fo])
            quit_cell = [False]
            ret = m.call("process_dir", [RStr("r"), Ptr(cfg, 0), Opaque("deps"), Ptr(r.fields[0].cell, 0), Ptr(quit_cell, 0)])
        except RustPanic as e:
            res["violations"].append({"what": "panic: " + str(e)[:100]})
            res["paths"] += 1
            continue
        except Unsupported as e:
            res["unsupported"][str(e)[:110]] = res["unsupported"].get(str(e)[:110], 0) + 1
            continue
        except PathAbort:
            continue
        res["paths"] += 1
        res["checks"] += 1
        want, unread = reference(mn, mx, df, fo == 2)
        if rl and fo == 0:
            # -P: a starting point that is a link is reported, never descended
            want, unread = (["r"] if mn <= 0 <= mx else []), False
        if rd:
            # a dangling starting point is still visited, as a link, under every follow mode; nothing below it
            want, unread = (["r"] if mn <= 0 <= mx else []), False
        conf = "-mindepth %d -maxdepth %d%s %s%s" % (mn, mx, " -depth" if df else "", ["-P", "-H", "-L"][fo],
                                                       " (the starting point is a symbolic link to the directory)" if rl else " (the starting point is a dangling symbolic link)" if rd else "")
        w = state["wd"]
        asked = (w.get("min_depth"), w.get("max_depth"), bool(w.get("contents_first")), bool(w.get("follow_links")), bool(w.get("follow_root_links")))
        if mn <= mx and asked != (mn, mx, df, fo == 2, fo != 0):
            res["violations"].append({"what": "%s: walkdir configured with (min, max, contents_first, follow_links, follow_root_links) = %r" % (conf, asked), "config": conf})
        if state["visited"] != want:
            extra = [p for p in state["visited"] if p not in want]
            missing = [p for p in want if p not in state["visited"]]
            res["violations"].append({"what": "%s: evaluated %r, expected %r%s%s" % (conf, state["visited"], want, (" (outside the depth range: %r)" % extra) if extra else "",
                                                                                       (" (missing: %r)" % missing) if missing else ""), "config": conf,
                                      "class": "a dangling link shallower than -mindepth is evaluated under -L" if (extra and not missing and fo == 2 and all(
                                          dict((q, k) for q, _d, k in TREE)[p] == "dangling" for p in extra)) else
                                      "-H with a starting point that is a link to a directory, under -depth" if (rl and fo == 1 and df) else "other"})
        if (ret != 0) != unread:
            res["violations"].append({"what": "%s: status %r, expected %s" % (conf, ret, "non-zero (something is diagnosed)" if unread else "0 (nothing to diagnose)"), "config": conf})
        if len(res["samples"]) < 3 and mn == 1:
            res["samples"].append({"config": conf, "evaluated": state["visited"], "status": ret})
    res["wall_s"] = round(time.time() - t0, 2)
    res["solver_calls"] = m.stats["solver_calls"]
    res["functions_executed"] = sorted(m.executed)
    return res


def explore_prune(funcs, index, enums, text):
    """C03: -name X -prune -o -print with the set of directories X selects symbolic; -depth absent, given before, given after"""
    import re
    mm = re.search(r"_0 = Config \{ ([^}]*) \}", text or "")
    CONFIG_FIELDS[:] = [f.split(":")[0].strip() for f in mm.group(1).split(", ")] if mm else []
    res = {"kind": "prune", "paths": 0, "checks": 0, "violations": [], "unsupported": {}, "samples": []}
    dirs = [p for p, _d, k in TREE if k in ("dir", "unreadable", "loop")]      # the loop link: a symlink to a directory is not a directory under -P
    sel = {p: z3.Bool("prune_" + p.replace("/", "_")) for p in dirs}
    form = z3.Int("depth_form")          # 0: no -depth, 1: -depth before -prune, 2: -depth after -prune
    maxd = z3.Int("maxdepth")            # 1..3, 4 = unlimited
    state = {}

    def wd_new(m, args):
        state["wd"] = {"root": text_of(m, args[0])}
        return Struct("WalkDir", [])

    def wd_opt(name):
        def f(m, args):
            state["wd"][name] = args[1]
            return args[0]
        return f

    def wd_into_iter(m, args):
        w = state["wd"]
        state["it"] = WalkIter(w.get("min_depth", 0), w.get("max_depth", 10 ** 9), bool(w.get("contents_first", False)), bool(w.get("follow_links", False)))
        return Struct("WalkIter", [])

    def wd_next(m, args):
        v = deref(args[0])
        if not (isinstance(v, Struct) and v.ty == "WalkIter"):
            return models.lookup("<IntoIter as Iterator>::next", "")(m, args, "<IntoIter as Iterator>::next")      # a Vec's IntoIter
        it = state["it"].next()
        if it is None:
            return NONE()
        if it[0] == "ok":
            p, d, k = TREE[it[1]]
            return Some(Ok(Struct("DirEntryV", [PStr(p), d, k in ("dir", "unreadable"), k])))
        return Some(Err(Struct("WdError", [it[1], PStr(it[2]), it[3]])))

    def wd_skip(m, args):
        state["it"].skip_current_dir()
        return UNIT

    def name_matches(m, args):
        p = text_of(m, m.call("WalkEntry::path", [args[1]]))
        state["tested"].append(p)
        if p not in sel:
            return False
        v = m.decide(sel[p])
        state["selv"][p] = v
        return v

    def printer(m, args):
        state["visited"].append(text_of(m, m.call("WalkEntry::path", [args[1]])))
        return True

    def err_obj(a):
        v = deref(a[0])
        while isinstance(v, (Ptr, BoxObj)):
            v = deref(v)
        return v

    def std_or_crate(name, fn_std):
        def f(m, a):
            v = deref(a[0])
            if isinstance(v, Enum):
                return m.run(m.index[name], a)
            return fn_std(v.fields[0])
        return f
    KIND = {"dir": "d", "unreadable": "d", "file": "f", "dangling": "l", "loop": "l"}
    nat = {"WalkDir::new": wd_new, "WalkDir::contents_first": wd_opt("contents_first"), "WalkDir::max_depth": wd_opt("max_depth"),
           "WalkDir::min_depth": wd_opt("min_depth"), "WalkDir::same_file_system": wd_opt("same_file_system"),
           "WalkDir::follow_links": wd_opt("follow_links"), "WalkDir::follow_root_links": wd_opt("follow_root_links"),
           "WalkDir::sort_by": wd_opt("sort_by"), "<WalkDir as IntoIterator>::into_iter": wd_into_iter,
           "<IntoIter as Iterator>::next": wd_next, "IntoIter::skip_current_dir": wd_skip,
           "DirEntry::path": lambda m, a: deref(a[0]).fields[0], "DirEntry::depth": lambda m, a: deref(a[0]).fields[1],
           "DirEntry::into_path": lambda m, a: deref(a[0]).fields[0],
           "DirEntry::file_type": lambda m, a: Struct("StdFileType", [KIND[deref(a[0]).fields[3]]]),
           "FileType::is_symlink": std_or_crate("FileType::is_symlink", lambda k: k == "l"),
           "FileType::is_dir": std_or_crate("FileType::is_dir", lambda k: k == "d"),
           "FileType::is_file": lambda m, a: deref(a[0]).fields[0] == "f",
           "<FileType as Into>::into": lambda m, a: m.call("<FileType as From<FileType>>::from", a),
           "<Printer as Matcher>::matches": printer, "<NameMatcher as Matcher>::matches": name_matches,
           "NameMatcher::new": lambda m, a: Struct("NameMatcher", []),
           "Error::path": lambda m, a: Some(err_obj(a).fields[1]), "Error::depth": lambda m, a: err_obj(a).fields[2],
           "Error::io_error": lambda m, a: Some(Struct("IoError", [err_obj(a).fields[0]])) if err_obj(a).fields[0] is not None else NONE(),
           "Error::raw_os_error": lambda m, a: Some(err_obj(a).fields[0]),
           "<impl Into<PathBuf> as Into>::into": lambda m, a: PStr(text_of(m, a[0])), "<Path as ToOwned>::to_owned": lambda m, a: PStr(text_of(m, a[0])),
           "Option::as_deref": lambda m, a: deref(a[0]),
           "Path::is_dir": lambda m, a: dict((q, k) for q, _d, k in TREE).get(text_of(m, a[0])) in ("dir", "unreadable", "loop"),      # stat(): follows links
           "Error::from_raw_os_error": lambda m, a: Struct("IoError", [a[0]]),
           "Error::kind": lambda m, a: Enum("ErrorKind", {ENOENT: "NotFound", EACCES: "PermissionDenied"}.get(err_obj(a).fields[0], "Other"), []),
           "<ErrorKind as PartialEq>::eq": lambda m, a: _vname(deref(a[0])) == _vname(deref(a[1])),
           "<ErrorKind as Into>::into": lambda m, a: Struct("IoError", [0]),
           "<Option<i32> as PartialEq>::eq": lambda m, a: (deref(a[0]).variant == deref(a[1]).variant and (deref(a[0]).variant == "None" or deref(a[0]).fields[0] == deref(a[1]).fields[0])),
           "parse_str_to_newer_args": lambda m, a: NONE()}

    def opt_unwrap_or_else(m, args, raw):
        v = args[0]
        if v.variant in ("Some", "Ok"):
            return v.fields[0]
        mc = re.search(r"\{closure@[^}]*\}", raw)
        return m.run(m.index[mc.group(0)], [args[1]])
    models.EXACT["Option::unwrap_or_else"] = opt_unwrap_or_else

    def opt_and_then(m, args, raw):
        v = args[0]
        if v.variant != "Some":
            return NONE()
        mc = re.search(r"\{closure@[^}]*\}", raw)
        return m.run(m.index[mc.group(0)], [args[1], v.fields[0]])
    models.EXACT["Option::and_then"] = opt_and_then
    m = Machine(funcs, index, enums, models, natives=nat, max_steps=2000000)
    m.base_constraints = [form >= 0, form <= 2, maxd >= 1, maxd <= 4]
    m.pending = [[]]
    t0 = time.time()
    while m.pending:
        m.reset_path(m.pending.pop())
        state.update(wd={}, it=None, visited=[], tested=[], selv={})
        try:
            fm = m.decide_int(form, [0, 1]); fm = 2 if fm is None else fm
            expr = {0: ["-name", "X", "-prune", "-o", "-print"], 1: ["-depth", "-name", "X", "-prune", "-o", "-print"], 2: ["-name", "X", "-prune", "-o", "-depth", "-print"]}[fm]
            cfg = [m.call("<Config as Default>::default", [])]
            r = m.call("build_top_level_matcher", [SliceRef([RStr(t) for t in expr]), Ptr(cfg, 0)])
            if r.variant != "Ok":
                raise Unsupported("expression rejected: %r" % expr)
            mx = m.decide_int(maxd, [1, 2, 3]); mx = 10 ** 9 if mx is None else mx
            cfg[0].fields[CONFIG_FIELDS.index("max_depth")] = mx
            quit_cell = [False]
            ret = m.call("process_dir", [RStr("r"), Ptr(cfg, 0), Opaque("deps"), Ptr(r.fields[0].cell, 0), Ptr(quit_cell, 0)])
        except RustPanic as e:
            res["violations"].append({"what": "panic: " + str(e)[:100]})
            res["paths"] += 1
            continue
        except Unsupported as e:
            res["unsupported"][str(e)[:110]] = res["unsupported"].get(str(e)[:110], 0) + 1
            continue
        except PathAbort:
            continue
        res["paths"] += 1
        res["checks"] += 1
        selv = state["selv"]
        depth_first = fm != 0
        # reference, from the property
        order, want_err = [], [False]

        def visit(i, cut):
            p, d, k = TREE[i]
            isdir = k in ("dir", "unreadable")
            selected = selv.get(p, False)             # -name X -prune is true: the entry is not printed (-o)
            pruned_here = isdir and selected          # ... and, in the default order, a directory's descendants are left out
            if isdir and not depth_first:
                order.append((p, selected))
            if isdir and (depth_first or not pruned_here) and d + 1 <= mx:
                if k == "unreadable":
                    want_err[0] = True
                for j in children(i):
                    visit(j, cut)
            if not isdir or depth_first:
                order.append((p, selected))
        visit(0, False)
        want = [p for p, pr in order if not pr]
        # which selection bits the path actually read
        conf = "%s%s, X selects %r" % (("-maxdepth %d " % mx) if mx < 10 else "", " ".join(expr), sorted(p for p, v in selv.items() if v))
        unread = [p for p in sel if p not in selv]
        if state["visited"] != want:
            res["violations"].append({"what": "%s: printed %r, expected %r" % (conf, state["visited"], want), "config": conf})
        if (ret != 0) != want_err[0]:
            res["violations"].append({"what": "%s: status %r, expected %s" % (conf, ret, "non-zero (unreadable directory entered)" if want_err[0] else "0"), "config": conf})
        if len(res["samples"]) < 3 and any(selv.values()):
            res["samples"].append({"config": conf, "printed": state["visited"], "status": ret})
    res["wall_s"] = round(time.time() - t0, 2)
    res["solver_calls"] = m.stats["solver_calls"]
    res["functions_executed"] = sorted(m.executed)
    return res


def explore_delete(funcs, index, enums, text, follow_mode=0, prune=False):
    """C10: -name X -delete over a model file system; X selects a symbolic subset of eight entries; -P (0) or -L (2).
    prune: the expression is `-name P -prune -o -name X -delete` (P a symbolic subset of two directories): -delete implies -depth, under which -prune
    cuts nothing - exactly the entries with X and not P go, in post-order, as `-depth EXPR -print` would report them"""
    import re
    global TREE
    saved_tree = TREE
    # no unreadable directory here (its diagnostic would mask the status of a failed removal); a link to an (empty) directory elsewhere instead
    TREE = [e for e in saved_tree if e[2] != "unreadable"] + [("r/s", 1, "dirlink")]
    try:
        return _explore_delete(funcs, index, enums, text, follow_mode, prune)
    finally:
        TREE = saved_tree


def _explore_delete(funcs, index, enums, text, follow_mode, prune=False):
    import re
    res = {"kind": "delete%s/%s" % ("+prune" if prune else "", ["-P", "-H", "-L"][follow_mode]), "paths": 0, "checks": 0, "violations": [], "unsupported": {}, "samples": []}
    selectable = ["r", "r/d", "r/d/g", "r/d/g/h", "r/d/f", "r/d/k", "r/l", "r/s"] if not prune else ["r/d", "r/d/g/h", "r/d/f", "r/d/k", "r/l"]
    sel = {p: z3.Bool("sel_" + p.replace("/", "_")) for p in selectable}
    psel = {p: z3.Bool("prune_" + p.replace("/", "_")) for p in (["r/d", "r/d/g"] if prune else [])}
    kinds = {q: k for q, _d, k in TREE}
    state = {}

    def wd_new(m, args):
        state["wd"] = {"root": text_of(m, args[0])}
        return Struct("WalkDir", [])

    def wd_opt(name):
        def f(m, args):
            state["wd"][name] = args[1]
            return args[0]
        return f

    def wd_into_iter(m, args):
        w = state["wd"]
        state["it"] = WalkIter(w.get("min_depth", 0), w.get("max_depth", 10 ** 9), bool(w.get("contents_first", False)), bool(w.get("follow_links", False)))
        return Struct("WalkIter", [])

    def wd_next(m, args):
        v = deref(args[0])
        if not (isinstance(v, Struct) and v.ty == "WalkIter"):
            return models.lookup("<IntoIter as Iterator>::next", "")(m, args, "<IntoIter as Iterator>::next")
        it = state["it"].next()
        if it is None:
            return NONE()
        if it[0] == "ok":
            p, d, k = TREE[it[1]]
            return Some(Ok(Struct("DirEntryV", [PStr(p), d, k in ("dir", "unreadable"), k])))
        return Some(Err(Struct("WdError", [it[1], PStr(it[2]), it[3]])))

    def name_matches(m, args):
        p = text_of(m, m.call("WalkEntry::path", [args[1]]))
        which = deref(args[0]).fields[0] if deref(args[0]).fields else "X"
        if which == "P":
            if p not in psel:
                return False
            v = m.decide(psel[p])
            state["pselv"][p] = v
            return v
        if p not in sel:
            return False
        v = m.decide(sel[p])
        state["selv"][p] = v
        return v

    def remove_file(m, args):
        p = text_of(m, args[0])
        state["ops"].append(("unlink", p))
        if p not in state["exists"]:
            return Err(Struct("IoError", [ENOENT]))
        if kinds[p] in ("dir", "unreadable"):
            return Err(Struct("IoError", [21]))            # EISDIR
        state["exists"].discard(p)
        return Ok(UNIT)

    def remove_dir(m, args):
        p = text_of(m, args[0])
        state["ops"].append(("rmdir", p))
        if p not in state["exists"]:
            return Err(Struct("IoError", [ENOENT]))
        if kinds[p] not in ("dir", "unreadable"):
            return Err(Struct("IoError", [20]))            # ENOTDIR: rmdir() does not follow a link
        if any(q.startswith(p + "/") for q in state["exists"]):
            return Err(Struct("IoError", [39]))            # ENOTEMPTY
        state["exists"].discard(p)
        return Ok(UNIT)

    def err_obj(a):
        v = deref(a[0])
        while isinstance(v, (Ptr, BoxObj)):
            v = deref(v)
        return v

    def std_or_crate(name, fn_std):
        def f(m, a):
            v = deref(a[0])
            if isinstance(v, Enum):
                return m.run(m.index[name], a)
            return fn_std(v.fields[0])
        return f

    def closure(m, raw, cargs):
        mc = re.search(r"\{closure@[^}]*\}", raw)
        return m.run(m.index[mc.group(0)], cargs)

    def get_or_init(m, args, raw):
        cell = deref(args[0])
        if cell.fields[0].variant in ("Ok", "Err"):           # built by From<T>: the value itself
            return Ptr(cell.fields, 0)
        if cell.fields[0].variant == "None":
            cell.fields[0] = Some(closure(m, raw, [args[1]]))
        return Ptr(cell.fields[0].fields, 0)

    def res_map(m, args, raw):
        v = args[0]
        want = "Err" if "map_err" in raw else "Ok"
        if v.variant != want:
            return v
        mc = re.search(r"\{closure@[^}]*\}", raw)
        if mc:
            out = m.run(m.index[mc.group(0)], [args[1], v.fields[0]])
        else:
            out = m.call(re.search(r"\{([^{}]+)\}>$", raw).group(1), [v.fields[0]])
        return Enum(v.ty, v.variant, [out])

    def unwrap_or_else(m, args, raw):
        v = args[0]
        return v.fields[0] if v.variant in ("Some", "Ok") else closure(m, raw, [args[1]])

    def opt_and_then(m, args, raw):
        v = args[0]
        return closure(m, raw, [args[1], v.fields[0]]) if v.variant == "Some" else NONE()
    def is_ok_and(m, args, raw):
        v = args[0]
        return closure(m, raw, [args[1], v.fields[0]]) if v.variant == "Ok" else False
    for k, f in (("OnceCell::get_or_init", get_or_init), ("Result::map", res_map), ("Result::map_err", res_map), ("Option::unwrap_or_else", unwrap_or_else),
                 ("Option::and_then", opt_and_then), ("Result::is_ok_and", is_ok_and)):
        models.EXACT[k] = f
    KIND = {"dir": "d", "unreadable": "d", "file": "f", "dangling": "l", "loop": "l", "dirlink": "l"}

    def de_file_type(m, a):
        k = deref(a[0]).fields[3]
        return Struct("StdFileType", ["d" if (k == "dirlink" and follow_mode == 2) else KIND[k]])
    nat = {"WalkDir::new": wd_new, "WalkDir::contents_first": wd_opt("contents_first"), "WalkDir::max_depth": wd_opt("max_depth"),
           "WalkDir::min_depth": wd_opt("min_depth"), "WalkDir::same_file_system": wd_opt("same_file_system"),
           "WalkDir::follow_links": wd_opt("follow_links"), "WalkDir::follow_root_links": wd_opt("follow_root_links"),
           "WalkDir::sort_by": wd_opt("sort_by"), "<WalkDir as IntoIterator>::into_iter": wd_into_iter,
           "<IntoIter as Iterator>::next": wd_next, "IntoIter::skip_current_dir": lambda m, a: (state["it"].skip_current_dir(), UNIT)[1],
           "DirEntry::path": lambda m, a: deref(a[0]).fields[0], "DirEntry::depth": lambda m, a: deref(a[0]).fields[1],
           "DirEntry::into_path": lambda m, a: deref(a[0]).fields[0],
           "DirEntry::file_type": de_file_type,
           "DirEntry::path_is_symlink": lambda m, a: deref(a[0]).fields[3] in ("dangling", "loop", "dirlink"),
           "FileType::is_symlink": std_or_crate("FileType::is_symlink", lambda k: k == "l"),
           "FileType::is_dir": std_or_crate("FileType::is_dir", lambda k: k == "d"),
           "FileType::is_file": lambda m, a: deref(a[0]).fields[0] == "f",
           "<FileType as Into>::into": lambda m, a: m.call("<FileType as From<FileType>>::from", a),
           "<NameMatcher as Matcher>::matches": name_matches, "NameMatcher::new": lambda m, a: Struct("NameMatcher", [text_of(m, a[0])]),
           "remove_file": remove_file, "remove_dir": remove_dir, "fs::remove_file": remove_file, "fs::remove_dir": remove_dir,
           "Path::symlink_metadata": lambda m, a: Ok(Struct("MetadataV", [KIND[kinds[text_of(m, a[0])]]])),
           "Metadata::file_type": lambda m, a: Struct("StdFileType", [deref(a[0]).fields[0]]),
           "<impl AsRef<Path> as AsRef>::as_ref": lambda m, a: a[0], "<&Path as AsRef>::as_ref": lambda m, a: a[0], "<PathBuf as AsRef>::as_ref": lambda m, a: a[0],
           "Path::metadata": lambda m, a: (Ok(Struct("MetadataV", [{"dir": "d", "unreadable": "d", "file": "f", "loop": "d", "dirlink": "d"}[kinds[text_of(m, a[0])]]]))
                                           if kinds[text_of(m, a[0])] != "dangling" else Err(Struct("IoError", [ENOENT]))),
           "<Result<Metadata, WalkError> as Into>::into": lambda m, a: Struct("Cell", [Some(a[0])]),
           "Result::as_ref": lambda m, a: (Ok(Ptr(deref(a[0]).fields, 0)) if deref(a[0]).variant == "Ok" else Err(Ptr(deref(a[0]).fields, 0))),
           "Result::unwrap_or": lambda m, a: a[0].fields[0] if a[0].variant == "Ok" else a[1],
           "Error::path": lambda m, a: Some(err_obj(a).fields[1]), "Error::depth": lambda m, a: err_obj(a).fields[2],
           "Error::io_error": lambda m, a: Some(Struct("IoError", [err_obj(a).fields[0]])) if err_obj(a).fields[0] is not None else NONE(),
           "Error::raw_os_error": lambda m, a: Some(err_obj(a).fields[0]),
           "Error::from_raw_os_error": lambda m, a: Struct("IoError", [a[0]]),
           "Error::kind": lambda m, a: Enum("ErrorKind", {ENOENT: "NotFound", EACCES: "PermissionDenied"}.get(err_obj(a).fields[0], "Other"), []),
           "<ErrorKind as PartialEq>::eq": lambda m, a: _vname(deref(a[0])) == _vname(deref(a[1])),
           "<ErrorKind as Into>::into": lambda m, a: Struct("IoError", [0]),
           "<Option<i32> as PartialEq>::eq": lambda m, a: (deref(a[0]).variant == deref(a[1]).variant and (deref(a[0]).variant == "None" or deref(a[0]).fields[0] == deref(a[1]).fields[0])),
           "<impl Into<PathBuf> as Into>::into": lambda m, a: PStr(text_of(m, a[0])), "<Path as ToOwned>::to_owned": lambda m, a: PStr(text_of(m, a[0])),
           "<Cow as PartialEq<&str>>::eq": lambda m, a: text_of(m, a[0]) == text_of(m, a[1]), "<Cow as PartialEq>::eq": lambda m, a: text_of(m, a[0]) == text_of(m, a[1]),
           "Option::as_deref": lambda m, a: deref(a[0]),
           "parse_str_to_newer_args": lambda m, a: NONE()}
    nat = {k: v for k, v in nat.items() if v is not None}
    m = Machine(funcs, index, enums, models, natives=nat, max_steps=2000000)
    m.base_constraints = []
    m.pending = [[]]
    t0 = time.time()
    while m.pending:
        m.reset_path(m.pending.pop())
        state.update(wd={}, it=None, selv={}, pselv={}, ops=[], exists={p for p, _d, _k in TREE})
        try:
            cfg = [m.call("<Config as Default>::default", [])]
            r = m.call("build_top_level_matcher", [SliceRef([RStr(t) for t in (["-name", "P", "-prune", "-o"] if prune else []) + ["-name", "X", "-delete"]]), Ptr(cfg, 0)])
            if r.variant != "Ok":
                raise Unsupported("expression rejected")
            cfg[0].fields[CONFIG_FIELDS_of(text).index("follow")] = Enum("Follow", ["Never", "Roots", "Always"][follow_mode], [])
            quit_cell = [False]
            ret = m.call("process_dir", [RStr("r"), Ptr(cfg, 0), Opaque("deps"), Ptr(r.fields[0].cell, 0), Ptr(quit_cell, 0)])
        except RustPanic as e:
            res["violations"].append({"what": "panic: " + str(e)[:100]})
            res["paths"] += 1
            continue
        except Unsupported as e:
            res["unsupported"][str(e)[:110]] = res["unsupported"].get(str(e)[:110], 0) + 1
            continue
        except PathAbort:
            continue
        res["paths"] += 1
        res["checks"] += 1
        selv = state["selv"]
        fl = follow_mode == 2
        # reference: post-order; a selected entry is removed - a directory by rmdir and only if nothing is left in it, anything else (links included) by unlink
        exists = {p for p, _d, _k in TREE}
        want_ops, failed = [], [False]

        def visit(i):
            p, d, k = TREE[i]
            if fl and k == "loop":
                failed[0] = True            # diagnosed, not evaluated
                return
            if k == "dir":
                for j in children(i):
                    visit(j)
            if k == "unreadable":
                failed[0] = True            # its contents cannot be read: diagnosed
            if selv.get(p, False) and not state["pselv"].get(p, False):
                if k in ("dir", "unreadable"):
                    want_ops.append(("rmdir", p))
                    if any(q.startswith(p + "/") for q in exists):
                        failed[0] = True
                    else:
                        exists.discard(p)
                else:                      # files and every kind of symbolic link, also one to a directory that -L descends
                    want_ops.append(("unlink", p))
                    exists.discard(p)
        visit(0)
        conf = "%s: X selects %r" % (res["kind"], sorted(p for p, v in selv.items() if v))
        if prune:
            conf += ", P (-prune) selects %r" % sorted(p for p, v in state["pselv"].items() if v)
        if not bool(cfg[0].fields[CONFIG_FIELDS_of(text).index("depth_first")]):
            res["violations"].append({"what": conf + ": -delete did not switch the walk to depth-first", "config": conf})
        if state["ops"] != want_ops:
            res["violations"].append({"what": "%s: file-system calls %r, expected %r" % (conf, state["ops"], want_ops), "config": conf})
        elif state["exists"] != exists:
            res["violations"].append({"what": "%s: left %r, expected %r" % (conf, sorted(state["exists"]), sorted(exists)), "config": conf})
        if (ret != 0) != failed[0]:
            res["violations"].append({"what": "%s: status %r, expected %s" % (conf, ret, "non-zero" if failed[0] else "0"), "config": conf})
        if len(res["samples"]) < 2 and len(want_ops) >= 3:
            res["samples"].append({"config": conf, "calls": state["ops"], "status": ret})
    res["wall_s"] = round(time.time() - t0, 2)
    res["solver_calls"] = m.stats["solver_calls"]
    res["functions_executed"] = sorted(m.executed)
    return res


SORT_NAMES = [b"a", b"B", b"b", b"ab", b"a b", b"-", b".x", b"A", b"\xc3\xa9", b"\xff", b"a\n", b"10", b"9", b"\x80"]      # 0x80 alone is not UTF-8 and sorts before C3 A9 byte-wise, after it once replaced by U+FFFD


def explore_sorted(funcs, index, enums, text):
    """C03 (-sorted): the comparator process_dir hands to WalkDir::sort_by, from MIR, on every ordered pair of names"""
    res = {"kind": "sorted", "paths": 0, "checks": 0, "violations": [], "unsupported": {}, "samples": []}
    cands = [f for k, f in index.items() if k.startswith("{closure@src/find/mod.rs") and len(f.params) == 3 and all("DirEntry" in p[1] for p in f.params[1:])]
    keyfns = [f for k, f in index.items() if k.startswith("{closure@src/find/mod.rs") and len(f.params) == 2 and "DirEntry" in f.params[1][1]]
    if len(cands) != 1 and len(keyfns) != 1:
        res["unsupported"]["comparator closure of sort_by not found (%d candidates)" % len(cands)] = 1
        res.update(wall_s=0.0, solver_calls=0, functions_executed=[])
        return res
    by_key = len(cands) != 1            # WalkDir::sort_by_key: the order is that of the keys the closure extracts
    cmp_fn = keyfns[0] if by_key else cands[0]
    ia, ib = z3.Int("name_a"), z3.Int("name_b")

    def file_name(m, a):
        return Struct("OsStrV", [deref(a[0]).fields[0]])

    def os_cmp(m, a):
        x, y = deref(a[0]).fields[0], deref(a[1]).fields[0]
        return Enum("Ordering", "Less" if x < y else "Greater" if x > y else "Equal", [])
    lossy = lambda m, a: Struct("LossyV", [deref(a[0]).fields[0].decode("utf-8", errors="replace").encode()])       # std: each invalid sequence -> U+FFFD; a String orders by its UTF-8 bytes
    same = lambda m, a: deref(a[0])
    nat = {"OsStr::to_string_lossy": lossy, "Cow::into_owned": same, "<Cow as Deref>::deref": same, "OsStr::to_os_string": same, "OsStr::to_owned": same, "<OsStr as ToOwned>::to_owned": same,
           "DirEntry::file_name": file_name, "<OsStr as Ord>::cmp": os_cmp, "<&OsStr as Ord>::cmp": os_cmp, "<OsStr as PartialOrd>::partial_cmp": lambda m, a: Some(os_cmp(m, a))}
    m = Machine(funcs, index, enums, models, natives=nat)
    m.base_constraints = [ia >= 0, ia < len(SORT_NAMES), ib >= 0, ib < len(SORT_NAMES)]
    m.pending = [[]]
    t0 = time.time()
    # the option is requested iff -sorted was given: checked in the walk exploration (asked == config); here: the order it defines
    while m.pending:
        m.reset_path(m.pending.pop())
        try:
            a = m.decide_int(ia, list(range(len(SORT_NAMES) - 1))); a = len(SORT_NAMES) - 1 if a is None else a
            b = m.decide_int(ib, list(range(len(SORT_NAMES) - 1))); b = len(SORT_NAMES) - 1 if b is None else b
            if by_key:
                ks = []
                for nm in (SORT_NAMES[a], SORT_NAMES[b]):
                    kv = deref(m.run(cmp_fn, [Ptr([Struct("Closure", [])], 0), Ptr([Struct("DirEntryV", [nm])], 0)]))
                    if not (isinstance(kv, Struct) and kv.ty in ("OsStrV", "LossyV") and isinstance(kv.fields[0], bytes)):
                        raise Unsupported("sort key %r" % (kv,))
                    ks.append(kv.fields[0])
                r = Enum("Ordering", "Less" if ks[0] < ks[1] else "Greater" if ks[0] > ks[1] else "Equal", [])
            else:
                r = m.run(cmp_fn, [Ptr([Struct("Closure", [])], 0), Ptr([Struct("DirEntryV", [SORT_NAMES[a]])], 0), Ptr([Struct("DirEntryV", [SORT_NAMES[b]])], 0)])
        except RustPanic as e:
            res["violations"].append({"what": "panic: " + str(e)[:80]}); res["paths"] += 1
            continue
        except Unsupported as e:
            res["unsupported"][str(e)[:100]] = res["unsupported"].get(str(e)[:100], 0) + 1
            continue
        except PathAbort:
            continue
        res["paths"] += 1
        res["checks"] += 1
        x, y = SORT_NAMES[a], SORT_NAMES[b]
        want = "Less" if x < y else "Greater" if x > y else "Equal"
        got = r.variant if isinstance(r, Enum) else str(r)
        if got != want:
            res["violations"].append({"what": "-sorted orders %r and %r as %s, byte-wise order is %s" % (x, y, got, want)})
    res["wall_s"] = round(time.time() - t0, 2)
    res["solver_calls"] = m.stats["solver_calls"]
    res["functions_executed"] = sorted(m.executed)
    return res


def CONFIG_FIELDS_of(text):
    import re
    mm = re.search(r"_0 = Config \{ ([^}]*) \}", text or "")
    return [f.split(":")[0].strip() for f in mm.group(1).split(", ")] if mm else []


CONFIG_FIELDS = []


def set_config(m, cfg, mn, mx, df, follow):
    """Config fields by name (order read from the aggregate in <Config as Default>::default's MIR)"""
    names = CONFIG_FIELDS
    if not names:
        raise Unsupported("field names of Config")
    cfg.fields[names.index("min_depth")] = mn
    cfg.fields[names.index("max_depth")] = mx
    cfg.fields[names.index("depth_first")] = df
    cfg.fields[names.index("follow")] = Enum("Follow", follow, [])


if __name__ == "__main__":
    text = open(sys.argv[1]).read() if len(sys.argv) > 1 else None
    funcs, index, enums, secs, text = loader.load(os.environ.get("FINDUTILS_REPO", "/repo"), text)
    mode = os.environ.get("MODE", "walk")
    r = (explore(funcs, index, enums, text) if mode == "walk" else explore_prune(funcs, index, enums, text) if mode == "prune" else explore_sorted(funcs, index, enums, text) if mode == "sorted"
         else explore_delete(funcs, index, enums, text, 2 if mode == "deleteL" else 0))
    v = r.pop("violations")
    print(json.dumps({k: r[k] for k in ("kind", "paths", "checks", "solver_calls", "wall_s", "unsupported", "samples")})[:900])
    print(len(v), "violations")
    seen = set()
    for x in v:
        k = x["what"][:70]
        if k in seen: continue
        seen.add(k); print("  ", x["what"][:400])
