// harnesses for module matchers (included into /repo under cfg(kani))
