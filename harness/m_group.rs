// C13/C14: -gid (and -group N) compare the selected record's group id.
use super::*;
use crate::find::matchers::entry::verif_kani::*;
use crate::find::matchers::stat::verif_kani::{any_cv, want_cmp};
use crate::find::matchers::Follow;

// @harness props=C13,C14 tier=quick cost=60 flags=nomem
// @exec GroupMatcher::{from_comparable,from_gid,matches}, ComparableValue::matches, WalkEntry::metadata
// @sym world, follow P/H/L, depth 0..1, N: u64, form; gid: u32
// @bounds one path; depth <= 1
// @assume kernel contract for stat vs lstat
#[kani::proof]
#[kani::unwind(3)]
#[kani::stub(alloc::fmt::format, fmt_stub)]
#[kani::stub(std::fs::metadata, stat_stub)]
#[kani::stub(std::fs::symlink_metadata, lstat_stub)]
fn c13_gid_record() {
    let (lst, sst, s_ok, s_err) = any_world(&[libc::ENOENT, libc::ELOOP]);
    let follow = any_follow();
    let depth: usize = kani::any();
    kani::assume(depth <= 1);
    let entry = WalkEntry::new("a", depth, follow);
    let deps = Deps::new();
    let mut io = MatcherIO::new(&deps);
    let rec = selected_record(lst, sst, s_ok, s_err, follow.follow_at_depth(depth));
    if kani::any() {
        let (cv, k, n) = any_cv();
        let got = GroupMatcher::from_comparable(cv).matches(&entry, &mut io);
        match rec { Some(r) => assert!(got == want_cmp(k, n, r.st_gid as u64)), None => assert!(!got) }
        kani::cover!(got && k == 0);
    } else {
        let gid: u32 = kani::any();
        let got = GroupMatcher::from_gid(gid).matches(&entry, &mut io);
        match rec { Some(r) => assert!(got == (r.st_gid == gid)), None => assert!(!got) }
        kani::cover!(got && follow == Follow::Roots && depth == 0 && s_ok && lst.st_gid != sst.st_gid);
    }
    std::mem::forget(entry);
}
#[kani::proof]
#[kani::unwind(3)]
#[kani::stub(alloc::fmt::format, fmt_stub)]
#[kani::stub(std::fs::metadata, stat_stub)]
#[kani::stub(std::fs::symlink_metadata, lstat_stub)]
fn c13_gid_record_canary() {
    let (lst, _sst, _s_ok, _s_err) = any_world(&[libc::ENOENT]);
    let entry = WalkEntry::new("a", 0, any_follow());
    let deps = Deps::new();
    let mut io = MatcherIO::new(&deps);
    let gid: u32 = kani::any();
    let got = GroupMatcher::from_gid(gid).matches(&entry, &mut io);
    assert!(got == (lst.st_uid == gid)); // wrong field: must FAIL
    std::mem::forget(entry);
}
