// C03: -prune marks exactly directories (per the selected record) and is always true.
use super::*;
use crate::find::matchers::entry::verif_kani::*;
use crate::find::matchers::Follow;

/// Lets the walk-loop harness in find/mod.rs run the real PruneMatcher (the module is private to matchers).
pub struct PruneProbe(PruneMatcher);
impl PruneProbe {
    pub fn new() -> Self { Self(PruneMatcher::new()) }
    pub fn run(&self, e: &WalkEntry, io: &mut MatcherIO) -> bool { self.0.matches(e, io) }
}

// @harness props=C03 tier=quick cost=120 flags=nomem
// @replay prune_dirs
// @exec PruneMatcher::matches, WalkEntry::file_type, MatcherIO::{mark_current_dir_to_be_skipped,should_skip_current_dir}
// @sym world (all file types), follow P/H/L, depth 0..1
// @bounds one path; depth <= 1
// @assume kernel contract for stat vs lstat
/// -prune is always true and requests a skip exactly when the entry (as the follow mode sees it) is a directory —
/// in particular never for a symbolic link to a directory that find does not follow.
#[kani::proof]
#[kani::unwind(3)]
#[kani::stub(alloc::fmt::format, fmt_stub)]
#[kani::stub(std::fs::metadata, stat_stub)]
#[kani::stub(std::fs::symlink_metadata, lstat_stub)]
fn c03_prune_marks_only_dirs() {
    let (lst, sst, s_ok, s_err) = any_world(&[libc::ENOENT, libc::ELOOP]);
    let follow = any_follow();
    let depth: usize = kani::any();
    kani::assume(depth <= 1);
    let entry = WalkEntry::new("a", depth, follow);
    let deps = Deps::new();
    let mut io = MatcherIO::new(&deps);
    assert!(PruneMatcher::new().matches(&entry, &mut io));
    let is_dir = match selected_record(lst, sst, s_ok, s_err, follow.follow_at_depth(depth)) {
        Some(r) => is_type(r.st_mode, libc::S_IFDIR),
        None => false,
    };
    assert!(io.should_skip_current_dir() == is_dir);
    assert!(!io.should_quit() && io.exit_code() == 0);
    kani::cover!(is_dir && follow == Follow::Always && is_type(lst.st_mode, libc::S_IFLNK));
    kani::cover!(!is_dir && follow == Follow::Never && is_type(lst.st_mode, libc::S_IFLNK) && s_ok && is_type(sst.st_mode, libc::S_IFDIR));
    std::mem::forget(entry);
}
#[kani::proof]
#[kani::unwind(3)]
#[kani::stub(alloc::fmt::format, fmt_stub)]
#[kani::stub(std::fs::metadata, stat_stub)]
#[kani::stub(std::fs::symlink_metadata, lstat_stub)]
fn c03_prune_marks_only_dirs_canary() {
    let (lst, _sst, _s_ok, _s_err) = any_world(&[libc::ENOENT]);
    let entry = WalkEntry::new("a", 0, any_follow());
    let deps = Deps::new();
    let mut io = MatcherIO::new(&deps);
    PruneMatcher::new().matches(&entry, &mut io);
    assert!(io.should_skip_current_dir() == is_type(lst.st_mode, libc::S_IFDIR)); // always lstat: must FAIL
    std::mem::forget(entry);
}
