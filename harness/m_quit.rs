// C01: -quit sets the quit flag, is true, and does not count as an action.
use super::*;
use crate::find::matchers::entry::verif_kani::{fmt_stub, Deps};
use crate::find::matchers::Follow;

// @harness props=C01 tier=quick cost=5
// @replay quit_no_action
// @exec QuitMatcher::{matches,has_side_effects}, MatcherIO::{quit,should_quit}
// @sym none (the matcher has no inputs); previous quit state symbolic
// @bounds single call
#[kani::proof]
#[kani::unwind(3)]
#[kani::stub(alloc::fmt::format, fmt_stub)]
fn c01_quit_primary() {
    let deps = Deps::new();
    let mut io = MatcherIO::new(&deps);
    let before: bool = kani::any();
    if before { io.quit(); }
    let entry = WalkEntry::new("a", 0, Follow::Never);
    assert!(QuitMatcher.matches(&entry, &mut io));
    assert!(io.should_quit());
    assert!(!QuitMatcher.has_side_effects());
    assert!(io.exit_code() == 0 && !io.should_skip_current_dir());
    kani::cover!(before); kani::cover!(!before);
    std::mem::forget(entry);
}
#[kani::proof]
#[kani::unwind(3)]
#[kani::stub(alloc::fmt::format, fmt_stub)]
fn c01_quit_primary_canary() {
    assert!(QuitMatcher.has_side_effects()); // "-quit counts as an action": must FAIL
}
