#!/usr/bin/env python3
"""C13 (and C14's "uniform reading" seen through the parser): the stat-based tests other than -type / -perm, through the real parser
and the real matchers, over a SYMBOLIC lstat/stat world.

Executed from MIR: build_top_level_matcher on `PRIMARY OPERAND` (the arms for -uid -gid -user -group -links -inum -size -empty
-samefile, convert_arg_to_comparable_value(_and_suffix), UserMatcher / GroupMatcher::{from_user_name, from_uid, from_comparable},
InodeMatcher / LinksMatcher / SizeMatcher::new, SameFileMatcher::new + get_file_info), then <Box<dyn Matcher>>::matches of the built
tree (the test followed by the implicit -print) on an entry made by WalkEntry::new / WalkEntry::from_walkdir:
UserMatcher / GroupMatcher / InodeMatcher / LinksMatcher / SizeMatcher / EmptyMatcher / SameFileMatcher::matches,
WalkEntry::{metadata, get_metadata, file_type, follow}, Follow::{follow_at_depth, metadata, metadata_at_depth}, ComparableValue::matches.

The world: the entry's lstat record and - when lstat says symbolic link - the stat record of what it points to (or ENOENT / ELOOP /
EACCES). Every numeric field of both records (uid, gid, nlink, ino, dev, size) is a z3 Int of its own, so a test that consults the
wrong record, or the wrong field, gives a verdict that differs from the reference for some value - z3 finds it.
Follow mode -P/-H/-L, depth 0/1, explicit and walkdir entries (walkdir's DirEntry under its contract) are symbolic as in c16_types.

Reference (from the property): the test is the documented function of the record the follow mode selects - lstat under -P, stat
(falling back to lstat for a dangling link) under -L, under -H stat for starting points only.
  -uid/-gid/-links/-inum N, +N, -N: field = / > / < N;  -user NAME / -group NAME: uid / gid = the id of NAME (a number is taken as an id);
  -size Nc: size;  -empty: a regular file of size 0 or a directory without entries (whether the directory has entries is a symbolic fact
  of the directory the selected record describes);  -samefile F: (dev, ino) of the selected record = those of F.
Where stat fails with something other than ENOENT the selected record does not exist; the tests are then required to be false."""
import json, os, re, sys, time, z3
import loader, models, interp, natives_fs
from interp import Machine, SliceRef, RStr, Ptr, Struct, Enum, Opaque, BoxObj, VecObj, Unsupported, RustPanic, PathAbort, UNIT
from models import Some, NONE, Ok, Err, deref
from natives_fs import PStr, text_of
import c16_printf, c11_operands

KINDS = ["f", "d", "l", "b", "c", "p", "s"]
LNK, DIR, REG = 2, 1, 0
ENOENT, ELOOP, EACCES = 2, 40, 13
FIELDS = ["uid", "gid", "nlink", "ino", "dev", "size"]
# the reference file of -samefile: a regular file with these identifiers
REF_DEV, REF_INO = 3, 100

SENTENCES = [("-uid", "7"), ("-uid", "+7"), ("-uid", "-7"), ("-gid", "7"), ("-gid", "+7"), ("-gid", "-7"),
             ("-links", "2"), ("-links", "+2"), ("-links", "-2"), ("-inum", "100"), ("-inum", "+100"), ("-inum", "-100"),
             ("-user", "root"), ("-user", "daemon"), ("-user", "7"), ("-group", "root"), ("-group", "daemon"), ("-group", "7"),
             ("-size", "0c"), ("-size", "+9c"), ("-size", "-9c"), ("-empty", None), ("-samefile", "ref")]
IDS = {"root": 0, "daemon": 1}


def _closure(m, raw, args):
    mc = re.search(r"\{closure@[^}]*\}", raw)
    fn = m.index.get(mc.group(0)) if mc else None
    if fn is None:
        raise Unsupported("closure of " + raw[:60])
    return m.run(fn, args)


def reference(prim, operand, rec, dir_empty):
    """rec: dict of z3 Ints / ints of the selected record (kind is a Python int), or None when there is no record. Returns a z3 Bool / bool."""
    if rec is None:
        return False
    def cmp3(field, text):
        n = int(text.lstrip("+-"))
        return field > n if text[0] == "+" else field < n if text[0] == "-" else field == n
    if prim in ("-uid", "-gid", "-links", "-inum"):
        return cmp3(rec[{"-uid": "uid", "-gid": "gid", "-links": "nlink", "-inum": "ino"}[prim]], operand)
    if prim in ("-user", "-group"):
        want = IDS[operand] if operand in IDS else int(operand)
        return rec["uid" if prim == "-user" else "gid"] == want
    if prim == "-size":
        return cmp3(rec["size"], operand[:-1])
    if prim == "-empty":
        if rec["kind"] == REG:
            return rec["size"] == 0
        if rec["kind"] == DIR:
            return dir_empty
        return False
    if prim == "-samefile":
        return z3.And(rec["dev"] == REF_DEV, rec["ino"] == REF_INO)
    raise ValueError(prim)


def explore(funcs, index, enums, text=None):
    snap = (dict(models.EXACT), list(models.PATTERNS))
    try:
        return _explore(funcs, index, enums, text)
    finally:
        models.EXACT.clear(); models.EXACT.update(snap[0]); models.PATTERNS[:] = snap[1]


def _explore(funcs, index, enums, text=None):
    res = {"kind": "stat records", "paths": 0, "checks": 0, "violations": [], "unsupported": {}, "samples": []}
    L, S, s_ok, s_err = z3.Int("lstat_kind"), z3.Int("stat_kind"), z3.Bool("stat_ok"), z3.Int("stat_errno")
    follow, depth, as_dirent, sent = z3.Int("follow"), z3.Int("depth"), z3.Bool("walkdir_entry"), z3.Int("sentence")
    dir_empty = z3.Bool("directory_has_no_entries")
    recs = {w: {f: z3.Int("%s_%s" % (w, f)) for f in FIELDS} for w in ("lstat", "stat")}
    state = {"printed": [], "follow_links": False}

    def pin_kind(m, v):
        if isinstance(v, int):
            return v
        k = m.decide_int(v, list(range(6)))
        return 6 if k is None else k

    def lstat(m, a):
        return Ok(Struct("MetadataV", [pin_kind(m, L), "lstat"]))

    def stat(m, a):
        l = pin_kind(m, L)
        if l != LNK:
            return Ok(Struct("MetadataV", [l, "lstat"]))        # not a link: stat and lstat return the same record
        if m.decide(s_ok):
            return Ok(Struct("MetadataV", [pin_kind(m, S), "stat"]))
        e = m.decide_int(s_err, [ENOENT, ELOOP])
        return Err(Struct("IoError", [EACCES if e is None else e]))

    def of_path(fn_entry, fn_ref):
        """the model file system has two paths: the entry (r/a) and -samefile's reference file (ref)"""
        def f(m, a):
            p = text_of(m, a[0])
            return fn_ref(m, a) if p == "ref" else fn_entry(m, a)
        return f

    def ref_meta(m, a):
        return Ok(Struct("MetadataV", [REG, "ref"]))

    def field(name):
        def f(m, a):
            md = deref(a[0])
            which = md.fields[1]
            if which == "ref":
                return {"dev": REF_DEV, "ino": REF_INO, "uid": 0, "gid": 0, "nlink": 1, "size": 5}[name]
            return recs[which][name]
        return f

    def std_or_crate(name, fn_std):
        def f(m, a):
            v = deref(a[0])
            if isinstance(v, Enum):
                return m.run(m.index[name], a)
            return fn_std(v.fields[0])
        return f

    def de_file_type(m, a):
        if state["follow_links"] and pin_kind(m, L) == LNK:
            return Struct("StdFileType", [pin_kind(m, S)])
        return Struct("StdFileType", [pin_kind(m, L)])

    def de_metadata(m, a):
        if state["follow_links"] and pin_kind(m, L) == LNK:
            return Ok(Struct("MetadataV", [pin_kind(m, S), "stat"]))
        return Ok(Struct("MetadataV", [pin_kind(m, L), "lstat"]))

    def file_information(m, a):
        """uucore::fs::FileInformation::from_path(path, dereference): stat or lstat, keeps the whole record; == compares (dev, ino)"""
        p = text_of(m, a[0])
        deref_ = a[1]
        if not isinstance(deref_, bool):
            deref_ = m.decide(deref_)
        r = (ref_meta if p == "ref" else (stat if deref_ else lstat))(m, a)
        return r if r.variant == "Err" else Ok(Struct("FileInformationV", [r.fields[0]]))

    def fi_eq(m, a):
        x, y = deref(a[0]).fields[0], deref(a[1]).fields[0]
        fx, fy = field("dev"), field("ino")
        c = z3.And(_z(fx(m, [x])) == _z(fx(m, [y])), _z(fy(m, [x])) == _z(fy(m, [y])))
        return m.decide(c)

    def read_dir(m, a):
        # read_dir follows links (opendir); the directory it opens is the one the *stat* record describes
        l = pin_kind(m, L)
        k = l if l != LNK else (pin_kind(m, S) if m.decide(s_ok) else None)
        if k != DIR:
            return Err(Struct("IoError", [20]))
        return Ok(Struct("ReadDirV", [m.decide(dir_empty)]))

    def get_or_init(m, args, raw):
        cell = deref(args[0])
        if cell.fields[0].variant == "None":
            cell.fields[0] = Some(_closure(m, raw, [args[1]]))
        return Ptr(cell.fields[0].fields, 0)

    def is_ok_and(m, args, raw):
        v = args[0]
        return _closure(m, raw, [args[1], v.fields[0]]) if v.variant == "Ok" else False

    def res_map(m, args, raw):
        v = args[0]
        want = "Err" if "map_err" in raw else "Ok"
        if v.variant != want:
            return v
        mc = re.search(r"\{closure@[^}]*\}", raw)
        if mc:
            out = m.run(m.index[mc.group(0)], [args[1], v.fields[0]])
        else:
            mf = re.search(r"\{([^{}]+)\}>$", raw)
            out = m.call(mf.group(1), [v.fields[0]])
        return Enum(v.ty, v.variant, [out])

    def unwrap_or_else(m, args, raw):
        v = args[0]
        return v.fields[0] if v.variant in ("Some", "Ok") else _closure(m, raw, [args[1]])
    nat = c11_operands.natives()                 # (registers its own closure models; ours for Result::map / map_err must come after)
    models.EXACT["Option::unwrap_or_else"] = unwrap_or_else
    for k, f in (("OnceCell::get_or_init", get_or_init), ("Result::is_ok_and", is_ok_and), ("Result::map", res_map), ("Result::map_err", res_map)):
        models.EXACT[k] = f
    nat.update({
        "Path::is_dir": lambda m, a: (lambda r: r.variant == "Ok" and r.fields[0].fields[0] == 1)(stat(m, a)),
        "Path::symlink_metadata": of_path(lstat, ref_meta), "Path::metadata": of_path(stat, ref_meta), "metadata": of_path(stat, ref_meta),
        "fs::metadata": of_path(stat, ref_meta), "symlink_metadata": of_path(lstat, ref_meta),
        "Metadata::file_type": lambda m, a: Struct("StdFileType", [deref(a[0]).fields[0]]),
        "Metadata::len": field("size"), "Metadata::is_dir": lambda m, a: deref(a[0]).fields[0] == DIR,
        "<Metadata as MetadataExt>::uid": field("uid"), "<Metadata as MetadataExt>::gid": field("gid"), "<Metadata as MetadataExt>::nlink": field("nlink"),
        "<Metadata as MetadataExt>::ino": field("ino"), "<Metadata as MetadataExt>::dev": field("dev"), "<Metadata as MetadataExt>::size": field("size"),
        "FileInformation::from_path": file_information, "<FileInformation as PartialEq>::eq": fi_eq,
        "read_dir": read_dir, "fs::read_dir": read_dir,
        "<ReadDir as Iterator>::next": lambda m, a: (NONE() if deref(a[0]).fields[0] else Some(Ok(Opaque("DirEntry")))),
        "FileType::is_symlink": std_or_crate("FileType::is_symlink", lambda k: k == LNK),
        "FileType::is_dir": std_or_crate("FileType::is_dir", lambda k: k == 1),
        "FileType::is_file": std_or_crate("FileType::is_file", lambda k: k == 0),
        "<FileType as FileTypeExt>::is_fifo": lambda m, a: deref(a[0]).fields[0] == 5, "<FileType as FileTypeExt>::is_socket": lambda m, a: deref(a[0]).fields[0] == 6,
        "<FileType as FileTypeExt>::is_block_device": lambda m, a: deref(a[0]).fields[0] == 3,
        "<FileType as FileTypeExt>::is_char_device": lambda m, a: deref(a[0]).fields[0] == 4,
        "DirEntry::path": lambda m, a: deref(a[0]).fields[0], "DirEntry::depth": lambda m, a: deref(a[0]).fields[1],
        "DirEntry::file_type": de_file_type, "DirEntry::metadata": de_metadata,
        "DirEntry::path_is_symlink": lambda m, a: pin_kind(m, L) == LNK,
        "Error::raw_os_error": lambda m, a: Some(deref(a[0]).fields[0]),
        "Error::from_raw_os_error": lambda m, a: Struct("IoError", [a[0]]),
        "Error::kind": lambda m, a: Enum("ErrorKind", {ENOENT: "NotFound", EACCES: "PermissionDenied"}.get(deref(a[0]).fields[0], "Other"), []),
        "<ErrorKind as Into>::into": lambda m, a: Struct("IoError", [0]),
        "<ErrorKind as PartialEq>::eq": lambda m, a: _vname(deref(a[0])) == _vname(deref(a[1])),
        "<Option<i32> as PartialEq>::eq": lambda m, a: (deref(a[0]).variant == deref(a[1]).variant and (deref(a[0]).variant == "None" or deref(a[0]).fields[0] == deref(a[1]).fields[0])),
        "<impl AsRef<Path> as AsRef>::as_ref": lambda m, a: a[0], "<&Path as AsRef>::as_ref": lambda m, a: a[0], "<PathBuf as AsRef>::as_ref": lambda m, a: a[0],
        "<&str as AsRef>::as_ref": lambda m, a: PStr(text_of(m, deref(a[0]))), "<str as AsRef>::as_ref": lambda m, a: PStr(text_of(m, a[0])),
        "<Metadata as Clone>::clone": lambda m, a: deref(a[0]), "Option::cloned": lambda m, a: a[0], "Result::cloned": lambda m, a: (Ok(deref(a[0].fields[0])) if a[0].variant == "Ok" else a[0]),
        "Result::as_ref": lambda m, a: (Ok(Ptr(deref(a[0]).fields, 0)) if deref(a[0]).variant == "Ok" else Err(Ptr(deref(a[0]).fields, 0))),
        "<WalkError as Clone>::clone": lambda m, a: deref(a[0]),
        "<FileType as Into>::into": lambda m, a: m.call("<FileType as From<FileType>>::from", a),
        "<impl Into<PathBuf> as Into>::into": lambda m, a: a[0], "<PathBuf as Deref>::deref": lambda m, a: deref(a[0]), "PathBuf::as_path": lambda m, a: deref(a[0]),
        "<Printer as Matcher>::matches": lambda m, a: (state["printed"].append(1), True)[1],
        "<u32 as Into<u64>>::into": lambda m, a: a[0], "<u32 as Into>::into": lambda m, a: a[0],
        # readdir()'s d_ino: a number of its own (it differs from st_ino on a mount point); no test may depend on it
        "<DirEntry as DirEntryExt>::ino": lambda m, a: z3.Int("dirent_d_ino"),
        "Stderr::write_fmt": lambda m, a: Ok(UNIT), "<Stderr as Write>::write_fmt": lambda m, a: Ok(UNIT),
    })
    nat = {k: v for k, v in nat.items() if v is not None}
    m = Machine(funcs, index, enums, models, natives=nat, max_steps=4000000)
    allf = [recs[w][f] for w in recs for f in FIELDS]
    m.base_constraints = ([L >= 0, L <= 6, S >= 0, S <= 6, S != LNK, z3.Or(s_err == ENOENT, s_err == ELOOP, s_err == EACCES), follow >= 0, follow <= 2, depth >= 0, depth <= 1,
                           sent >= 0, sent < len(SENTENCES)] + [z3.And(v >= 0, v < 2 ** 32) for v in allf])
    cfg_fields = _config_fields(text)
    m.pending = [[]]
    t0 = time.time()
    while m.pending:
        m.reset_path(m.pending.pop())
        state["printed"] = []
        try:
            si = m.decide_int(sent, list(range(len(SENTENCES) - 1)))
            si = len(SENTENCES) - 1 if si is None else si
            prim, operand = SENTENCES[si]
            fo = m.decide_int(follow, [0, 1]); fo = 2 if fo is None else fo
            dp = 0 if m.decide(depth == 0) else 1
            wd = m.decide(as_dirent)
            fol = Enum("Follow", ["Never", "Roots", "Always"][fo], [])
            follows = fo == 2 or (fo == 1 and dp == 0)
            state["follow_links"] = fo == 2
            cfg = [m.call("<Config as Default>::default", [])]
            cfg[0].fields[cfg_fields.index("follow")] = fol
            args = SliceRef([RStr(prim)] + ([RStr(operand)] if operand is not None else []))
            r = m.call("build_top_level_matcher", [args, Ptr(cfg, 0)])
            if r.variant != "Ok":
                raise Unsupported("parser rejects %s %s" % (prim, operand))
            if wd:
                if fo == 2:
                    l = pin_kind(m, L)
                    if l == LNK and not m.decide(s_ok):
                        raise PathAbort("dangling link under follow_links is not a DirEntry")
                ent = m.call("WalkEntry::from_walkdir", [Ok(Struct("DirEntryV", [PStr("r/a"), dp])), fol])
                if ent.variant != "Ok":
                    raise Unsupported("from_walkdir failed")
                entry = [ent.fields[0]]
            else:
                entry = [m.call("WalkEntry::new", [PStr("r/a"), dp, fol])]
            io = [Struct("MatcherIO", [False, 0, False, Opaque("deps")])]
            box = [r.fields[0]]
            m.call("<Box<dyn Matcher> as Matcher>::matches", [Ptr(box, 0), Ptr(entry, 0), Ptr(io, 0)])
            verdict = bool(state["printed"])
            # the world of this path
            l = pin_kind(m, L)
            sok = True if l != LNK else m.decide(s_ok)
            sk = l if l != LNK else (pin_kind(m, S) if sok else None)
            se = None
            if l == LNK and not sok:
                e = m.decide_int(s_err, [ENOENT, ELOOP]); se = EACCES if e is None else e
            de = m.decide(dir_empty)
        except RustPanic as e:
            res["violations"].append({"what": "panic: " + str(e)[:100], "class": "panic"})
            res["paths"] += 1
            continue
        except Unsupported as e:
            res["unsupported"][str(e)[:110]] = res["unsupported"].get(str(e)[:110], 0) + 1
            continue
        except PathAbort:
            continue
        res["paths"] += 1
        world = "lstat=%s stat=%s, %s depth %d, %s entry" % (KINDS[l], (KINDS[sk] if sk is not None else "errno %d" % se), ["-P", "-H", "-L"][fo], dp, "walkdir" if wd else "explicit")
        if follows and l == LNK:
            sel = dict(recs["stat"], kind=sk) if sok else (dict(recs["lstat"], kind=l) if se == ENOENT else None)
            which = "stat" if sok else ("lstat (dangling)" if se == ENOENT else "none")
        else:
            sel = dict(recs["lstat"], kind=l)
            which = "lstat"
        want = reference(prim, operand, sel, de)
        # obligation: under the path condition the verdict equals the reference, for every value of every field of both records
        s = z3.Solver()
        for c in m.base_constraints + m.pc:
            s.add(c)
        s.add(_z(want) != z3.BoolVal(verdict))
        res["checks"] += 1
        if s.check() == z3.sat:
            mod = s.model()
            vals = {str(v): mod.eval(v, model_completion=True).as_long() for v in allf + [z3.Int("dirent_d_ino")]}
            res["violations"].append({"what": "%s%s is %s on an entry where the record the follow mode selects (%s) makes it %s (%s; %s)" % (
                prim, " " + operand if operand else "", "true" if verdict else "false", which, "false" if verdict else "true", world,
                ", ".join("%s=%d" % kv for kv in sorted(vals.items()))), "class": prim, "world": world, "sentence": [prim, operand], "values": vals,
                "dir_empty": bool(de), "verdict": verdict})
        elif len(res["samples"]) < 4 and l == LNK and verdict:
            res["samples"].append({"sentence": [prim, operand], "world": world, "verdict": verdict, "selected": which})
    res["wall_s"] = round(time.time() - t0, 2)
    res["solver_calls"] = m.stats["solver_calls"]
    res["functions_executed"] = sorted(m.executed)
    return res


def _z(v):
    return z3.BoolVal(v) if isinstance(v, bool) else (z3.IntVal(v) if isinstance(v, int) else v)


def _vname(v):
    return v.variant if isinstance(v, Enum) else v.ty


def _config_fields(text):
    mm = re.search(r"_0 = Config \{ ([^}]*) \}", text or "")
    if not mm:
        raise SystemExit("Config aggregate not found in the MIR")
    return [f.split(":")[0].strip() for f in mm.group(1).split(", ")]


if __name__ == "__main__":
    text = open(sys.argv[1]).read() if len(sys.argv) > 1 else None
    funcs, index, enums, secs, text = loader.load(os.environ.get("FINDUTILS_REPO", "/repo"), text)
    r = explore(funcs, index, enums, text)
    v = r.pop("violations")
    print(json.dumps({k: r[k] for k in ("kind", "paths", "checks", "solver_calls", "wall_s", "unsupported", "samples")})[:2500])
    print(len(v), "violations")
    seen = set()
    for x in v:
        k = (x.get("class"), x.get("world"))
        if k not in seen and len(seen) < 25:
            seen.add(k)
            print("  ", x["what"][:400])
