// harnesses for module m_name (included into /repo under cfg(kani))
