// C13/C14: -uid (and -user N) compare the selected record's owner id.
use super::*;
use crate::find::matchers::entry::verif_kani::*;
use crate::find::matchers::stat::verif_kani::{any_cv, want_cmp};
use crate::find::matchers::Follow;

// @harness props=C13,C14 tier=quick cost=60 flags=nomem
// @exec UserMatcher::{from_comparable,from_uid,matches}, ComparableValue::matches, WalkEntry::metadata
// @sym world, follow P/H/L, depth 0..1, N: u64, form; uid: u32
// @bounds one path; depth <= 1
// @assume kernel contract for stat vs lstat
#[kani::proof]
#[kani::unwind(3)]
#[kani::stub(alloc::fmt::format, fmt_stub)]
#[kani::stub(std::fs::metadata, stat_stub)]
#[kani::stub(std::fs::symlink_metadata, lstat_stub)]
fn c13_uid_record() {
    let (lst, sst, s_ok, s_err) = any_world(&[libc::ENOENT, libc::ELOOP]);
    let follow = any_follow();
    let depth: usize = kani::any();
    kani::assume(depth <= 1);
    let entry = WalkEntry::new("a", depth, follow);
    let deps = Deps::new();
    let mut io = MatcherIO::new(&deps);
    let rec = selected_record(lst, sst, s_ok, s_err, follow.follow_at_depth(depth));
    if kani::any() {
        let (cv, k, n) = any_cv();
        let got = UserMatcher::from_comparable(cv).matches(&entry, &mut io);
        match rec { Some(r) => assert!(got == want_cmp(k, n, r.st_uid as u64)), None => assert!(!got) }
        kani::cover!(got && k == 2);
    } else {
        let uid: u32 = kani::any();
        let got = UserMatcher::from_uid(uid).matches(&entry, &mut io);
        match rec { Some(r) => assert!(got == (r.st_uid == uid)), None => assert!(!got) }
        kani::cover!(got && follow == Follow::Always && s_ok && lst.st_uid != sst.st_uid);
    }
    std::mem::forget(entry);
}
#[kani::proof]
#[kani::unwind(3)]
#[kani::stub(alloc::fmt::format, fmt_stub)]
#[kani::stub(std::fs::metadata, stat_stub)]
#[kani::stub(std::fs::symlink_metadata, lstat_stub)]
fn c13_uid_record_canary() {
    let (lst, _sst, _s_ok, _s_err) = any_world(&[libc::ENOENT]);
    let entry = WalkEntry::new("a", 0, any_follow());
    let deps = Deps::new();
    let mut io = MatcherIO::new(&deps);
    let uid: u32 = kani::any();
    let got = UserMatcher::from_uid(uid).matches(&entry, &mut io);
    assert!(got == (lst.st_gid == uid)); // wrong field: must FAIL
    std::mem::forget(entry);
}
