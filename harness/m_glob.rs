// C12: the glob -> POSIX BRE translation table (single atoms); matching itself is onig (C, outside).
use super::*;
use crate::find::matchers::entry::verif_kani::{fmt_stub, hae_stub, he_stub, noop_stub};

/// A Pattern that matches nothing (for harnesses that cut Pattern::matches).
pub fn pattern_none() -> Pattern { Pattern { regex: None } }
/// Constructor cut used by parser harnesses (onig cannot be compiled by Kani's back end within reach).
pub fn pattern_new_stub(_pattern: &str, _caseless: bool) -> Pattern { Pattern { regex: None } }

fn bre_stub(_e: &str, _o: RegexOptions) -> Result<Regex, onig::Error> { kani::assume(false); unreachable!() }
fn special(c: u8) -> bool { c == b'.' || c == b'[' || c == b'\\' || c == b'*' || c == b'^' || c == b'$' }

// @harness props=C12 tier=quick cost=8
// @exec regex_push_literal
// @sym one ASCII character (all 128)
// @bounds single character
/// A literal is backslash-escaped in the BRE exactly when it is special there: . [ \ * ^ $
#[kani::proof]
#[kani::unwind(4)]
#[kani::stub(alloc::fmt::format, fmt_stub)]
#[kani::stub(alloc::raw_vec::handle_error, he_stub)]
#[kani::stub(std::alloc::handle_alloc_error, hae_stub)]
fn c12_push_literal_escape_set() {
    let c: u8 = kani::any();
    kani::assume(c < 0x80);
    let mut r = String::new();
    regex_push_literal(&mut r, c as char);
    let b = r.as_bytes();
    if special(c) { assert!(b.len() == 2 && b[0] == b'\\' && b[1] == c); } else { assert!(b.len() == 1 && b[0] == c); }
    kani::cover!(c == b'$'); kani::cover!(c == b'^'); kani::cover!(c == b'a');
    std::mem::forget(r);
}
#[kani::proof]
#[kani::unwind(4)]
#[kani::stub(alloc::fmt::format, fmt_stub)]
#[kani::stub(alloc::raw_vec::handle_error, he_stub)]
#[kani::stub(std::alloc::handle_alloc_error, hae_stub)]
fn c12_push_literal_escape_set_canary() {
    let c: u8 = kani::any();
    kani::assume(c < 0x80);
    let mut r = String::new();
    regex_push_literal(&mut r, c as char);
    assert!(r.len() == 1 || c == b'.' || c == b'*' || c == b'\\' || c == b'['); // forgets ^ and $: must FAIL
    std::mem::forget(r);
}

// @harness props=C12 tier=quick cost=20
// @exec glob_to_regex, regex_push_literal
// @sym a one-byte ASCII pattern other than '['
// @bounds pattern length 1; bracket expressions excluded (they call onig)
/// One-atom patterns: '?' -> '.', '*' -> '.*', lone '\' -> never matches, literal c -> c escaped iff special.
#[kani::proof]
#[kani::unwind(4)]
#[kani::stub(alloc::fmt::format, fmt_stub)]
#[kani::stub(alloc::raw_vec::handle_error, he_stub)]
#[kani::stub(std::alloc::handle_alloc_error, hae_stub)]
#[kani::stub(std::rt::thread_cleanup, noop_stub)]
#[kani::stub(parse_bre, bre_stub)]
fn c12_glob_to_bre_len1() {
    let p: [u8; 1] = kani::any();
    kani::assume(p[0] < 0x80 && p[0] != b'[');
    let pat = unsafe { std::str::from_utf8_unchecked(&p[..]) };
    match glob_to_regex(pat) {
        None => assert!(p[0] == b'\\'),
        Some(re) => {
            let rb = re.as_bytes();
            if p[0] == b'?' { assert!(rb.len() == 1 && rb[0] == b'.'); }
            else if p[0] == b'*' { assert!(rb.len() == 2 && rb[0] == b'.' && rb[1] == b'*'); }
            else if p[0] == b'\\' { assert!(false); }
            else if special(p[0]) { assert!(rb.len() == 2 && rb[0] == b'\\' && rb[1] == p[0]); }
            else { assert!(rb.len() == 1 && rb[0] == p[0]); }
            kani::cover!(p[0] == b'?'); kani::cover!(p[0] == b'.');
            std::mem::forget(re);
        }
    }
}
#[kani::proof]
#[kani::unwind(4)]
#[kani::stub(alloc::fmt::format, fmt_stub)]
#[kani::stub(alloc::raw_vec::handle_error, he_stub)]
#[kani::stub(std::alloc::handle_alloc_error, hae_stub)]
#[kani::stub(std::rt::thread_cleanup, noop_stub)]
#[kani::stub(parse_bre, bre_stub)]
fn c12_glob_to_bre_len1_canary() {
    let p: [u8; 1] = kani::any();
    kani::assume(p[0] < 0x80 && p[0] != b'[');
    let pat = unsafe { std::str::from_utf8_unchecked(&p[..]) };
    if let Some(re) = glob_to_regex(pat) { assert!(re.len() == 1); std::mem::forget(re); } // '*' gives two bytes: must FAIL
}
