// harnesses for module m_time (included into /repo under cfg(kani))
