// C14: -size rounding and the N / +N / -N trichotomy.  Stub-free integer kernels.
use super::*;

fn any_unit() -> (Unit, u32) {
    match kani::any::<u8>() % 6 {
        0 => (Unit::Byte, 0),
        1 => (Unit::TwoByteWord, 1),
        2 => (Unit::Block, 9),
        3 => (Unit::KibiByte, 10),
        4 => (Unit::MebiByte, 20),
        _ => (Unit::GibiByte, 30),
    }
}

fn ceil_div_pow2(bytes: u64, shift: u32) -> u64 {
    let q = bytes >> shift;
    let r = bytes & ((1u64 << shift) - 1);
    q + if r != 0 { 1 } else { 0 }
}

// @harness props=C14 tier=quick cost=2
// @exec byte_size_to_unit_size
// @sym bytes: u64 (all 2^64 values), unit: all six units
// @bounds loop-free; no unwinding needed
// @witness unit:u8 bytes:u64
// @replay size_round
/// byte_size_to_unit_size(unit, b) == ceil(b / 2^k) for every u64 and every unit; no overflow.
#[kani::proof]
fn c14_size_round_up() {
    let (unit, shift) = any_unit();
    let bytes: u64 = kani::any();
    let got = byte_size_to_unit_size(unit, bytes);
    assert!(got == ceil_div_pow2(bytes, shift));
    kani::cover!(shift == 30 && bytes == u64::MAX);
    kani::cover!(shift == 10 && bytes == 1025 && got == 2);
}
#[kani::proof]
fn c14_size_round_up_canary() {
    let (unit, shift) = any_unit();
    let bytes: u64 = kani::any();
    let got = byte_size_to_unit_size(unit, bytes);
    assert!(got == bytes >> shift); // floor instead of ceil: must FAIL
}

// @harness props=C14 tier=quick cost=2
// @exec ComparableValue::matches
// @sym n, n2, v: u64 (all values)
// @bounds loop-free
/// Exactly one of N, +N, -N holds; +N / -N are monotone in N. All u64.
#[kani::proof]
fn c14_trichotomy_u64() {
    let n: u64 = kani::any();
    let v: u64 = kani::any();
    let a = ComparableValue::MoreThan(n).matches(v);
    let b = ComparableValue::EqualTo(n).matches(v);
    let c = ComparableValue::LessThan(n).matches(v);
    assert!((a as u8) + (b as u8) + (c as u8) == 1);
    assert!(a == (v > n) && b == (v == n) && c == (v < n));
    let n2: u64 = kani::any();
    kani::assume(n2 >= n);
    // monotone: +N2 ⇒ +N ; -N ⇒ -N2
    if ComparableValue::MoreThan(n2).matches(v) { assert!(a); }
    if c { assert!(ComparableValue::LessThan(n2).matches(v)); }
    kani::cover!(a); kani::cover!(b); kani::cover!(c);
}
#[kani::proof]
fn c14_trichotomy_u64_canary() {
    let n: u64 = kani::any();
    let v: u64 = kani::any();
    let a = ComparableValue::MoreThan(n).matches(v);
    assert!(a == (v >= n)); // wrong on purpose: must FAIL
}

// @harness props=C14 tier=quick cost=2
// @exec ComparableValue::imatches
// @sym n: u64, v: i64 (all values)
// @bounds loop-free
/// Signed variant used by the time tests: negative measured values are "less than" everything.
#[kani::proof]
fn c14_trichotomy_i64() {
    let n: u64 = kani::any();
    let v: i64 = kani::any();
    let a = ComparableValue::MoreThan(n).imatches(v);
    let b = ComparableValue::EqualTo(n).imatches(v);
    let c = ComparableValue::LessThan(n).imatches(v);
    assert!((a as u8) + (b as u8) + (c as u8) == 1);
    if v >= 0 { let u = v as u64; assert!(a == (u > n) && b == (u == n) && c == (u < n)); } else { assert!(c); }
    kani::cover!(v < 0); kani::cover!(a); kani::cover!(b);
}
#[kani::proof]
fn c14_trichotomy_i64_canary() {
    let n: u64 = kani::any();
    let v: i64 = kani::any();
    let b = ComparableValue::EqualTo(n).imatches(v);
    assert!(b == ((v as u64) == n)); // ignores the sign: must FAIL
}
