// harnesses for module m_type_matcher (included into /repo under cfg(kani))
