#!/usr/bin/env python3
"""Generate MANIFEST.json from the per-property claim table below (single source of truth for claims)."""
import json, os, subprocess

HERE = os.path.dirname(os.path.abspath(__file__))

TECH = "bounded model checking of the compiled Rust code: Kani 0.68 / CBMC 6.11 (CaDiCaL) over #[kani::proof] harnesses with kani::any() inputs"
TECH_MIR = TECH + "; plus path-exploring symbolic execution of the rustc MIR of the real functions with z3 (mirsym)"
MIR_ONLY = "path-exploring symbolic execution of the rustc MIR of the real functions (cargo +nightly rustc -Zunpretty=mir) with z3 deciding branch feasibility and the per-path obligations (mirsym)"
MIRSYM = ("C01", "C11", "C04", "C19", "C18", "C02", "C08", "C09", "C05", "C12", "C20", "C07", "C16", "C13", "C03", "C10", "C14", "C15")
MIR_ONLY_PROPS = ("C07", "C08", "C09")

CLAIMS = {
 "C01": ("End-to-end (mirsym): tokens -> tree -> evaluation equals the grammar's reference evaluation (precedence, '!', -a/juxtaposition, -o, ',', parentheses, short-circuit, implicit -print, -quit) for all token sequences within the bound. Inductive step (Kani) for arbitrary children: And/Or/List/Not nodes (order, short-circuit, ',' value, quit cut-off, action flag, finished callbacks), the And-builder (1-3 leaves), the is-an-action table, the implicit -print decision of build_top_level_matcher, -quit in the walk loop and across starting points.",
         "Kani part: given a tree (build_matcher_tree / AndMatcherBuilder are scripts/recorders in c01_default_print). mirsym part: the real build_top_level_matcher, builders and combinators are executed end to end from their MIR on every token sequence of length <= 3 over a 15-word vocabulary (4 tokens: 10 words in quick, 15 in thorough), two symbolic leaf tests, one abstract file, compared with a reference parser/evaluator written from the grammar; std calls are models, Printer/-prune/-empty/-readable are natives. Operand-taking primaries, longer expressions and Printer's bytes are outside.",
         "4 C01"),
 "C02": ("findutils' side of the traversal: process_dir evaluates every yielded entry exactly once and in order, an error step gives a non-zero status and the walk continues (<=2/3 scripted steps, all entry records); the WalkDir configuration requested equals the Config (depth range incl. the empty range, -L/-H, -depth, -xdev, -sorted) for every Config; do_find accumulates the status over <=3 starting points.",
         "walkdir 2.5 itself (which entries exist, link following, loop detection) is trusted: in Kani its iterator is scripted and its builder methods are recorders; in mirsym (c02_walk) process_dir + WalkEntry::from_walkdir + WalkError's conversions run over a port of walkdir 2.5's iterator (min/max depth, contents_first, follow_links, errors for dangling and looping links and unreadable directories - errors bypass min_depth as in walkdir) on an 11-entry tree for every (mindepth, maxdepth) in 0..4 x -depth x -P/-H/-L: exactly the in-range entries are evaluated, each once, in order, a dangling link as a link; also with the starting point itself a symbolic link to the directory (known findings F-C02-H-rootlink-depth / F-C03-H-rootlink-depth: -H + such a root + -depth, inherited from walkdir).",
         "4 C02"),
 "C03": ("-prune marks exactly directories as the follow mode sees them (all types, P/H/L, stat failures) and is always true; the walk loop requests skip_current_dir iff -prune fired on a directory and -depth is off, for every script of <=2 (thorough 3) steps; contents_first/sort_by are requested iff -depth/-sorted. mirsym (c02_walk): the real parser on '-name X -prune -o -print' with -depth absent / before / after, process_dir and PruneMatcher over a port of walkdir's iterator (skip_current_dir included), X selecting any subset of the directories (and a link to a directory) of an 11-entry tree: exactly the descendants of the pruned directories are left out in the default order, nothing is left out under -depth, visit order pre/post, status; plus the depth-range walk of C02.",
         "Pre/post-order and sibling order themselves are walkdir's (trusted). Path::parent is cut in the loop harness (disables only finished_dir bookkeeping).",
         "4 C03"),
 "C04": ("Each limiter (-n, -L, -s) as one step from an arbitrary valid state over full-width usize; the real -n,-L,-s chain (one and two steps); and the whole batching loop process_input against every sequence of limiter verdicts and child outcomes for <=3 input arguments: order-preserving, lossless, flush only on rejection, retry in a fresh invocation, too-large diagnosis, -x, empty input/-r.",
         "mirsym adds the end-to-end run without the composition argument: CommandBuilderOptions::new + process_input with the REAL -n/-L/-s limiter chain for 0..3 (thorough 4) arguments of symbolic length (1..40), symbolic limits, line structure and child outcomes, seven option sets; per path z3 discharges: order-preserving and lossless, every invocation within all limits, maximal, too-large diagnosis, -x, empty input/-r, result. Kani part: composition argument: process_input is checked against arbitrary verdicts (CommandBuilder::{new,add_arg,execute} are recorders), the limiters' verdicts are checked separately; CommandBuilderOptions::new (initial arguments pre-charged) and do_xargs' option plumbing (clap) are not covered.",
         "4 C04"),
 "C05": ("The whitespace/quote reader against a reference tokenizer for every input of <=2 bytes (thorough 3) over a 6/10-letter alphabet (letter, blank, newline, tab, ', \", \\, VT, 0x85, 0xA0), two consecutive next() calls, chunkings [n], [1,1] (thorough [1,2],[2,1],[1,1,1]); parse_delimiter total on <=3 ASCII bytes.",
         "Vec::resize(4096) capped at 4 bytes and from_utf8_lossy = identity in the harness (bytes compared raw); the 4096-byte buffer edge, inputs >3 bytes, -0/-d reader (BufReader: out of memory) and reader selection (clap) are outside. '' as a whole token is assumed away (property silent).",
         "4 C05"),
 "C06": ("One inductive step of the system limiter against the kernel's execve acceptance predicate for all RLIMIT_STACK (512 KiB..2^40), environment sizes, argument counts/bytes: the strings+headroom guarantee holds; the full predicate (8-byte pointers, 6 MiB cap) is the recorded known finding F-C06.",
         "Kernel/glibc contract quoted from execve(2)/fs/exec.c, not executed. The budget formula of new_system (sysconf FFI, HashMap iteration) is copied into the harness: an edit confined to new_system is not detected. MAX_ARG_STRLEN needs a 128 KiB string: outside.",
         "4 C06"),
 "C07": ("mirsym only: the find half and the xargs half composed at MIR level on symbolic names. process_dir + from_walkdir + the parser-built matcher for -print0 / -print / no expression + Printer::{matches,print} + PrintDelimiter's Display write, per visited entry in order, exactly the path (starting point as given, '/'-joined names) and one NUL / newline - nothing escaped, normalised or added; ByteDelimitedArgumentReader (delimiter NUL) + process_input + CommandBuilder::execute then hand exactly those byte strings, each once and in order, to Command::args.",
         "Name bytes are symbolic over all of ASCII 1..127 without '/'; tree shapes are fixed per run (up to 6 entries, names of 1..6 bytes, depth 4); walkdir is a script (a child's path is Path::join(parent, name)); what is written goes through a port of core::fmt::write over the template bytes rustc emitted (fmt_model.py: Display for str/Cow<str> writes the bytes of the string); lossy UTF-8 conversions are the identity (true for ASCII, std's contract for valid UTF-8); the pipe is the identity on bytes; no -s/-n limits (C04). Not covered: multi-byte UTF-8 names as symbolic bytes, walkdir's own path construction, stdout buffering across processes.",
         "4 C07"),
 "C08": ("MIR-level symbolic execution (mirsym) of the real process_dir loop, WalkEntry::from_walkdir and MultiExecMatcher (built by the real parser from -exec/-execdir cmd fixed {} +) over a scripted tree in pre- and post-order, for every script of 'fits / does not fit' verdicts and invocation outcomes: each reached path is passed to exactly one invocation, after the fixed arguments, in visit order; a batch is dispatched early only when the next path did not fit; every pending invocation has run when process_dir returns, also after -quit; -execdir batches hold entries of one directory named ./basename and run in that directory; the action is true; the status is non-zero iff an invocation failed or could not be started.",
         "argmax::Command (what fits, assumed: a fresh command line always admits one path), std::process::Command, walkdir (documented pre/post-order and skip semantics on a 5-entry tree with blanks, quotes, braces and a leading dash in names) and std::path (on concrete text) are natives/models in mirsym; 'accepted by the operating system' is argmax's business and is not covered.",
         "4 C08"),
 "C09": ("mirsym: the real SingleExecMatcher::{new,matches} behind '-exec[dir] cmd T1 T2 ; -print' (parsed by the real parser) in the real process_dir loop: one run per reached file; argv = cmd followed by each template with every {} replaced by the path (./basename for -execdir, run in the file's directory), for all pairs of templates from a 7-word vocabulary ({} alone, embedded, twice, absent, empty) and file names with blanks, quotes, braces, leading dash; the action is true iff the child exits 0 (observed through the following -print); a failing or unstartable command does not change find's status.",
         "std::process::Command, str::split / [OsString]::join / std::path (on concrete text), walkdir are natives/models; byte-exactness of argv beyond text equality (no word splitting is possible in the modelled Command::arg) and non-UTF-8 names are outside.",
         "4 C09"),
 "C10": ("-delete's decision for every entry kind: exactly one removal call on the entry's own path, rmdir iff the entry itself (lstat) is a directory under every follow mode and link kind, failure => false and exit status 1, success => true, '.' skipped; -delete is an action. mirsym (c02_walk, delete mode): the real parser on '-name X -delete', process_dir and DeleteMatcher over a port of walkdir's iterator and a model file system, X selecting any subset of eight entries, -P and -L: the sequence of unlink/rmdir calls is exactly the selected entries in post-order (links unlinked - also a link to a directory that -L descends -, a directory removed only when nothing is left in it), everything else is left alone, -delete implies -depth, the status is non-zero iff a removal failed or an entry was diagnosed, and the walk goes on after a failure.",
         "remove_dir/remove_file/stat/lstat are a symbolic world under the kernel's contract. 'Only entries for which EXPR is true' = And short-circuit (C01 step); children-before-parent = walkdir's contents_first (requested: C02/C03 walk_config); '-delete implies -depth' is covered by the mirsym run only.",
         "4 C10"),
 "C11": ("Grammar acceptance (mirsym): a token sequence within the bound is accepted iff it is a sentence (dangling operators, '!' without operand, unbalanced/empty parentheses, unknown primary are rejected). No panic and accept/reject per the documented sets for the leaf operand parsers (Kani): -printf format leaves (advance_one, peek, advance_by, escape sequences; ASCII and 2-byte UTF-8 at any position), -type/-xtype letters, -size unit suffix, -perm prefix, xargs -d operand.  Kani checks every reachable panic/overflow/slice index in all harnesses of this suite for the code they execute.",
         "Kani: leaves only. mirsym: build_matcher_tree accepts exactly the sentences of the grammar for all token sequences of length <= 4 over the vocabulary (operators, parentheses, '!', eight operand-free primaries, one unknown word) and never panics there. mirsym c11_operands: 21 operand-taking primaries (incl. -newerXY spellings with junk) x 26 operand words (valid, near-miss, huge, empty) for sequences of 1..2 tokens (3 over a reduced vocabulary): accepted iff in the grammar with a valid operand; missing operands rejected; the regex crate is modelled by Python re on the pattern text in the MIR. Known finding F-C11-newer-prefix. -perm/-user/-group/-regex/-exec operands (uucore, FFI, onig), 'rejected before any file is visited' (do_find) are NOT covered.",
         "4 C11"),
 "C12": ("The glob -> POSIX BRE translation table for single atoms: every ASCII literal is escaped iff special in a BRE; '?' -> '.', '*' -> '.*', lone backslash -> never matches (Kani). mirsym c12_glob: glob_to_regex + extract_bracket_expr + regex_push_literal from MIR on every pattern of 1..4 (thorough 5) characters over {a b * ? [ ] ! \\ .}; the BRE produced is evaluated by a matcher for the BRE subset it can emit on every subject of 0..3 characters over {a b ] ! ^ . \\ [ *} and compared with a reference POSIX fnmatch() without flags: same language, whole-string, unmatched '[' literal, trailing backslash matches nothing, '!' negation, leading ']' member, ranges (also from ']' and up to '-' at the edges).",
         "Known finding F-C12-bracket-backslash (a backslash inside a bracket expression is not treated as a quote). Matching itself is oniguruma (C, FFI) and is trusted to implement the BRE subset; ranges whose start sorts after their end (undefined), character classes / collating symbols ('[.', '[=', '[:' skipped), '^' after '[' (unspecified), case folding (-i forms), subject selection (-name/-path/-lname) are outside.",
         "4 C12"),
 "C13": ("Record selection (lstat/stat, dangling fallback, -H depth 0 only) of WalkEntry::metadata for all records/errnos/follow modes; -type/-xtype, -perm (12 bits, three forms), -links, -inum, -uid, -gid, -size, -empty (non-directories), -lname's follow guard as functions of the selected record, all field values full width.",
         "stat()/lstat()/readlink() are a symbolic world under the kernel's contract; Pattern::matches cut to true in the -lname harness; -empty on directories, -samefile, -user/-group names, symbolic -perm spelling (uucore) are outside.",
         "4 C13"),
 "C14": ("N/+N/-N trichotomy and monotonicity over all u64/i64; -size rounding = ceil(bytes/2^k) for all u64 and six units without overflow; SizeMatcher/LinksMatcher/InodeMatcher/uid/gid compose them on the selected record; named corollaries (-size -1k, -size 1M); unit suffix set.",
         "Operand text -> (comparison, N, unit): the regex crate is a Kani ICE; decided at MIR level instead (mirsym c11_operands.explore_values: convert_arg_to_comparable_value(_and_suffix) on 21 operand words incl. 2^64-1, 2^64, leading zeros, blanks, empty; regex crate = Python re on the pattern text in the MIR).",
         "4 C14"),
 "C15": ("-atime/-ctime/-mtime = floor(age/86400), -amin/-cmin/-mmin = floor(age/60) on each one's own timestamp for all (s,ns) pairs below 2^40 s with age >= 0; -newer strict at ns resolution with F's record per follow mode; -newerXY = entry.X > F.Y for the nine a/c/m combinations.",
         "-daystart (chrono Local), -newerXt / date parsing, birth time are outside; the -newerXY option-name parser (regex crate, a Kani ICE) is decided at MIR level (mirsym: parse_str_to_newer_args on 30 spellings incl. near-misses); F dangling is outside c15_newer_strict.",
         "4 C15"),
 "C16": ("Kani: record directives %s %n %i %U %G %d (decimal, values < 10^5), %m (all twelve bits), escape sequences \\a..\\\\, \\0, \\NNN, \\c. mirsym: the real format parser (FormatString::parse with parse_format_specifier, parse_format_width, parse_escape_sequence) on format strings of 1..2 (thorough 3) items over literals incl. multi-byte text, all escapes, %%, and the path directives %p %f %h %H %P %d each plain, with a width and with '-' + width; then Printf::print + format_directive + get_starting_point on entries of a tree with symbolic names, for four spellings of the starting point: the bytes written equal the reference rendering - every directive's value, padded with blanks on the left (right with '-') to the minimum width, never truncated, everything else verbatim, nothing appended; %H '/' %P recompose %p. mirsym c16_types: %y is the letter of the record the follow mode selects AND a letter for which the real -type test is true on the same entry (symbolic lstat/stat world, -P/-H/-L, depth 0/1, explicit and walkdir entries); %Y / -xtype likewise where the follow mode does not resolve the entry.",
         "Known finding F-C16-H: %H of entries below a starting point spelled with a trailing slash lacks the slash. What write! emits is produced by fmt_model.py (port of core::fmt::write incl. Formatter::pad over the template bytes in the MIR); std::path operations on symbolic names are structural models (components, parent, file_name, ancestors, strip_prefix). %l, time directives (chrono), %u %g (FFI), %F %S %b %k %D, -fprintf's file handling, width on the record directives (Kani side) are outside; %Y under -L is outside (design decision recorded in DESIGN.md).",
         "4 C16"),
 "C18": ("The operand scan of parse_args for every pair of tokens from a 12-word vocabulary (follow flags, --, operands incl. '-', './a/', expression starters): operands in order, spelled as given, default '.'; do_find walks <=3 starting points in order, isolates failures, stops after quit.",
         "mirsym: the real parse_args + do_find + expression parser on every command line of <= 3 tokens over a 15-word vocabulary (options, --, operands incl. '-', './b/', '..', expression starters) with a symbolic per-starting-point status and quit: operands, order, spelling, default '.', follow mode, status accumulation, stop after quit. Kani: build_top_level_matcher and process_dir are scripts in these harnesses; -files0-from FILE: mirsym c18_files0 runs parse_files0_args from MIR over six NUL-separated name lists and a missing file (names in order, spelled as given, empty names skipped and diagnosed, no combination with file operands); -files0-from - (stdin) is not covered; missing starting points are walkdir's error path (abstracted as an error step).",
         "4 C18"),
 "C19": ("Classification of a child's fate by execute() for every wait status / spawn errno; exit-code mapping of xargs_main for every result variant; sticky failure; and, in the process_input protocol harness, every sequence of <=5 outcomes: stops at once on 255/signal/not-found, continues past 1..125.",
         "Command::status replaced by a symbolic outcome under the Linux wait-status encoding; do_xargs replaced by a stub in the mapping harness.",
         "4 C19"),
 "C20": ("mirsym: (1) normalize_options from its MIR for every subset and relative order of -n/-L/-I|-i/-d/-0: the option given last determines the mode, -I with -n 1 stays -I, -I forces one line per run and newline splitting, -0/-d: the later one. (2) CommandBuilder::execute from its MIR: with -I every occurrence of R in every initial argument is replaced by the whole line, nothing appended, arguments without R unchanged; without -I initial arguments then the line; the child's fate is classified per C19. (3) The -I pipeline process_input + CommandBuilderOptions::new + CommandBuilder::{new,add_arg,execute} + the -n 1 limiter: one run per line in order, none on empty input (with or without -r), 255 stops at once, 1..254 goes on. Kani: the process_input protocol harness (shared with C04/C19) covers the batching loop for every verdict/outcome script of <= 5 steps.",
         "Strings are drawn from small vocabularies (R in 3, initial arguments in 7, lines in 3..5) - str::replace is modelled on concrete text after pinning the choice; clap's ArgMatches::indices_of is modelled (values have indices; a valueless occurrence has one only through a default_missing_value, read from do_xargs's MIR); the readers feeding the pipeline are C05's; Command is a recorder. Not covered: the clap definitions of the options themselves (spelling, require_equals), lines with quotes/backslashes/leading blanks (outside the property too).",
         "4 C20"),
}

NOT_APPLICABLE = {
 "C17": "RegexMatcher is a 3-line wrapper over oniguruma (C): language membership, whole-string vs first-match and syntax tables are foreign code outside any bound CBMC finishes.",
}


def main():
    checks = []
    for pid in sorted(CLAIMS):
        text, note, ref = CLAIMS[pid]
        checks.append({
            "property_id": pid,
            "quick_cmd": "./check.py %s --tier quick" % pid,
            "thorough_cmd": "./check.py %s --tier thorough" % pid,
            "evidence_file": "evidence/%s.json" % pid,
            "replay_cmd_template": "./check.py --replay {path}",
            "engine": "mirsym" if pid in MIR_ONLY_PROPS else "kani+mirsym" if pid in MIRSYM else "kani",
            "level_claimed": {"category": "model_checking",
                              "text": text + " Bounded: holds for all inputs within the bounds printed per query in the evidence file; nothing is called a proof.",
                              "design_ref": "DESIGN.md section " + ref},
            "level_note": note + (" Trusted: rustc's MIR dump, the interpreter and its std/external models (mirsym/), z3, the reference models in /verif/mirsym." if pid in MIR_ONLY_PROPS else
                                  " Trusted: Kani's MIR->goto translation and std models, CBMC + CaDiCaL, the listed #[kani::stub] cuts, the reference models in /verif/harness."),
            "technique": MIR_ONLY if pid in MIR_ONLY_PROPS else TECH_MIR if pid in MIRSYM else TECH,
        })
    hooks_commits = subprocess.run(["git", "-C", "/repo", "log", "--format=%h", "--grep=^verif hooks"], capture_output=True, text=True).stdout.split()
    m = {
        "version": 1,
        "setup_cmd": "./setup.sh",
        "hooks": {
            "guard": "cfg(kani)",
            "enable": "cargo kani (sets --cfg kani) with FINDUTILS_VERIF_DIR=/verif; each hooked module then includes /verif/harness/<module>.rs",
            "baseline_off_cmd": "cd /repo && cargo nextest run --workspace --no-fail-fast --tool-config-file pb:/w/lib/nextest.toml --profile pb --test-threads 8 --offline",
            "source_commits": hooks_commits,
            "add_only": True,
        },
        "engines": [{"name": "kani", "path": "check.py", "serves_properties": sorted(set(CLAIMS) - set(MIR_ONLY_PROPS)),
                     "kind_free_text": "Kani 0.68.0 / CBMC 6.11.0 bounded model checker over in-crate #[kani::proof] harnesses (harness/*.rs), driven by check.py"},
                    {"name": "mirsym", "path": "mirsym/run.py", "serves_properties": sorted(MIRSYM),
                     "kind_free_text": "own symbolic interpreter for rustc's MIR dump (cargo +nightly rustc -Zunpretty=mir, regenerated from /repo on every run): executes the real parser/builders/combinators, parse_args/do_find, CommandBuilderOptions::new/process_input with the real limiter chain, process_dir with the -exec matchers, the xargs readers, glob_to_regex, normalize_options and CommandBuilder::execute; z3 decides branch feasibility and discharges the per-path obligations; std/external calls are modelled (mirsym/models.py, natives_fs.py)"}],
        "checks": checks,
        "not_applicable": [{"property_id": k, "reason": v} for k, v in sorted(NOT_APPLICABLE.items())],
        "notes": "Solver-based checking only. Exit 0 = verified (KNOWN-FINDING lines for recorded defects), 1 = VIOLATION, 2 = INCONCLUSIVE (timeout/OOM/vacuity guard). known_findings.json lists recorded and fixed defects; seeded/ holds confirmed breaking changes used to test the checks.",
    }
    json.dump(m, open(os.path.join(HERE, "MANIFEST.json"), "w"), indent=1)
    print("MANIFEST.json written: %d checks, %d not applicable" % (len(checks), len(NOT_APPLICABLE)))


if __name__ == "__main__":
    main()
