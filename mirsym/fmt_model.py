"""A model of core::fmt for the checks whose subject is what gets written.

fmt::Arguments is kept as built by the real code (the template byte string rustc emitted + the argument array); rendering it is a
port of core::fmt::write (library/core/src/fmt/mod.rs: literal pieces are length-prefixed, 0x80 = u16 length, 0xC0 = next
argument with default options, 0x00 = end).  An argument is rendered by
  - the crate's own `Display::fmt`, executed from MIR, when its type has one (e.g. PrintDelimiter),
  - the documented behaviour of `Display` for str / String / Cow<str> (the bytes of the string, nothing else),
  - anything else (Debug, numbers, non-default width/precision/flags): Unsupported -> the run is INCONCLUSIVE, never a pass.
Only sinks created by sink() take bytes; format!() and diagnostics stay opaque (models.py)."""
import re
import interp, models
from interp import Struct, Opaque, Unsupported, RStr, Ptr, SliceRef, UNIT, BoxObj
from models import model, deref, Ok, as_list


class SymStr:
    """a string / path / OsString whose bytes are ints or z3 Ints"""
    __slots__ = ("chars",)

    def __init__(self, chars):
        self.chars = list(chars)

    def __repr__(self):
        return "sym%r" % (self.chars,)


class Sink:
    __slots__ = ("bytes", "flushes")

    def __init__(self):
        self.bytes, self.flushes = [], 0


def str_bytes(v):
    v = deref(v)
    while isinstance(v, (Ptr, BoxObj)):
        v = deref(v)
    if isinstance(v, SymStr):
        return list(v.chars)
    if isinstance(v, RStr) and v.text is not None:
        return list(v.text.encode())
    if hasattr(v, "text") and isinstance(getattr(v, "text"), str):
        return list(v.text.encode())
    raise Unsupported("Display of %r" % (v,))


def _turbofish(raw, name):
    i = raw.rfind(name + "::<")
    return raw[i + len(name) + 3: raw.rfind(">")] if i >= 0 else "?"


@model("Argument::new_display", "Argument::new_debug", "Argument::new_lower_hex", "Argument::new_octal")
def _argument(m, args, raw):
    kind = re.search(r"::new_(\w+)", raw).group(1)
    return Struct("FmtArgument", [kind, _turbofish(raw, "new_" + kind), args[0]])


@model("Argument::from_usize")
def _argument_usize(m, args, raw):
    return Struct("FmtArgument", ["usize", "usize", args[0]])


@model("Arguments::new")
def _arguments_new(m, args, raw):
    tmpl = args[0]
    items, a, b = as_list(tmpl)
    argv, x, y = as_list(args[1])
    return Struct("FmtArguments", [list(items[a:b]), list(argv[x:y])])


@model("Arguments::from_str")
def _arguments_from_str(m, args, raw):
    return Struct("FmtArguments", [None, str_bytes(args[0])])


def find_sink(v):
    seen = 0
    while not isinstance(v, Sink) and seen < 8:
        seen += 1
        if isinstance(v, (Ptr, BoxObj)):
            v = deref(v)
        elif isinstance(v, Struct) and v.ty in ("Formatter", "RefGuard", "Cell") and v.fields:
            v = v.fields[0]
        else:
            break
    return v if isinstance(v, Sink) else None


def render(m, sink, fa):
    """core::fmt::write"""
    fa = deref(fa)
    if not isinstance(fa, Struct) or fa.ty != "FmtArguments":
        raise Unsupported("write_fmt of %r" % (fa,))
    tmpl, argv = fa.fields
    if tmpl is None:
        sink.bytes.extend(argv)
        return
    i, nxt = 0, 0
    while True:
        n = tmpl[i]; i += 1
        if n == 0:
            return
        if n < 0x80:
            sink.bytes.extend(tmpl[i:i + n]); i += n
        elif n == 0x80:
            ln = tmpl[i] | (tmpl[i + 1] << 8); i += 2
            sink.bytes.extend(tmpl[i:i + ln]); i += ln
        elif n == 0xC0:
            render_arg(m, sink, argv[nxt]); nxt += 1
        else:
            # placeholder with options: flags (u32), width (u16), precision (u16), arg_index (u16), each if its bit is set
            flags, width, prec, has_width = 0x20 | (3 << 29), 0, None, False
            if n & 1:
                flags = tmpl[i] | (tmpl[i + 1] << 8) | (tmpl[i + 2] << 16) | (tmpl[i + 3] << 24); i += 4
            if n & 2:
                width = tmpl[i] | (tmpl[i + 1] << 8); i += 2; has_width = True
            if n & 4:
                raise Unsupported("format precision")
            if n & 8:
                nxt = tmpl[i] | (tmpl[i + 1] << 8); i += 2
            if n & 16:
                wa = argv[width]
                if wa.fields[0] != "usize" or not isinstance(deref(wa.fields[2]), int):
                    raise Unsupported("dynamic width %r" % (wa,))
                width = deref(wa.fields[2])
                if width > 0xFFFF:
                    raise interp.RustPanic("Formatting argument out of range")
            if n & 32:
                raise Unsupported("dynamic precision")
            if flags & ((1 << 21) | (1 << 22) | (1 << 23) | (1 << 24) | (1 << 25) | (1 << 26) | (1 << 28)):
                raise Unsupported("format flags %#x" % flags)
            render_arg(m, sink, argv[nxt], (flags, width if (flags & (1 << 27)) else 0)); nxt += 1


def pad(sink, content, opts):
    """Formatter::pad for a string: minimum width in chars, fill and alignment from the flags (default for str: left)"""
    flags, width = opts
    if any(not isinstance(b, int) and False for b in content):
        pass
    conc = bytes(b for b in content if isinstance(b, int))
    nchars = len(conc.decode("utf-8", errors="replace")) + sum(1 for b in content if not isinstance(b, int))   # symbolic bytes are ASCII
    if nchars >= width:
        sink.bytes.extend(content)
        return
    fill = list(chr(flags & 0x1FFFFF).encode())
    align = (flags >> 29) & 3
    total = width - nchars
    left = {0: 0, 1: total, 2: total // 2, 3: 0}[align]
    sink.bytes.extend(fill * left)
    sink.bytes.extend(content)
    sink.bytes.extend(fill * (total - left))


def render_arg(m, sink, arg, opts=None):
    kind, ty, val = arg.fields
    if kind != "display":
        raise Unsupported("format trait %s for %s" % (kind, ty))
    base = re.sub(r"<.*", "", ty.replace("&", "").replace("'_ ", "").strip())
    if base in ("Cow", "str", "String", "std::string::String", "std::borrow::Cow"):
        if opts is None:
            sink.bytes.extend(str_bytes(val))
        else:
            pad(sink, str_bytes(val), opts)
        return
    if opts is not None:
        raise Unsupported("format options for " + ty)
    key = "<%s as Display>::fmt" % base.split("::")[-1]
    if key in m.index:
        r = m.call(key, [val, Struct("Formatter", [sink])])
        if getattr(r, "variant", "Ok") != "Ok":
            raise Unsupported("Display::fmt returned an error")
        return
    raise Unsupported("Display for " + ty)


@model("^<impl Write as Write>::write_fmt$", "Formatter::write_fmt", "^<.* as Write>::write_fmt$", "Write::write_fmt")
def _write_fmt(m, args, raw):
    sink = find_sink(args[0])
    if sink is None:
        return Ok(UNIT)                 # diagnostics to stderr etc.: not the subject
    render(m, sink, args[1])
    return Ok(UNIT)


@model("^<.* as Write>::write_all$", "Write::write_all")
def _write_all(m, args, raw):
    """io::Write::write_all on the recording sink: the bytes of the slice, in order (other writers: diagnostics, not the subject)"""
    sink = find_sink(args[0])
    if sink is not None:
        from models import as_list
        items, a, b = as_list(args[1])
        sink.bytes.extend(items[a:b])
    return Ok(UNIT)


@model("Formatter::write_str")
def _write_str(m, args, raw):
    sink = find_sink(args[0])
    if sink is not None:
        sink.bytes.extend(str_bytes(args[1]))
    return Ok(UNIT)


@model("^<impl Write as Write>::flush$", "^<.* as Write>::flush$", "Write::flush")
def _flush(m, args, raw):
    sink = find_sink(args[0])
    if sink is not None:
        sink.flushes += 1
    return Ok(UNIT)


@model("format", "fmt::format")
def _format(m, args, raw):
    """alloc::fmt::format: the String core::fmt::write produces. Where an argument has no Display model (diagnostics built from errors etc.) the
    result stays opaque, as before - nothing that matters to a check may then depend on it (text_of refuses an opaque value)."""
    fa = deref(args[0])
    if not isinstance(fa, Struct) or fa.ty != "FmtArguments":
        return Opaque("fmt")
    sink = Sink()
    try:
        render(m, sink, fa)
    except Unsupported:
        return Opaque("fmt")
    if all(isinstance(b, int) for b in sink.bytes):
        try:
            return RStr(bytes(sink.bytes).decode())
        except UnicodeDecodeError:
            return Opaque("fmt")
    return SymStr(sink.bytes)
