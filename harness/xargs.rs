// harnesses for module xargs (included into /repo under cfg(kani))
