#!/usr/bin/env python3
"""C13 (-perm operand): PermMatcher::new -> split_comparison_type + parse_mode from MIR on a vocabulary of octal and symbolic
operands; uucore::mode::{parse_numeric, parse_symbolic} are Python ports of uucore 0.0.30's source and receive exactly the
arguments the code passes (start mode, text, umask, for_dir); get_umask(), should the code ask for it, answers 022.
Reference: an independent evaluation of the operand as chmod would apply it to mode 0 with umask 0 (which is how find reads
-perm): the comparison kind (exact / all of '-' / any of '/') and the twelve-bit pattern must agree, malformed operands are
rejected; then ComparisonType::mode_bits_match is run from MIR against every file mode of a small set."""
import json, os, re, sys, time, z3
import loader, models, interp
from interp import Machine, SliceRef, RStr, Ptr, Struct, Enum, Opaque, BoxObj, VecObj, Unsupported, RustPanic, PathAbort, UNIT
from models import Some, NONE, Ok, Err, deref
import c16_printf

OPERANDS = ["644", "0644", "-644", "/222", "7777", "-7777", "000", "-000", "/000", "u=rw,go=r", "-u+w", "/a+x", "-+w", "+x", "=rw", "-=rwx", "/+w", "g=u", "u+s", "+t", "a=",
            "-g-w", "u=rwx,g=rx,o=", "888", "u+", "x", "", "u=rw,", "-", "/", "a+X", "ug+rw", "o=g", "77777",
            # clauses that depend on an earlier clause of the same operand
            "-a=rwx,o-w", "a=r,u=w", "u=rw,g=u", "a=rw,a-w", "/u=rwx,u-x", "u=r,g=u,u+w"]
FILE_MODES = [0o0, 0o644, 0o600, 0o666, 0o755, 0o4755, 0o2070, 0o1777, 0o7777, 0o200, 0o020, 0o002, 0o111]


# ---- ports of uucore::mode (features/mode.rs)
def parse_levels(mode):
    mask, pos = 0, 0
    for ch in mode:
        if ch == "u": mask |= 0o4700
        elif ch == "g": mask |= 0o2070
        elif ch == "o": mask |= 0o1007
        elif ch == "a": mask |= 0o7777
        else: break
        pos += 1
    if pos == 0:
        mask = 0o7777
    return mask, pos


def parse_change(mode, fperm, considering_dir):
    srwx, pos = 0, 0
    for ch in mode:
        if ch == "r": srwx |= 0o444
        elif ch == "w": srwx |= 0o222
        elif ch == "x": srwx |= 0o111
        elif ch == "X":
            if considering_dir or (fperm & 0o111) != 0: srwx |= 0o111
        elif ch == "s": srwx |= 0o6000
        elif ch == "t": srwx |= 0o1000
        elif ch == "u": srwx = (fperm & 0o700) | ((fperm >> 3) & 0o070) | ((fperm >> 6) & 0o007)
        elif ch == "g": srwx = ((fperm << 3) & 0o700) | (fperm & 0o070) | ((fperm >> 3) & 0o007)
        elif ch == "o": srwx = ((fperm << 6) & 0o700) | ((fperm << 3) & 0o070) | (fperm & 0o007)
        else: break
        if ch in "ugo":
            if pos != 0: break
            pos = 1
            break
        pos += 1
    if pos == 0:
        srwx = 0
    return srwx, pos


def uucore_parse_symbolic(fperm, mode, umask, considering_dir):
    mask, pos = parse_levels(mode)
    if pos == len(mode):
        return None
    respect_umask = pos == 0
    mode = mode[pos:]
    while mode:
        if mode[0] not in "+-=":
            return None
        op, mode = mode[0], mode[1:]
        srwx, pos = parse_change(mode, fperm, considering_dir)
        if respect_umask:
            srwx &= ~umask
        mode = mode[pos:]
        if op == "+": fperm |= srwx & mask
        elif op == "-": fperm &= ~(srwx & mask)
        else:
            if considering_dir: srwx |= fperm & 0o6000
            fperm = (fperm & ~mask) | (srwx & mask)
    return fperm & 0xFFFFFFFF


def uucore_parse_numeric(fperm, mode, considering_dir):
    op, pos = (mode[0], 1) if mode[:1] in ("+", "-", "=") else (None, 0)
    mode = mode[pos:].strip()
    if mode == "":
        change = 0
    else:
        if not re.fullmatch(r"\+?[0-7]+", mode) or len(mode) > 20:
            return None
        change = int(mode, 8)
        if change >= 2 ** 32:
            return None
    if change > 0o7777:
        return None
    if op == "+": return fperm | change
    if op == "-": return fperm & ~change
    if op is None and considering_dir and len(mode) < 5: return change | (fperm & 0o6000)
    return change


# ---- reference: the operand read as chmod would apply it to 0, umask 0 (written independently of the port above)
def ref_perm(operand):
    """-> (kind, pattern) or None if malformed"""
    kind = "Exact"
    if operand[:1] == "-": kind, operand = "AtLeast", operand[1:]
    elif operand[:1] == "/": kind, operand = "AnyOf", operand[1:]
    if any(c.isdigit() for c in operand):
        if not re.fullmatch(r"[0-7]{1,4}|0+[0-7]{0,4}", operand) or int(operand, 8) > 0o7777:
            return None
        return kind, int(operand, 8)
    if operand == "":
        return None
    mode = 0
    for clause in operand.split(","):
        mo = re.fullmatch(r"([ugoa]*)((?:[+=-](?:[rwxXst]*|[ugo]))+)", clause)
        if not mo:
            return None
        who = mo.group(1)
        mask = 0
        for w in who or "a":
            mask |= {"u": 0o4700, "g": 0o2070, "o": 0o1007, "a": 0o7777}[w]
        for op, perms in re.findall(r"([+=-])([ugo]|[rwxXst]*)", mo.group(2)):       # the copy form first: an empty permission list would match in front of it
            if perms in ("u", "g", "o"):
                src = {"u": (mode >> 6) & 7, "g": (mode >> 3) & 7, "o": mode & 7}[perms]
                bits = src * 0o111
            else:
                bits = 0
                for c in perms:
                    bits |= {"r": 0o444, "w": 0o222, "x": 0o111, "X": 0o111 if (mode & 0o111) else 0, "s": 0o6000, "t": 0o1000}[c]
            if op == "+": mode |= bits & mask
            elif op == "-": mode &= ~(bits & mask)
            else: mode = (mode & ~mask) | (bits & mask)
    return kind, mode & 0o7777


def ref_match(kind, pattern, value):
    value &= 0o7777
    return {"Exact": value == pattern, "AtLeast": (value & pattern) == pattern, "AnyOf": pattern == 0 or (value & pattern) != 0}[kind]


def explore(funcs, index, enums):
    res = {"kind": "-perm operands", "paths": 0, "checks": 0, "violations": [], "unsupported": {}, "samples": []}
    w = z3.Int("operand")
    t_ = c16_printf._t

    def closure(m, raw, cargs):
        found = re.findall(r"\{closure@[^}]*\}", raw)
        return m.run(m.index[found[-1]], cargs)

    def contains(m, args, raw):
        s = t_(args[0])
        if "{closure@" in raw:
            return any(closure(m, raw, [Ptr([args[1]], 0), ord(c)]) for c in s)
        return t_(args[1]) in s
    models.EXACT["str::contains"] = contains
    nat = c16_printf.str_natives()
    c16_printf.with_closures(nat)
    nat.update({
        "Chars::as_str": lambda m, a: RStr("".join(chr(c) for c in deref(a[0]).fields[0][deref(a[0]).fields[1]:])),
        "str::split": lambda m, a: Struct("SplitV", [[RStr(x) for x in t_(a[0]).split(chr(a[1]) if isinstance(a[1], int) else t_(a[1]))], 0]),
        "<Split as IntoIterator>::into_iter": lambda m, a: a[0],
        "<Split as Iterator>::next": lambda m, a: (lambda it: NONE() if it.fields[1] >= len(it.fields[0]) else (it.fields.__setitem__(1, it.fields[1] + 1), Some(it.fields[0][it.fields[1] - 1]))[1])(deref(a[0])),
        "parse_numeric": lambda m, a: (lambda r: Ok(r) if r is not None else Err(RStr("invalid mode")))(uucore_parse_numeric(a[0], t_(a[1]), a[2])),
        "parse_symbolic": lambda m, a: (lambda r: Ok(r) if r is not None else Err(RStr("invalid mode")))(uucore_parse_symbolic(a[0], t_(a[1]), a[2], a[3])),
        "mode::parse_numeric": None, "get_umask": lambda m, a: 0o022, "mode::get_umask": lambda m, a: 0o022,
        "<Box<dyn Error> as From<String>>::from": lambda m, a: Opaque("error"),
    })
    nat = {k: v for k, v in nat.items() if v is not None}
    m = Machine(funcs, index, enums, models, natives=nat, max_steps=2000000)
    m.base_constraints = [w >= 0, w < len(OPERANDS)]
    m.pending = [[]]
    t0 = time.time()
    while m.pending:
        m.reset_path(m.pending.pop())
        try:
            i = m.decide_int(w, list(range(len(OPERANDS) - 1))); i = len(OPERANDS) - 1 if i is None else i
            operand = OPERANDS[i]
            r = m.call("PermMatcher::new", [RStr(operand)])
            got = None
            matches = {}
            if r.variant == "Ok":
                pm = r.fields[0]
                got = (pm.fields[0].variant, pm.fields[1], pm.fields[2])
                for fm in FILE_MODES:
                    matches[fm] = m.call("ComparisonType::mode_bits_match", [pm.fields[0], pm.fields[1], fm | 0o100000])
        except RustPanic as e:
            res["violations"].append({"what": "panic on -perm %r: %s" % (OPERANDS[i], str(e)[:80])}); res["paths"] += 1
            continue
        except Unsupported as e:
            res["unsupported"][str(e)[:100]] = res["unsupported"].get(str(e)[:100], 0) + 1
            continue
        except PathAbort:
            continue
        res["paths"] += 1
        res["checks"] += 1
        want = ref_perm(operand)
        if want is None:
            if got is not None:
                res["violations"].append({"what": "-perm %r accepted as %s %04o, the reference rejects it" % (operand, got[0], got[1])})
        elif got is None:
            res["violations"].append({"what": "-perm %r rejected, the reference reads it as %s %04o" % (operand, want[0], want[1])})
        else:
            if (got[0], got[1] & 0o7777) != want or got[1] != got[2]:
                res["violations"].append({"what": "-perm %r read as %s %04o (directories: %04o), the reference says %s %04o" % (operand, got[0], got[1], got[2], want[0], want[1])})
            else:
                for fm, v in matches.items():
                    res["checks"] += 1
                    if bool(v) != ref_match(want[0], want[1], fm):
                        res["violations"].append({"what": "-perm %r on a file of mode %04o: %s, the reference says %s" % (operand, fm, bool(v), ref_match(want[0], want[1], fm))})
        if len(res["samples"]) < 3 and got and "," in operand:
            res["samples"].append({"operand": operand, "read_as": "%s %04o" % (got[0], got[1])})
    res["wall_s"] = round(time.time() - t0, 2)
    res["solver_calls"] = m.stats["solver_calls"]
    res["functions_executed"] = sorted(m.executed)
    return res


if __name__ == "__main__":
    funcs, index, enums, secs, _ = loader.load(os.environ.get("FINDUTILS_REPO", "/repo"), None)
    r = explore(funcs, index, enums)
    v = r.pop("violations")
    print(json.dumps({k: r[k] for k in ("kind", "paths", "checks", "solver_calls", "wall_s", "unsupported", "samples")})[:900])
    print(len(v), "violations")
    for x in v[:15]:
        print("  ", x["what"])
