// harnesses for module m_delete (included into /repo under cfg(kani))
