// harnesses for module m_fs (included into /repo under cfg(kani))
