// C13: -type / -xtype use the right status record; C11: their operand parser is total.
use super::*;
use crate::find::matchers::entry::verif_kani::*;

pub fn ft_of(mode: u32) -> FileType {
    match mode & libc::S_IFMT {
        libc::S_IFDIR => FileType::Directory,
        libc::S_IFREG => FileType::Regular,
        libc::S_IFLNK => FileType::Symlink,
        libc::S_IFIFO => FileType::Fifo,
        libc::S_IFCHR => FileType::CharDevice,
        libc::S_IFBLK => FileType::BlockDevice,
        libc::S_IFSOCK => FileType::Socket,
        _ => FileType::Unknown,
    }
}
fn any_ft() -> FileType {
    match kani::any::<u8>() % 7 { 0 => FileType::Directory, 1 => FileType::Regular, 2 => FileType::Symlink, 3 => FileType::Fifo, 4 => FileType::CharDevice, 5 => FileType::BlockDevice, _ => FileType::Socket }
}

// @harness props=C13 tier=quick cost=200 flags=nomem
// @exec TypeMatcher::matches, XtypeMatcher::matches, WalkEntry::{file_type,metadata,follow}, Follow::{metadata,metadata_at_depth,follow_at_depth}, WalkError::{is_not_found,is_loop}
// @sym world (lstat/stat records of every file type, stat errno {ENOENT, ELOOP}), follow P/H/L, depth 0..2, wanted type (7 letters)
// @bounds one path; depth <= 2
// @assume kernel contract for stat vs lstat
/// -type tests the record the follow mode selects (dangling link: the link); -xtype makes the opposite choice; ELOOP matches -xtype l.
#[kani::proof]
#[kani::unwind(3)]
#[kani::stub(alloc::fmt::format, fmt_stub)]
#[kani::stub(std::fs::metadata, stat_stub)]
#[kani::stub(std::fs::symlink_metadata, lstat_stub)]
fn c13_type_xtype_record() {
    let (lst, sst, s_ok, s_err) = any_world(&[libc::ENOENT, libc::ELOOP]);
    let follow = any_follow();
    let depth: usize = kani::any();
    kani::assume(depth <= 2);
    let entry = WalkEntry::new("a", depth, follow);
    let want_ft = any_ft();
    let deps = Deps::new();
    let mut io = MatcherIO::new(&deps);
    let follows = follow.follow_at_depth(depth);
    // -type
    let got_type = TypeMatcher { file_type: want_ft }.matches(&entry, &mut io);
    match selected_record(lst, sst, s_ok, s_err, follows) {
        Some(rec) => assert!(got_type == (ft_of(rec.st_mode) == want_ft)),
        None => assert!(!got_type), // stat failed with a real error: type unknown, never one of the seven letters
    }
    // -xtype: the opposite choice
    let got_x = XtypeMatcher { file_type: want_ft }.matches(&entry, &mut io);
    let want_x = if follows { ft_of(lst.st_mode) == want_ft }
        else if s_ok { ft_of(sst.st_mode) == want_ft }
        else if s_err == libc::ENOENT { ft_of(lst.st_mode) == want_ft }
        else { want_ft == FileType::Symlink };
    assert!(got_x == want_x);
    kani::cover!(got_type && follows && is_type(lst.st_mode, libc::S_IFLNK) && s_ok);
    kani::cover!(got_x && !follows && !s_ok && s_err == libc::ELOOP);
    kani::cover!(got_type && want_ft == FileType::Symlink && follows && !s_ok);
    std::mem::forget(entry);
}
#[kani::proof]
#[kani::unwind(3)]
#[kani::stub(alloc::fmt::format, fmt_stub)]
#[kani::stub(std::fs::metadata, stat_stub)]
#[kani::stub(std::fs::symlink_metadata, lstat_stub)]
fn c13_type_xtype_record_canary() {
    let (lst, _sst, _s_ok, _s_err) = any_world(&[libc::ENOENT]);
    let entry = WalkEntry::new("a", 0, any_follow());
    let want_ft = any_ft();
    let deps = Deps::new();
    let mut io = MatcherIO::new(&deps);
    let got_type = TypeMatcher { file_type: want_ft }.matches(&entry, &mut io);
    assert!(got_type == (ft_of(lst.st_mode) == want_ft)); // always lstat: must FAIL
    std::mem::forget(entry);
}

// @harness props=C11,C13 tier=quick cost=5
// @exec TypeMatcher::new, XtypeMatcher::new, type_matcher::parse
// @sym operand of 1 or 2 symbolic ASCII bytes
// @bounds operand length <= 2
/// -type/-xtype accept exactly the single letters f d l b c p s; every other operand is rejected without panic.
#[kani::proof]
#[kani::unwind(4)]
#[kani::stub(alloc::fmt::format, fmt_stub)]
#[kani::stub(alloc::raw_vec::handle_error, he_stub)]
#[kani::stub(std::alloc::handle_alloc_error, hae_stub)]
fn c11_type_operand() {
    let b: [u8; 2] = kani::any();
    kani::assume(b[0] < 0x80 && b[1] < 0x80);
    let len: usize = if kani::any() { 1 } else { 2 };
    let s = unsafe { std::str::from_utf8_unchecked(&b[..len]) };
    let ok = len == 1 && (b[0] == b'f' || b[0] == b'd' || b[0] == b'l' || b[0] == b'b' || b[0] == b'c' || b[0] == b'p' || b[0] == b's');
    if kani::any() {
        let r = TypeMatcher::new(s);
        assert!(r.is_ok() == ok);
        if let Ok(m) = &r { assert!(m.file_type == match b[0] { b'f' => FileType::Regular, b'd' => FileType::Directory, b'l' => FileType::Symlink, b'b' => FileType::BlockDevice, b'c' => FileType::CharDevice, b'p' => FileType::Fifo, _ => FileType::Socket }); }
        kani::cover!(r.is_ok());
        kani::cover!(r.is_err() && len == 1);
        std::mem::forget(r);
    } else {
        let r = XtypeMatcher::new(s);
        assert!(r.is_ok() == ok);
        std::mem::forget(r);
    }
}
#[kani::proof]
#[kani::unwind(4)]
#[kani::stub(alloc::fmt::format, fmt_stub)]
#[kani::stub(alloc::raw_vec::handle_error, he_stub)]
#[kani::stub(std::alloc::handle_alloc_error, hae_stub)]
fn c11_type_operand_canary() {
    let b: [u8; 1] = kani::any();
    kani::assume(b[0] < 0x80);
    let s = unsafe { std::str::from_utf8_unchecked(&b[..]) };
    let r = TypeMatcher::new(s);
    assert!(r.is_ok() == (b[0] == b'f' || b[0] == b'd')); // too narrow: must FAIL
    std::mem::forget(r);
}
