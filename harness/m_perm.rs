// harnesses for module m_perm (included into /repo under cfg(kani))
