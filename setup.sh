#!/bin/bash
# Offline setup: warm one cargo-kani target directory (dependencies compiled once) and clone it for the worker slots.
set -e
export CARGO_NET_OFFLINE=true FINDUTILS_VERIF_DIR="$(cd "$(dirname "$0")" && pwd)"
CACHE="${FINDUTILS_VERIF_CACHE:-/root/.cache/findutils-verif}"
REPO="${FINDUTILS_REPO:-/repo}"
mkdir -p "$CACHE"
cd "$REPO"
if [ ! -d "$CACHE/slot00/kani" ]; then
  cargo kani -Z stubbing --target-dir "$CACHE/slot00" --harness find::matchers::entry::verif_kani::metadata_layout_selfcheck --exact > "$CACHE/setup.log" 2>&1 \
    || { tail -30 "$CACHE/setup.log"; echo "setup: cargo kani failed"; exit 1; }
fi
grep -q "VERIFICATION:- SUCCESSFUL" "$CACHE/setup.log" || { echo "setup: selfcheck harness did not verify"; exit 1; }
for k in 01 02 03 04 05 06 07; do
  [ -d "$CACHE/slot$k/kani" ] || cp -a "$CACHE/slot00" "$CACHE/slot$k"
done
# native binaries for the replayers
cargo build --offline --quiet 2>/dev/null || true
echo "setup ok"
