#!/usr/bin/env python3
"""Entry point used by check.py: run the MIR-level symbolic checks of one property, write a JSON summary.
usage: run.py <PROPERTY> <tier> <out.json>"""
import json, os, sys, time
sys.path.insert(0, os.path.dirname(os.path.abspath(__file__)))
import loader, c01_parser

BOUNDS = {"quick": [1, 2, 3], "thorough": [1, 2, 3, 4]}
# quick also explores 4 tokens over a reduced vocabulary (one representative per kind of primary)
SMALL_VOCAB = ["-true", "-print", "-quit", "-empty", "!", "-a", "-o", ",", "(", ")"]


def main():
    prop, tier, out = sys.argv[1], sys.argv[2], sys.argv[3]
    t0 = time.time()
    funcs, index, enums, dump_s, text = loader.load()
    res = {"engine": "mirsym: path-exploring symbolic execution of rustc MIR (cargo +nightly rustc -Zunpretty=mir) with z3 %s" % __import__("z3").get_version_string(),
           "mir_dump_s": round(dump_s, 1), "mir_lines": text.count("\n"), "runs": [], "violations": [], "unsupported": {}}
    execd = set()
    for n in BOUNDS[tier]:
        r = c01_parser.explore(n, funcs, index, enums)
        execd.update(r.pop("functions_executed"))
        for v in r.pop("violations"):
            v["n"] = n
            res["violations"].append(v)
        for k, c in r.pop("unsupported").items():
            res["unsupported"][k] = res["unsupported"].get(k, 0) + c
        r["tokens"] = n
        res["runs"].append(r)
    if tier == "quick":
        r = c01_parser.explore(4, funcs, index, enums, vocab=SMALL_VOCAB)
        execd.update(r.pop("functions_executed"))
        for v in r.pop("violations"):
            v["n"] = 4
            res["violations"].append(v)
        for k, c in r.pop("unsupported").items():
            res["unsupported"][k] = res["unsupported"].get(k, 0) + c
        r["tokens"] = 4
        r["vocabulary"] = SMALL_VOCAB
        res["runs"].append(r)
    res["functions_executed"] = sorted(execd)
    res["vocabulary"] = c01_parser.VOCAB
    res["wall_s"] = round(time.time() - t0, 1)
    json.dump(res, open(out, "w"), indent=1)
    print("mirsym %s %s: %d paths, %d sentences, %d violations, %.0fs" % (prop, tier, sum(r["paths"] for r in res["runs"]),
          sum(r["sentences_checked"] for r in res["runs"]), len(res["violations"]), res["wall_s"]))


if __name__ == "__main__":
    main()
