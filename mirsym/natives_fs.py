"""Natives for the file-system side: std::path on concrete text, RefCell/OnceCell, a scripted walkdir, argmax::Command and
std::process::Command as recorders.  Paths, OsStrings and Strings are concrete text here (class PStr); what is symbolic in
the harnesses that use this module are verdicts (fits / does not fit), child outcomes, templates and expression flags."""
import posixpath, re, z3
import models
from models import model, deref, Some, NONE, Ok, Err, as_list
from interp import (BoxObj, Enum, Opaque, Ptr, RStr, RustPanic, SliceRef, Struct, Tuple, UNIT, Unsupported, VecObj)


class PStr:
    """concrete OS string / path / string"""
    __slots__ = ("text",)

    def __init__(self, text):
        self.text = text

    def __eq__(self, o):
        return isinstance(o, PStr) and o.text == self.text

    def __hash__(self):
        return hash(self.text)

    def __repr__(self):
        return "p%r" % self.text


def text_of(m, v):
    v = deref(v)
    if isinstance(v, PStr):
        return v.text
    if isinstance(v, RStr):
        if v.sym is not None:
            idx = m.decide_int(v.sym, list(range(len(v.vocab))))
            return v.vocab[idx]
        return v.text
    if isinstance(v, BoxObj):
        return text_of(m, v.cell[0])
    raise Unsupported("text of %r" % (v,))


# ----------------------------------------------------------------------------------------------- std::path (documented behaviour, on text)
@model("Path::new", "PathBuf::as_path", "<PathBuf as Deref>::deref", "Path::to_path_buf", "Path::as_os_str", "^<&Path as Into(<.*>)?>::into$",
       "^<OsString as From(<.*>)?>::from$", "<OsString as Deref>::deref", "OsString::as_os_str", "<String as Deref>::deref", "OsStr::new",
       "<PathBuf as AsRef>::as_ref", "PathBuf::from", "<str as ToString>::to_string", "<&String as AsRef>::as_ref", "^<PathBuf as From(<.*>)?>::from$")
def _as_path(m, args, raw):
    return PStr(text_of(m, args[0]))


def components(t):
    """std::path::Components on unix text: root marker + normal components ('.' only kept in first position)"""
    root = t.startswith("/")
    parts = [c for c in t.split("/") if c != ""]
    comps = []
    for i, c in enumerate(parts):
        if c == "." and (i > 0 or root):
            continue
        comps.append(c)
    return root, comps


@model("Path::file_name")
def _file_name(m, args, raw):
    root, comps = components(text_of(m, args[0]))
    if not comps or comps[-1] in ("..", "."):
        return NONE()
    return Some(PStr(comps[-1]))


@model("Path::parent")
def _parent(m, args, raw):
    t = text_of(m, args[0])
    root, comps = components(t)
    if not comps:
        return NONE()        # "" and "/" have no parent
    rest = comps[:-1]
    return Some(PStr(("/" if root else "") + "/".join(rest)))


@model("Path::join")
def _join(m, args, raw):
    a, b = text_of(m, args[0]), text_of(m, args[1])
    if b.startswith("/"):
        return PStr(b)
    if a == "" or a.endswith("/"):
        return PStr(a + b)
    return PStr(a + "/" + b)


@model("^<&Path as PartialEq>::eq$", "^<PathBuf as PartialEq>::eq$")
def _path_eq(m, args, raw):
    return components(text_of(m, args[0])) == components(text_of(m, args[1]))


@model("^<Option<PathBuf> as PartialEq>::(eq|ne)$")
def _opt_path_cmp(m, args, raw):
    a, b = deref(args[0]), deref(args[1])
    eq = a.variant == b.variant and (a.variant == "None" or components(a.fields[0].text) == components(b.fields[0].text))
    return eq if raw.endswith("eq") else not eq


@model("Path::display")
def _display(m, args, raw):
    return Opaque("lossy")


@model("Path::to_string_lossy", "OsStr::to_string_lossy")
def _lossy(m, args, raw):
    """bytes that are not UTF-8 are carried as lone surrogates (Python's surrogateescape); the lossy conversion replaces each by U+FFFD"""
    t = text_of(m, args[0])
    return PStr("".join("\ufffd" if 0xDC80 <= ord(c) <= 0xDCFF else c for c in t))


@model("<Cow as AsRef>::as_ref", "<Cow as Deref>::deref", "Cow::into_owned", "<String as AsRef>::as_ref", "<str as AsRef>::as_ref")
def _cow_text(m, args, raw):
    return PStr(text_of(m, args[0]))


@model("slice::join")
def _slice_join(m, args, raw):
    items, a, b = as_list(args[0])
    sep = text_of(m, args[1])
    return PStr(sep.join(text_of(m, x) for x in items[a:b]))


@model("str::split")
def _str_split(m, args, raw):
    s, pat = text_of(m, args[0]), text_of(m, args[1])
    return Struct("SplitIter", [[RStr(x) for x in s.split(pat)]])


@model("<Split as Iterator>::collect")
def _split_collect(m, args, raw):
    return VecObj(list(deref(args[0]).fields[0]))


# ----------------------------------------------------------------------------------------------- cells
@model("RefCell::new", "OnceCell::new", "^<Result<.*> as Into(<.*>)?>::into$")
def _cell_new(m, args, raw):
    return Struct("Cell", [args[0] if args else NONE()])


@model("RefCell::borrow_mut", "RefCell::borrow")
def _borrow(m, args, raw):
    return Struct("RefGuard", [Ptr(deref(args[0]).fields, 0)])


@model("<RefMut as DerefMut>::deref_mut", "<RefMut as Deref>::deref", "<Ref as Deref>::deref")
def _guard_deref(m, args, raw):
    return deref(args[0]).fields[0]


@model("Option::get_or_insert_with")
def _get_or_insert_with(m, args, raw):
    p = args[0]
    if p.load().variant == "None":
        mc = re.search(r"\{closure@[^}]*\}", raw)
        fn = m.index.get(mc.group(0)) if mc else None
        if fn is None:
            raise Unsupported("closure of get_or_insert_with")
        p.store(Some(m.run(fn, [args[1]])))
    return Ptr(p.load().fields, 0)


@model("Option::map", "Result::map_err", "Result::map")
def _opt_map(m, args, raw):
    v = args[0]
    apply_on = {"Option::map": "Some", "Result::map": "Ok", "Result::map_err": "Err"}[models_key(raw)]
    if v.variant != apply_on:
        return v
    mc = re.search(r"\{closure@[^}]*\}", raw)
    if mc:
        fn = m.index.get(mc.group(0))
        out = m.run(fn, [args[1], v.fields[0]])
    else:
        mf = re.search(r"\{([^{}]+)\}>$", raw)
        out = m.call(mf.group(1), [v.fields[0]])
    return Enum(v.ty, v.variant, [out])


def models_key(raw):
    import interp
    return interp.normalize_callee(raw)


# ----------------------------------------------------------------------------------------------- diagnostics
@model("stderr", "stdout")
def _stderr(m, args, raw):
    return Opaque("stderr")


@model("^<Stderr as Write>::write_fmt$", "^<Stdout as Write>::write_fmt$", "_eprint", "_print")
def _write_fmt(m, args, raw):
    return Ok(UNIT) if "write_fmt" in raw else UNIT


@model("ExitStatus::success")
def _status_success(m, args, raw):
    v = deref(args[0])
    return v.fields[0] == 0 if isinstance(v.fields[0], int) else v.fields[0] == 0


@model("OnceCell::get_or_init", "OnceLock::get_or_init")
def _once_get_or_init(m, args, raw):
    """std's contract: the initialiser runs at the first call only; later calls return the stored value"""
    cell = deref(args[0])
    if cell.fields[0].variant == "None":
        mc = re.search(r"\{closure@[^}]*\}", raw)
        if mc:
            fn = m.index.get(mc.group(0))
            if fn is None:
                raise Unsupported("closure of get_or_init")
            v = m.run(fn, [args[1]])
        else:
            mf = re.search(r"\{([^{}]+)\}>$", raw)
            if not mf:
                raise Unsupported("initialiser of get_or_init: " + raw)
            v = m.call(mf.group(1), [])
        cell.fields[0] = Some(v)
    return Ptr(cell.fields[0].fields, 0)
