#!/usr/bin/env python3
"""C07: find -print0 | xargs -0 on symbolic file names, the real code of both programs composed at MIR level.

find side:  process_dir + WalkEntry::from_walkdir + the matcher built by the real parser from `-print0` / `-print` / nothing +
            Printer::{matches,print} + PrintDelimiter's Display, over a scripted walkdir tree whose NAMES ARE SYMBOLIC BYTES.
            What is written goes through fmt_model (a port of core::fmt::write over the template rustc emitted).
xargs side: ByteDelimitedArgumentReader::next (delimiter NUL) reading exactly the bytes find wrote, process_input,
            CommandBuilderOptions::new, CommandBuilder::{new,add_arg,execute} with std::process::Command as a recorder.
Obligations (z3, per path): the bytes written are, per visited entry in order, the path (starting point as given, '/'-joined
names) followed by one NUL / newline and nothing else; the recorded argv is the command followed by exactly those paths, byte
for byte, each once, in order."""
import json, os, sys, time, z3
import loader, models, interp, natives_fs, c05_readers, fmt_model
from interp import Machine, SliceRef, RStr, Ptr, Struct, Enum, Opaque, BoxObj, VecObj, Tuple, Unsupported, RustPanic, PathAbort, UNIT
from models import model, Some, NONE, Ok, Err, deref, as_list
from natives_fs import PStr, text_of
from fmt_model import SymStr, Sink, str_bytes

STARTS = ["r", "./r/", "-r", "r x", ("sym", 1), ("sym", 2)]     # the last two: a starting point of 1 / 2 symbolic bytes
# shape of the tree below the starting point: (parent index or -1 for the starting point, length of the name)
SHAPES = {"flat1": [(-1, 1)], "flat2": [(-1, 2)], "two": [(-1, 1), (-1, 1)], "nested": [(-1, 1), (0, 1)], "nested21": [(-1, 2), (0, 1)], "three": [(-1, 1), (0, 2), (-1, 1)],
          "name3": [(-1, 3)]}
BIG_SHAPES = {"name6": [(-1, 6)], "deep": [(-1, 2), (0, 2), (1, 2), (2, 1)], "wide": [(-1, 1), (-1, 2), (-1, 3), (-1, 1), (-1, 2)],
              "mixed": [(-1, 3), (0, 1), (0, 4), (-1, 2), (3, 2), (-1, 1)]}
SHAPES_ALL = dict(SHAPES, **BIG_SHAPES)


def join(parent, name):
    """Path::join on byte lists (the name is relative and non-empty)"""
    if parent and parent[-1] == ord("/"):
        return parent + name
    return parent + [ord("/")] + name


def build_tree(start, shape, names):
    """-> pre-order list of (path bytes, depth, is_dir)"""
    root = list(start.encode()) if isinstance(start, str) else list(start)
    ents = [(root, 0, True)]
    paths = []
    for (par, _ln), nm in zip(shape, names):
        base, d = (root, 0) if par < 0 else (paths[par][0], paths[par][1])
        p = join(base, nm)
        paths.append((p, d + 1))
    isdir = [any(par == i for par, _ in shape) for i in range(len(shape))]
    # pre-order: a child list follows its parent directly (shapes are written that way)
    order = []

    def visit(i):
        order.append((paths[i][0], paths[i][1], isdir[i]))
        for j, (par, _) in enumerate(shape):
            if par == i:
                visit(j)
    for j, (par, _) in enumerate(shape):
        if par < 0:
            visit(j)
    return ents + order


def post_order(pre):
    out, stack = [], []
    for ent in pre:
        while stack and stack[-1][1] >= ent[1]:
            out.append(stack.pop())
        if ent[2]:
            stack.append(ent)
        else:
            out.append(ent)
    while stack:
        out.append(stack.pop())
    return out


def explore(shape_name, funcs, index, enums, mode="print0"):
    """mode: print0 (with the xargs -0 half), print (newline), default (no expression: implicit -print)"""
    shape = SHAPES_ALL[shape_name]
    res = {"kind": "%s/%s" % (mode, shape_name), "paths": 0, "checks": 0, "violations": [], "unsupported": {}, "samples": []}
    names = [[z3.Int("n%d_%d" % (i, j)) for j in range(ln)] for i, (_p, ln) in enumerate(shape)]
    start_i = z3.Int("start")
    depth_first = z3.Bool("depth_first")
    state = {}

    # ---- walkdir on the scripted tree
    def wd_new(m, args):
        r = deref(args[0])
        state["wd"] = {"root": r.chars if isinstance(r, SymStr) else text_of(m, args[0])}
        return Struct("WalkDir", [])

    def wd_opt(name):
        def f(m, args):
            state["wd"][name] = args[1]
            return args[0]
        return f

    def wd_into_iter(m, args):
        pre = build_tree(state["wd"]["root"], shape, names)
        state["order"] = post_order(pre) if state["wd"].get("contents_first", False) else pre
        state["pos"] = 0
        return Struct("WalkIter", [])

    def wd_next(m, args):
        i = state["pos"]
        if i >= len(state["order"]):
            return NONE()
        state["pos"] = i + 1
        p, d, isdir = state["order"][i]
        return Some(Ok(Struct("DirEntryV", [SymStr(p), d, isdir])))

    sym_path = lambda m, a: deref(a[0]) if isinstance(deref(a[0]), SymStr) else None

    def as_path(m, args):
        v = deref(args[0])
        while isinstance(v, (Ptr, BoxObj)):
            v = deref(v)
        if isinstance(v, Struct) and v.ty == "Bytes":
            return SymStr(v.fields[0])
        return v if isinstance(v, SymStr) else PStr(text_of(m, v))

    def chars_of(m, v):
        v = as_path(m, [v])
        return list(v.chars) if isinstance(v, SymStr) else list(v.text.encode())

    def str_replace(m, args):
        """str::replace(self, from, to) with a concrete self / from and a possibly symbolic 'to'"""
        text, pat = text_of(m, args[0]), text_of(m, args[1])
        to = chars_of(m, args[2])
        out, parts = [], text.split(pat) if pat else [text]
        for k, part in enumerate(parts):
            if k: out += to
            out += list(part.encode())
        return SymStr(out)

    def trim_start_matches(m, args):
        """str::trim_start_matches with a set of chars, on possibly symbolic bytes"""
        cs_ = chars_of(m, args[0])
        pat = deref(args[1])
        wanted = pat if isinstance(pat, list) else [pat]
        k = 0
        while k < len(cs_):
            c = cs_[k]
            hit = (c in wanted) if isinstance(c, int) else m.decide(z3.Or([interp._z(c) == w for w in wanted]))
            if not hit: break
            k += 1
        return SymStr(cs_[k:])

    def comps(chars):
        """std::path components of a byte list whose '/' are all concrete (names cannot contain '/')"""
        root = bool(chars) and isinstance(chars[0], int) and chars[0] == ord("/")
        parts, cur = [], []
        for c in chars:
            if isinstance(c, int) and c == ord("/"):
                parts.append(cur); cur = []
            else:
                cur.append(c)
        parts.append(cur)
        parts = [q for q in parts if q]
        out = []
        for i, q in enumerate(parts):
            if len(q) == 1 and isinstance(q[0], int) and q[0] == ord(".") and (i > 0 or root):
                continue
            out.append(q)
        return root, out

    def unsplit(root, parts):
        out = [ord("/")] if root else []
        for i, q in enumerate(parts):
            if i: out.append(ord("/"))
            out += q
        return out

    def path_parent(m, args):
        v = as_path(m, args)
        if not isinstance(v, SymStr):
            return natives_fs._parent(m, [v], "")
        root, parts = comps(v.chars)
        if not parts:
            return NONE()
        return Some(SymStr(unsplit(root, parts[:-1])))

    def opt_path_cmp(want_eq):
        def f(m, args):
            a, b = deref(args[0]), deref(args[1])
            if a.variant != b.variant:
                eq = False
            elif a.variant == "None":
                eq = True
            else:
                x, y = as_path(m, [a.fields[0]]), as_path(m, [b.fields[0]])
                cx = comps(x.chars if isinstance(x, SymStr) else list(x.text.encode()))
                cy = comps(y.chars if isinstance(y, SymStr) else list(y.text.encode()))
                if cx[0] != cy[0] or len(cx[1]) != len(cy[1]) or any(len(p) != len(q) for p, q in zip(cx[1], cy[1])):
                    eq = False
                else:
                    pairs = [(g, h) for p, q in zip(cx[1], cy[1]) for g, h in zip(p, q) if not (g is h or (isinstance(g, int) and isinstance(h, int) and g == h))]
                    if any(isinstance(g, int) and isinstance(h, int) for g, h in pairs):
                        eq = False
                    else:
                        eq = True if not pairs else m.decide(z3.And([interp._z(g) == interp._z(h) for g, h in pairs]))
            return eq if want_eq else not eq
        return f

    # ---- xargs side
    def read_until(m, args):
        d, out = args[1], deref(args[2])
        data = state["pipe"]
        cnt = 0
        while state["rpos"] < len(data):
            b = data[state["rpos"]]
            state["rpos"] += 1
            out.items.append(b)
            cnt += 1
            hit = (b == d) if isinstance(b, int) and isinstance(d, int) else m.decide(interp._z(b) == interp._z(d))
            if hit:
                break
        return Ok(cnt)

    def cmd_new(m, args):
        c = Struct("Cmd", [args[0], []])
        state["cmds"].append(c)
        return c

    def cmd_args(m, args):
        items, a, b = as_list(args[1])
        deref(args[0]).fields[1].extend(items[a:b])
        return args[0]

    same = lambda m, a: a[0]
    natives = {"WalkDir::new": wd_new, "WalkDir::contents_first": wd_opt("contents_first"), "WalkDir::max_depth": wd_opt("max_depth"),
               "WalkDir::min_depth": wd_opt("min_depth"), "WalkDir::same_file_system": wd_opt("same_file_system"),
               "WalkDir::follow_links": wd_opt("follow_links"), "WalkDir::follow_root_links": wd_opt("follow_root_links"),
               "WalkDir::sort_by": wd_opt("sort_by"), "<WalkDir as IntoIterator>::into_iter": wd_into_iter,
               "<IntoIter as Iterator>::next": wd_next, "IntoIter::skip_current_dir": lambda m, a: UNIT,
               "DirEntry::path": lambda m, a: deref(a[0]).fields[0], "DirEntry::depth": lambda m, a: deref(a[0]).fields[1],
               "DirEntry::into_path": lambda m, a: deref(a[0]).fields[0], "DirEntry::path_is_symlink": lambda m, a: False,
               "PathBuf::as_path": as_path, "<PathBuf as Deref>::deref": as_path, "Path::to_path_buf": as_path, "Path::to_string_lossy": as_path,
               "<&Path as Into>::into": as_path, "<Cow as Deref>::deref": as_path, "OsStr::to_string_lossy": as_path, "<OsString as Deref>::deref": as_path,
               "<OsString as From>::from": as_path, "<OsString as From<String>>::from": as_path, "<String as Deref>::deref": as_path, "str::replace": str_replace, "str::trim_start_matches": trim_start_matches,
               "str::trim_start": lambda m, a: trim_start_matches(m, [a[0], [0x20, 0x09, 0x0A, 0x0B, 0x0C, 0x0D]]),
               "Path::parent": path_parent, "<Option<PathBuf> as PartialEq>::eq": opt_path_cmp(True), "<Option<PathBuf> as PartialEq>::ne": opt_path_cmp(False),
               "<dyn Dependencies as Dependencies>::get_output": lambda m, a: Ptr([Struct("Cell", [state["sink"]])], 0),
               "<BufReader as BufRead>::read_until": read_until,
               "Command::new": cmd_new, "Command::args": cmd_args, "Command::env_clear": same, "Command::envs": same, "Command::stdin": same,
               "Command::status": lambda m, a: Ok(Struct("ExitStatusV", [0])),
               "ExitStatus::success": lambda m, a: True, "Stdio::null": lambda m, a: Opaque("Stdio::null"),
               "parse_str_to_newer_args": lambda m, a: NONE()}
    m = Machine(funcs, index, enums, models, natives=natives, max_steps=2000000)
    # every ASCII byte a file name can hold: 1..127 without '/'
    sym_start = [z3.Int("s%d" % j) for j in range(2)]
    m.base_constraints = [z3.And(c >= 1, c <= 127, c != ord("/")) for nm in names + [sym_start] for c in nm] + [start_i >= 0, start_i < len(STARTS)]
    # the symbolic starting point is not ".", "..", and does not start with '-' (it would be an option) - "-r" covers the './-' spelling
    m.base_constraints += [sym_start[0] != ord("."), sym_start[0] != ord("-"), sym_start[0] != ord("!"), sym_start[0] != ord("("), sym_start[0] != ord(")"), sym_start[0] != ord(",")]
    # a name is not "." or ".." (no directory entry is called that)
    for nm in names:
        if len(nm) == 1:
            m.base_constraints.append(nm[0] != ord("."))
        if len(nm) == 2:
            m.base_constraints.append(z3.Or(nm[0] != ord("."), nm[1] != ord(".")))
    m.pending = [[]]
    expr = {"print0": ["-print0"], "print0_I": ["-print0"], "print": ["-print"], "default": []}[mode]
    t0 = time.time()
    while m.pending:
        m.reset_path(m.pending.pop())
        state.update(wd={}, order=[], pos=0, sink=Sink(), pipe=[], rpos=0, cmds=[])
        try:
            st = m.decide_int(start_i, list(range(len(STARTS) - 1)))
            start = STARTS[len(STARTS) - 1 if st is None else st]
            if not isinstance(start, str):
                start = sym_start[:start[1]]
            cfg = [m.call("<Config as Default>::default", [])]
            r = m.call("build_top_level_matcher", [SliceRef([RStr(t) for t in expr]), Ptr(cfg, 0)])
            if r.variant != "Ok":
                res["violations"].append({"what": "expression %r rejected" % expr})
                res["paths"] += 1
                continue
            if m.decide(depth_first):
                cfg[0].fields[1] = True
            quit_cell = [False]
            ret = m.call("process_dir", [RStr(start) if isinstance(start, str) else SymStr(start), Ptr(cfg, 0), Opaque("deps"), Ptr(r.fields[0].cell, 0), Ptr(quit_cell, 0)])
            written = list(state["sink"].bytes)
            argv = None
            if mode in ("print0", "print0_I"):
                state["pipe"] = written
                repl = mode == "print0_I"
                action = Enum("ExecAction", "Command", [VecObj([PStr("cmd"), PStr("x{}y") if repl else PStr("fixed")] + ([PStr("{}")] if repl else []))])
                coll = Struct("LimiterCollection", [VecObj([BoxObj(Struct("MaxArgsCommandSizeLimiter", [0, 1]))] if repl else [])])
                bo = m.call("CommandBuilderOptions::new", [action, Opaque("env"), coll, Some(RStr("{}")) if repl else NONE()])
                if bo.variant != "Ok":
                    raise Unsupported("CommandBuilderOptions::new failed")
                rd = BoxObj(Struct("ByteDelimitedArgumentReader", [Struct("BufReader", []), 0]))
                opts = [Struct("InputProcessOptions", [False, Some(1) if repl else NONE(), NONE(), False])]
                rr = m.call("process_input", [Ptr([bo.fields[0]], 0), rd, Ptr(opts, 0)])
                if rr.variant != "Ok":
                    res["violations"].append({"what": "xargs -0 failed on find's output"})
                argv = [[c.fields[0]] + c.fields[1] for c in state["cmds"]]
        except RustPanic as e:
            res["violations"].append({"what": "panic: " + str(e)[:100]})
            res["paths"] += 1
            continue
        except Unsupported as e:
            res["unsupported"][str(e)[:110]] = res["unsupported"].get(str(e)[:110], 0) + 1
            continue
        except PathAbort:
            continue
        res["paths"] += 1
        order = state["order"]
        delim = 0 if mode in ("print0", "print0_I") else 10
        want = []
        for p, _d, _dir in order:
            want += p + [delim]
        bad = []

        def prove_eq(got, exp, what):
            res["checks"] += 1
            if len(got) != len(exp):
                bad.append("%s: %d bytes, expected %d (%r vs %r)" % (what, len(got), len(exp), got, exp))
                return
            eqs = [interp._z(g) == interp._z(e) for g, e in zip(got, exp) if not (isinstance(g, int) and isinstance(e, int) and g == e)]
            if not eqs:
                return
            s = z3.Solver()
            for c in m.base_constraints + m.pc: s.add(c)
            s.add(z3.Not(z3.And(eqs)))
            if s.check() == z3.sat:
                mod = s.model()
                conc = lambda x: x if isinstance(x, int) else mod.eval(interp._z(x), model_completion=True).as_long()
                bad.append("%s: wrote %r, expected %r" % (what, bytes(conc(g) & 255 for g in got), bytes(conc(e) & 255 for e in exp)))
        prove_eq(written, want, "bytes on stdout")
        if state["sink"].flushes < len(order):
            bad.append("output flushed %d times for %d entries" % (state["sink"].flushes, len(order)))
        if ret != 0:
            bad.append("walk status %r" % (ret,))
        if argv is not None and mode == "print0_I":
            # xargs -0 -I{} cmd x{}y {}: one invocation per path, the path substituted unmodified
            if len(argv) != len(order):
                bad.append("%d invocations for %d paths" % (len(argv), len(order)))
            else:
                for k, (p, _d, _dir) in enumerate(order):
                    got_args = argv[k]
                    if len(got_args) != 3:
                        bad.append("invocation %d has %d arguments" % (k + 1, len(got_args) - 1)); continue
                    try:
                        prove_eq(str_bytes(got_args[1]), [ord("x")] + p + [ord("y")], "first argument of invocation %d" % (k + 1))
                        prove_eq(str_bytes(got_args[2]), p, "second argument of invocation %d" % (k + 1))
                    except Unsupported:
                        bad.append("invocation %d: arguments %r" % (k + 1, got_args))
        elif argv is not None:
            if len(argv) != 1:
                bad.append("%d invocations, expected one" % len(argv))
            else:
                got_args = argv[0]
                if len(got_args) != 2 + len(order):
                    bad.append("command received %d arguments, expected %d paths" % (len(got_args) - 2, len(order)))
                else:
                    for k, (p, _d, _dir) in enumerate(order):
                        try:
                            gb = str_bytes(got_args[2 + k]) if not (isinstance(deref(got_args[2 + k]), Struct) and deref(got_args[2 + k]).ty == "Bytes") else list(deref(got_args[2 + k]).fields[0])
                        except Unsupported:
                            bad.append("argument %d is %r" % (k, got_args[2 + k]))
                            continue
                        prove_eq(gb, p, "argument %d of the command" % (k + 1))
        for w in bad:
            res["violations"].append({"what": w, "start": start if isinstance(start, str) else "<%d symbolic bytes>" % len(start), "shape": shape_name, "mode": mode, "depth_first": bool(cfg[0].fields[1])})
        if len(res["samples"]) < 2:
            res["samples"].append({"start": str(start), "entries": len(order), "bytes_written": len(written), "argv_len": argv and len(argv[0])})
    res["wall_s"] = round(time.time() - t0, 2)
    res["solver_calls"] = m.stats["solver_calls"]
    res["functions_executed"] = sorted(m.executed)
    return res


if __name__ == "__main__":
    shapes = sys.argv[1].split(",") if len(sys.argv) > 1 else ["flat1"]
    mode = sys.argv[2] if len(sys.argv) > 2 else "print0"
    text = open(sys.argv[3]).read() if len(sys.argv) > 3 else None
    funcs, index, enums, secs, _ = loader.load(os.environ.get("FINDUTILS_REPO", "/repo"), text)
    for sh in shapes:
        r = explore(sh, funcs, index, enums, mode)
        v = r.pop("violations")
        print(json.dumps({k: r[k] for k in ("kind", "paths", "checks", "solver_calls", "wall_s", "unsupported", "samples")})[:700])
        print(len(v), "violations")
        for x in v[:6]:
            print("  ", x)
