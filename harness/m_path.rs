// harnesses for module m_path (included into /repo under cfg(kani))
