// C14: -size rounding and the N / +N / -N trichotomy.  Stub-free integer kernels.
use super::*;

fn any_unit() -> (Unit, u32) {
    match kani::any::<u8>() % 6 {
        0 => (Unit::Byte, 0),
        1 => (Unit::TwoByteWord, 1),
        2 => (Unit::Block, 9),
        3 => (Unit::KibiByte, 10),
        4 => (Unit::MebiByte, 20),
        _ => (Unit::GibiByte, 30),
    }
}

fn ceil_div_pow2(bytes: u64, shift: u32) -> u64 {
    let q = bytes >> shift;
    let r = bytes & ((1u64 << shift) - 1);
    q + if r != 0 { 1 } else { 0 }
}

// @harness props=C14 tier=quick cost=2
// @exec byte_size_to_unit_size
// @sym bytes: u64 (all 2^64 values), unit: all six units
// @bounds loop-free; no unwinding needed
// @witness unit:u8 bytes:u64
// @replay size_round
/// byte_size_to_unit_size(unit, b) == ceil(b / 2^k) for every u64 and every unit; no overflow.
#[kani::proof]
fn c14_size_round_up() {
    let (unit, shift) = any_unit();
    let bytes: u64 = kani::any();
    let got = byte_size_to_unit_size(unit, bytes);
    assert!(got == ceil_div_pow2(bytes, shift));
    kani::cover!(shift == 30 && bytes == u64::MAX);
    kani::cover!(shift == 10 && bytes == 1025 && got == 2);
}
#[kani::proof]
fn c14_size_round_up_canary() {
    let (unit, shift) = any_unit();
    let bytes: u64 = kani::any();
    let got = byte_size_to_unit_size(unit, bytes);
    assert!(got == bytes >> shift); // floor instead of ceil: must FAIL
}

// @harness props=C14 tier=quick cost=2
// @exec ComparableValue::matches
// @sym n, n2, v: u64 (all values)
// @bounds loop-free
/// Exactly one of N, +N, -N holds; +N / -N are monotone in N. All u64.
#[kani::proof]
fn c14_trichotomy_u64() {
    let n: u64 = kani::any();
    let v: u64 = kani::any();
    let a = ComparableValue::MoreThan(n).matches(v);
    let b = ComparableValue::EqualTo(n).matches(v);
    let c = ComparableValue::LessThan(n).matches(v);
    assert!((a as u8) + (b as u8) + (c as u8) == 1);
    assert!(a == (v > n) && b == (v == n) && c == (v < n));
    let n2: u64 = kani::any();
    kani::assume(n2 >= n);
    // monotone: +N2 ⇒ +N ; -N ⇒ -N2
    if ComparableValue::MoreThan(n2).matches(v) { assert!(a); }
    if c { assert!(ComparableValue::LessThan(n2).matches(v)); }
    kani::cover!(a); kani::cover!(b); kani::cover!(c);
}
#[kani::proof]
fn c14_trichotomy_u64_canary() {
    let n: u64 = kani::any();
    let v: u64 = kani::any();
    let a = ComparableValue::MoreThan(n).matches(v);
    assert!(a == (v >= n)); // wrong on purpose: must FAIL
}

// @harness props=C14 tier=quick cost=2
// @exec ComparableValue::imatches
// @sym n: u64, v: i64 (all values)
// @bounds loop-free
/// Signed variant used by the time tests: negative measured values are "less than" everything.
#[kani::proof]
fn c14_trichotomy_i64() {
    let n: u64 = kani::any();
    let v: i64 = kani::any();
    let a = ComparableValue::MoreThan(n).imatches(v);
    let b = ComparableValue::EqualTo(n).imatches(v);
    let c = ComparableValue::LessThan(n).imatches(v);
    assert!((a as u8) + (b as u8) + (c as u8) == 1);
    if v >= 0 { let u = v as u64; assert!(a == (u > n) && b == (u == n) && c == (u < n)); } else { assert!(c); }
    kani::cover!(v < 0); kani::cover!(a); kani::cover!(b);
}
#[kani::proof]
fn c14_trichotomy_i64_canary() {
    let n: u64 = kani::any();
    let v: i64 = kani::any();
    let b = ComparableValue::EqualTo(n).imatches(v);
    assert!(b == ((v as u64) == n)); // ignores the sign: must FAIL
}

// @harness props=C14,C13 tier=quick cost=60 flags=nomem
// @exec SizeMatcher::matches, byte_size_to_unit_size, ComparableValue::matches, WalkEntry::metadata
// @sym world (sizes 0..2^63-1), follow P/H/L, depth 0..1, N: u64, form, unit
// @bounds one path; depth <= 1
// @assume kernel contract for stat vs lstat; st_size >= 0
/// -size [+-]N[cwbkMG] compares N with ceil(size/unit) of the record the follow mode selects.
#[kani::proof]
#[kani::unwind(3)]
#[kani::stub(alloc::fmt::format, fmt_stub)]
#[kani::stub(<std::io::Stderr as std::io::Write>::write_fmt, wf_stub)]
#[kani::stub(std::fs::metadata, stat_stub)]
#[kani::stub(std::fs::symlink_metadata, lstat_stub)]
fn c14_size_matcher_record() {
    use crate::find::matchers::entry::verif_kani::*;
    use crate::find::matchers::stat::verif_kani::{any_cv, want_cmp};
    let (lst, sst, s_ok, s_err) = any_world(&[libc::ENOENT, libc::ELOOP]);
    let follow = any_follow();
    let depth: usize = kani::any();
    kani::assume(depth <= 1);
    let entry = WalkEntry::new("a", depth, follow);
    let (cv, k, n) = any_cv();
    let (unit, shift) = any_unit();
    let m = SizeMatcher { value_to_match: cv, unit };
    let deps = Deps::new();
    let mut io = MatcherIO::new(&deps);
    let got = m.matches(&entry, &mut io);
    match selected_record(lst, sst, s_ok, s_err, follow.follow_at_depth(depth)) {
        Some(r) => {
            assert!(got == want_cmp(k, n, ceil_div_pow2(r.st_size as u64, shift)));
            // corollaries named in the property: -size -1k <=> empty ; -size 1M <=> 1..=2^20
            if k == 2 && n == 1 && shift == 10 { assert!(got == (r.st_size == 0)); }
            if k == 1 && n == 1 && shift == 20 { assert!(got == (r.st_size >= 1 && r.st_size <= (1 << 20))); }
        }
        None => assert!(!got),
    }
    kani::cover!(got && k == 1 && n == 1 && shift == 20);
    kani::cover!(got && k == 2 && n == 1 && shift == 10);
    std::mem::forget(entry);
}
#[kani::proof]
#[kani::unwind(3)]
#[kani::stub(alloc::fmt::format, fmt_stub)]
#[kani::stub(<std::io::Stderr as std::io::Write>::write_fmt, wf_stub)]
#[kani::stub(std::fs::metadata, stat_stub)]
#[kani::stub(std::fs::symlink_metadata, lstat_stub)]
fn c14_size_matcher_record_canary() {
    use crate::find::matchers::entry::verif_kani::*;
    let (lst, _sst, _s_ok, _s_err) = any_world(&[libc::ENOENT]);
    let entry = WalkEntry::new("a", 1, crate::find::matchers::Follow::Never);
    let n: u64 = kani::any();
    let m = SizeMatcher { value_to_match: ComparableValue::EqualTo(n), unit: Unit::KibiByte };
    let deps = Deps::new();
    let mut io = MatcherIO::new(&deps);
    let got = m.matches(&entry, &mut io);
    assert!(got == ((lst.st_size as u64) >> 10 == n)); // rounds down: must FAIL
    std::mem::forget(entry);
}

// @harness props=C11,C14 tier=quick cost=5
// @exec Unit::from_str
// @sym suffix of 0..2 symbolic ASCII bytes
// @bounds suffix length <= 2
/// The unit suffix is one of <nothing> b c w k M G; anything else is rejected, never a panic.
#[kani::proof]
#[kani::unwind(4)]
#[kani::stub(alloc::fmt::format, fmt_stub)]
#[kani::stub(alloc::raw_vec::handle_error, he_stub)]
#[kani::stub(std::alloc::handle_alloc_error, hae_stub)]
fn c14_unit_suffix() {
    use crate::find::matchers::entry::verif_kani::*;
    let b: [u8; 2] = kani::any();
    kani::assume(b[0] < 0x80 && b[1] < 0x80);
    let len: usize = kani::any();
    kani::assume(len <= 2);
    let s = unsafe { std::str::from_utf8_unchecked(&b[..len]) };
    let r: Result<Unit, _> = s.parse();
    let want: Option<u32> = if len == 0 { Some(9) } else if len == 1 { match b[0] { b'c' => Some(0), b'w' => Some(1), b'b' => Some(9), b'k' => Some(10), b'M' => Some(20), b'G' => Some(30), _ => None } } else { None };
    match &r {
        Ok(u) => { let sh = match u { Unit::Byte => 0, Unit::TwoByteWord => 1, Unit::Block => 9, Unit::KibiByte => 10, Unit::MebiByte => 20, Unit::GibiByte => 30 }; assert!(want == Some(sh)); }
        Err(_) => assert!(want.is_none()),
    }
    kani::cover!(r.is_ok() && len == 0);
    kani::cover!(r.is_err() && len == 1);
    std::mem::forget(r);
}
