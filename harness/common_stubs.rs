// Standard cuts shared by every harness module (DESIGN.md section 2, rule 4).
// Included textually at the top of each harness file.
#[allow(dead_code)]
pub(crate) mod std_stubs {
    /// `alloc::fmt::format` → empty string: diagnostics only.
    pub fn fmt_stub(_args: std::fmt::Arguments<'_>) -> String { String::new() }
    /// Kani's allocator cannot fail: the capacity-overflow / OOM handlers are unreachable.
    pub fn he_stub(_e: std::collections::TryReserveError) -> ! { kani::assume(false); unreachable!() }
    pub fn hae_stub(_l: std::alloc::Layout) -> ! { kani::assume(false); unreachable!() }
    /// `std::rt::thread_cleanup`: Kani 0.68 ICEs on the catch_unwind intrinsic inside it.
    pub fn noop_stub() {}
    /// `<Stderr as Write>::write_fmt` → Ok(()): diagnostics only.
    pub fn wf_stub(_s: &mut std::io::Stderr, _a: std::fmt::Arguments<'_>) -> std::io::Result<()> { Ok(()) }
    pub fn eprint_stub(_a: std::fmt::Arguments<'_>) {}
    pub fn keys_stub() -> std::hash::RandomState { unsafe { std::mem::transmute((1u64, 2u64)) } }
}
#[allow(unused_imports)]
use std_stubs::*;
