// harnesses for module m_glob (included into /repo under cfg(kani))
