#!/bin/bash
# Offline setup: warm one cargo-kani target directory (dependencies compiled once), verify the tool chain with the
# Metadata-layout self-check harness, and clone the target directory for the worker slots.
export CARGO_NET_OFFLINE=true FINDUTILS_VERIF_DIR="$(cd "$(dirname "$0")" && pwd)"
CACHE="${FINDUTILS_VERIF_CACHE:-/root/.cache/findutils-verif}"
REPO="${FINDUTILS_REPO:-/repo}"
mkdir -p "$CACHE"
cd "$REPO" || exit 1
cargo kani -Z stubbing --target-dir "$CACHE/slot00" --harness find::matchers::entry::verif_kani::metadata_layout_selfcheck --exact > "$CACHE/setup.log" 2>&1
if ! grep -q "VERIFICATION:- SUCCESSFUL" "$CACHE/setup.log"; then
  tail -30 "$CACHE/setup.log"; echo "setup: the self-check harness did not verify"; exit 1
fi
for k in 01 02 03; do
  [ -d "$CACHE/slot$k/kani" ] || cp -a "$CACHE/slot00" "$CACHE/slot$k"
done
# native binaries for the replayers; MIR dump target for mirsym (both are rebuilt lazily by the checks as well)
cargo build --offline --quiet 2>/dev/null || true
python3-vt -c "import z3" 2>/dev/null || { echo "setup: z3 python module missing in python3-vt"; exit 1; }
echo "setup ok"
