#!/usr/bin/env python3
"""C01 / C11: symbolic execution (MIR level) of find's expression parser, tree builders and combinators.

For every token sequence of length n over the vocabulary the real build_top_level_matcher is executed
symbolically (tokens = z3 Int variables, leaf test results = z3 Bool variables); for every feasible path the outcome
(accept/reject; action trace, -quit, -prune request on one abstract file) is compared with a reference
recursive-descent parser + evaluator written from the property's grammar.
"""
import itertools, json, os, sys, time, z3
import loader, models, interp
from interp import Machine, SliceRef, RStr, Ptr, Struct, Enum, Opaque, BoxObj, Unsupported, RustPanic, PathAbort

VOCAB = ["-true", "-false", "-print", "-print0", "-prune", "-quit", "-empty", "-readable", "!", "-a", "-o", ",", "(", ")", "-bogus"]


from reference import reference, LEAVES


# ----------------------------------------------------------------------------------------------- natives (observable effects)
def native_printer_matches(m, args):
    p = models.deref(args[0])
    delim = p.fields[0].variant
    m.trace.append("print\\n" if delim == "Newline" else "print\\0")
    return True


def leaf(name):
    def f(m, args):
        return m.leafvars[name]
    return f


def native_prune_matches(m, args):
    # the abstract file is a directory: -prune requests the skip (PruneMatcher::matches' own logic is Kani's c03_prune_marks_only_dirs)
    io = models.deref(args[2])
    io.fields[0] = True
    return True


def native_newer_args(m, args):
    # parse_str_to_newer_args (regex crate): none of the vocabulary words is -newerXY / -anewer / -cnewer
    a = models.deref(args[0])
    words = [a.text] if a.sym is None else a.vocab
    assert not any(w.startswith(("-newer", "-anewer", "-cnewer")) for w in words)
    return models.NONE()


NATIVES = {
    "parse_str_to_newer_args": native_newer_args,
    "<Printer as Matcher>::matches": native_printer_matches,
    "<EmptyMatcher as Matcher>::matches": leaf("t_empty"),
    "<AccessMatcher as Matcher>::matches": leaf("t_readable"),
    "<PruneMatcher as Matcher>::matches": native_prune_matches,
}


# ----------------------------------------------------------------------------------------------- exploration
def explore(n, funcs, index, enums, limit_paths=None, vocab=VOCAB):
    m = Machine(funcs, index, enums, models, natives=NATIVES)
    toks = [z3.Int("tok%d" % i) for i in range(n)]
    m.base_constraints = [z3.And(t >= 0, t < len(vocab)) for t in toks]
    m.leafvars = {v: z3.Bool(v) for v in LEAVES.values()}
    results = {"paths": 0, "accepting_paths": 0, "rejecting_paths": 0, "sentences_checked": 0, "violations": [], "panics": [], "unsupported": {}, "samples": []}
    m.pending = [[]]
    t0 = time.time()
    while m.pending:
        prefix = m.pending.pop()
        m.reset_path(prefix)
        args = SliceRef([RStr(sym=toks[i], vocab=vocab) for i in range(n)])
        cfg = [m.call("<Config as Default>::default", [])]
        outcome = None
        try:
            r = m.call("build_top_level_matcher", [args, Ptr(cfg, 0)])
            if r.variant == "Ok":
                io = [Struct("MatcherIO", [False, 0, False, Opaque("deps")])]
                box = [r.fields[0]]
                m.call("<Box<dyn Matcher> as Matcher>::matches", [Ptr(box, 0), Opaque("entry"), Ptr(io, 0)])
                outcome = {"accept": True, "trace": list(m.trace), "quit": bool(io[0].fields[2]), "prune": bool(io[0].fields[0])}
            else:
                outcome = {"accept": False}
        except RustPanic as e:
            outcome = {"panic": str(e)}
        except Unsupported as e:
            results["unsupported"][str(e)[:80]] = results["unsupported"].get(str(e)[:80], 0) + 1
            continue
        except PathAbort:
            continue
        results["paths"] += 1
        # every input of this path: tokens/leaves not pinned by the path condition are free -> enumerate their completions
        s = z3.Solver()
        for c in m.base_constraints: s.add(c)
        for c in m.pc: s.add(c)
        pinned = {}
        assert s.check() == z3.sat
        model = s.model()
        free_toks = []
        for i, t in enumerate(toks):
            v = model.eval(t, model_completion=True).as_long()
            s.push(); s.add(t != v)
            if s.check() == z3.sat: free_toks.append(i)
            s.pop()
            pinned[i] = v
        free_leaves = []
        leafval = {}
        for name, var in m.leafvars.items():
            v = z3.is_true(model.eval(var, model_completion=True))
            s.push(); s.add(var != v)
            if s.check() == z3.sat: free_leaves.append(name)
            s.pop()
            leafval[name] = v
        # completions consistent with the path condition
        tok_choices = [range(len(vocab)) if i in free_toks else [pinned[i]] for i in range(n)]
        for combo in itertools.product(*tok_choices):
            if free_toks:
                s.push()
                for i in free_toks: s.add(toks[i] == combo[i])
                ok = s.check() == z3.sat
                s.pop()
                if not ok: continue
            words = [vocab[c] for c in combo]
            for lv in itertools.product([False, True], repeat=len(free_leaves)):
                env = dict(leafval)
                for name, b in zip(free_leaves, lv): env[name] = b
                want = reference(words, env)
                results["sentences_checked"] += 1
                bad = None
                if "panic" in outcome:
                    bad = "panic: " + outcome["panic"]
                elif outcome["accept"] != want["accept"]:
                    bad = "implementation %s, grammar %s%s" % ("accepts" if outcome["accept"] else "rejects", "accepts" if want["accept"] else "rejects",
                                                               "" if want["accept"] else " (%s)" % want["why"])
                elif outcome["accept"] and (outcome["trace"] != want["trace"] or outcome["quit"] != want["quit"] or outcome["prune"] != want["prune"]):
                    bad = "actions %r quit=%s prune=%s, reference %r quit=%s prune=%s" % (outcome["trace"], outcome["quit"], outcome["prune"], want["trace"], want["quit"], want["prune"])
                if bad:
                    results["violations"].append({"tokens": words, "leaves": env, "what": bad})
        if outcome.get("accept"): results["accepting_paths"] += 1
        elif "panic" not in outcome: results["rejecting_paths"] += 1
        if len(results["samples"]) < 6 and outcome.get("accept"):
            results["samples"].append({"tokens": [vocab[pinned[i]] for i in range(n)], "outcome": outcome})
        if limit_paths and results["paths"] >= limit_paths:
            break
    results["wall_s"] = round(time.time() - t0, 2)
    results["functions_executed"] = sorted(m.executed)
    results["solver_calls"] = m.stats["solver_calls"]
    results["decisions"] = m.stats["decisions"]
    return results


if __name__ == "__main__":
    n = int(sys.argv[1]) if len(sys.argv) > 1 else 2
    text = open(sys.argv[2]).read() if len(sys.argv) > 2 else None
    funcs, index, enums, secs, _ = loader.load(os.environ.get("FINDUTILS_REPO", "/repo"), text)
    r = explore(n, funcs, index, enums)
    v = r.pop("violations")
    print(json.dumps(r, indent=1)[:3000])
    print(len(v), "violations")
    seen = set()
    for x in v:
        k = x["what"].split(",")[0] + " " + " ".join(x["tokens"])
        if k in seen: continue
        seen.add(k)
        if len(seen) < 40: print("  ", " ".join(x["tokens"]), "|", x["what"])
