#!/usr/bin/env python3
"""C12: MIR-level symbolic execution of the glob -> POSIX BRE translation (glob_to_regex, extract_bracket_expr,
regex_push_literal) on symbolic patterns, compared semantically with a reference fnmatch().

Pattern characters are z3 Int variables over an alphabet.  For every feasible path and every completion of the characters
the path left unconstrained, the regular expression the implementation produced is evaluated with a small matcher for the
BRE subset it can emit (literals, escaped literals, '.', '.*', bracket expressions) on every subject string up to a bound, and
the verdict is compared with a reference implementation of POSIX fnmatch() without flags.  Matching itself is oniguruma's
(trusted to implement exactly this BRE subset); bracket-expression validation by onig is modelled (well-formedness)."""
import itertools, json, os, sys, time, z3
import loader, models, interp
from interp import Machine, SliceRef, RStr, Ptr, Struct, Enum, Opaque, BoxObj, VecObj, Tuple, Unsupported, RustPanic, PathAbort, UNIT
from models import model, Some, NONE, Ok, Err, deref

PAT_ALPHA = [ord(c) for c in "ab*?[]!\\.-^"]   # "-" for ranges; "^" is an ordinary character in a glob (patterns with "[^" are skipped: unspecified in POSIX)
SUBJ_ALPHA = [ord(c) for c in "ab]!^.\\[*-"]


class CStr:
    """a string as a list of characters (ints or z3 Ints)"""
    __slots__ = ("chars",)

    def __init__(self, chars):
        self.chars = chars

    def __repr__(self):
        return "cstr%r" % (self.chars,)


def cs(v):
    v = deref(v)
    if isinstance(v, CStr):
        return v
    if isinstance(v, RStr) and v.text is not None:
        return CStr([ord(c) for c in v.text])
    raise Unsupported("not a char string: %r" % (v,))


@model("str::chars")
def _chars(m, args, raw):
    return Struct("Chars", [cs(args[0]).chars, 0])


@model("<Chars as Iterator>::next")
def _chars_next(m, args, raw):
    it = deref(args[0])
    lst, pos = it.fields
    if pos >= len(lst):
        return NONE()
    it.fields[1] = pos + 1
    return Some(lst[pos])


@model("Chars::as_str")
def _chars_as_str(m, args, raw):
    it = deref(args[0])
    return CStr(it.fields[0][it.fields[1]:])


@model("String::new")
def _string_new(m, args, raw):
    return CStr([])


@model("String::is_empty", "str::is_empty", "String::len", "str::len")
def _string_is_empty(m, args, raw):
    n = len(cs(args[0]).chars)
    return n == 0 if raw.endswith("is_empty") else n


@model("String::push")
def _string_push(m, args, raw):
    deref(args[0]).chars.append(args[1])
    return UNIT


@model("String::push_str")
def _string_push_str(m, args, raw):
    deref(args[0]).chars.extend(cs(args[1]).chars)
    return UNIT


def _to_owned(m, args, raw):
    return CStr(list(cs(args[0]).chars))


def _same(m, args, raw):
    return cs(args[0])


@model("<Iter as Iterator>::collect")
def _chars_collect(m, args, raw):
    it = deref(args[0])
    items, pos, end = it.fields
    return CStr(list(items[pos:end]))


@model("^<Option<char> as PartialEq>::eq$")
def _opt_char_eq(m, args, raw):
    a, b = deref(args[0]), deref(args[1])
    if a.variant != b.variant:
        return False
    if a.variant == "None":
        return True
    x, y = a.fields[0], b.fields[0]
    return (x == y) if (isinstance(x, int) and isinstance(y, int)) else (interp._z(x) == interp._z(y))


@model("str::ends_with", "str::starts_with", "String::ends_with", "String::starts_with")
def _ends_with(m, args, raw):
    s_ = cs(args[0]).chars
    pat = deref(args[1])
    needle = cs(pat).chars if isinstance(pat, (CStr, RStr)) else [pat]
    if len(needle) > len(s_):
        return False
    part = s_[len(s_) - len(needle):] if "ends_with" in raw else s_[:len(needle)]
    for c, w in zip(part, needle):
        e = (c == w) if (isinstance(c, int) and isinstance(w, int)) else m.decide(interp._z(c) == interp._z(w))
        if not e:
            return False
    return True


@model("str::find")
def _find(m, args, raw):
    s = cs(args[0]).chars
    pat = deref(args[1])
    if isinstance(pat, (CStr, RStr)):
        # substring search
        needle = cs(pat).chars

        def eqc(c, w):
            return (c == w) if (isinstance(c, int) and isinstance(w, int)) else m.decide(interp._z(c) == interp._z(w))
        for i in range(0, len(s) - len(needle) + 1):
            if all(eqc(s[i + j], needle[j]) for j in range(len(needle))):
                return Some(i)
        return NONE()
    wanted = pat if isinstance(pat, list) else [pat]
    for i, c in enumerate(s):
        hit = False
        for w in wanted:
            e = (c == w) if (isinstance(c, int) and isinstance(w, int)) else m.decide(interp._z(c) == interp._z(w))
            if e:
                hit = True
                break
        if hit:
            return Some(i)
    return NONE()


@model("^<str as Index(<.*>)?>::index$")
def _str_index(m, args, raw):
    s = cs(args[0]).chars
    r = args[1]
    if r.ty == "RangeFrom":
        if r.fields[0] > len(s): raise RustPanic("str index out of range")
        return CStr(s[r.fields[0]:])
    if r.ty == "RangeTo":
        if r.fields[0] > len(s): raise RustPanic("str index out of range")
        return CStr(s[:r.fields[0]])
    if r.ty == "Range":
        return CStr(s[r.fields[0]:r.fields[1]])
    raise Unsupported(raw)


# ----------------------------------------------------------------------------------------------- BRE subset: parser, validity, matcher
class BadRe(Exception):
    pass


def parse_bre_subset(r):
    """-> list of atoms: ('lit', c) | ('any',) | ('set', negated, members) each with a star flag"""
    atoms, i = [], 0
    while i < len(r):
        c = r[i]
        if c == "\\":
            if i + 1 >= len(r): raise BadRe("trailing backslash")
            atom = ("lit", r[i + 1]); i += 2
        elif c == ".":
            atom = ("any",); i += 1
        elif c == "[":
            j = i + 1
            neg = j < len(r) and r[j] == "^"
            if neg: j += 1
            members = []
            if j < len(r) and r[j] == "]":
                members.append("]"); j += 1
            while j < len(r) and r[j] != "]":
                members.append(r[j]); j += 1
            if j >= len(r): raise BadRe("unterminated bracket expression")
            if not members: raise BadRe("empty bracket expression")
            # ranges: x-y with y not the closing bracket
            ms, k = [], 0
            while k < len(members):
                if k + 2 < len(members) and members[k + 1] == "-":
                    if members[k] > members[k + 2]: raise BadRe("empty range in bracket expression")
                    ms.append((members[k], members[k + 2])); k += 3
                else:
                    ms.append(members[k]); k += 1
            atom = ("set", neg, ms); i = j + 1
        elif c == "^":
            # oniguruma's posix_basic syntax treats an unescaped ^ as the beginning-of-line anchor wherever it stands
            atoms.append((("bol",), False)); i += 1
            continue
        elif c == "$":
            atoms.append((("eol",), False)); i += 1
            continue
        elif c == "*" and not atoms:
            atom = ("lit", "*"); i += 1
        else:
            atom = ("lit", c); i += 1
        star = i < len(r) and r[i] == "*" and atom[0] != "never"
        if star and not (atom == ("lit", "*") and not atoms and False):
            i += 1
        atoms.append((atom, star))
    return atoms


def atom_matches(atom, ch):
    if atom[0] == "lit": return atom[1] == ch
    if atom[0] == "any": return True
    hit = any((mb[0] <= ch <= mb[1]) if isinstance(mb, tuple) else mb == ch for mb in atom[2])
    return hit != atom[1]


def bre_full_match(atoms, s):
    def go(ai, si):
        if ai == len(atoms):
            return si == len(s)
        atom, star = atoms[ai]
        if atom[0] == "bol":
            return si == 0 and go(ai + 1, si)
        if atom[0] == "eol":
            return si == len(s) and go(ai + 1, si)
        if star:
            k = si
            while True:
                if go(ai + 1, k): return True
                if k < len(s) and atom_matches(atom, s[k]): k += 1
                else: return False
        return si < len(s) and atom_matches(atom, s[si]) and go(ai + 1, si + 1)
    return go(0, 0)


def native_parse_bre(m, args):
    """onig's verdict on a bracket expression: well-formed or not (the alphabet has no ranges / classes)"""
    chars = cs(args[0]).chars
    text = []
    for c in chars:
        if not isinstance(c, int):
            # pin the character: validity depends on it
            idx = m.decide_int(c, PAT_ALPHA)
            c = idx
        text.append(chr(c))
    try:
        parse_bre_subset("".join(text))
        return Ok(Opaque("Regex"))
    except BadRe:
        return Err(Opaque("onig::Error"))


from fnmatch_ref import fnmatch_ref, has_reversed_range


def subjects(maxlen):
    out = [""]
    for n in range(1, maxlen + 1):
        out += ["".join(chr(c) for c in t) for t in itertools.product(SUBJ_ALPHA, repeat=n)]
    return out


def explore(n, funcs, index, enums, subj_len=3):
    res = {"pattern_chars": n, "paths": 0, "inputs_covered": 0, "comparisons": 0, "violations": [], "unsupported": {}, "samples": []}
    pat = [z3.Int("p%d" % i) for i in range(n)]
    natives = {"parse_bre": native_parse_bre, "<str as ToString>::to_string": lambda m, a: _to_owned(m, a, ""), "<String as Deref>::deref": lambda m, a: _same(m, a, "")}
    m = Machine(funcs, index, enums, models, natives=natives)
    m.base_constraints = [z3.Or([p == a for a in PAT_ALPHA]) for p in pat]
    m.pending = [[]]
    subj = subjects(subj_len)
    t0 = time.time()
    while m.pending:
        m.reset_path(m.pending.pop())
        try:
            r = m.call("glob_to_regex", [CStr(list(pat))])
        except RustPanic as e:
            res["violations"].append({"what": "panic: " + str(e)[:100]})
            res["paths"] += 1
            continue
        except Unsupported as e:
            res["unsupported"][str(e)[:100]] = res["unsupported"].get(str(e)[:100], 0) + 1
            continue
        except PathAbort:
            continue
        res["paths"] += 1
        s = z3.Solver()
        for c in m.base_constraints + m.pc: s.add(c)
        while s.check() == z3.sat:
            mod = s.model()
            vals = [mod.eval(v, model_completion=True).as_long() for v in pat]
            s.add(z3.Or([v != x for v, x in zip(pat, vals)]))
            res["inputs_covered"] += 1
            p = "".join(chr(v) for v in vals)
            if any(x in p for x in ("[.", "[=", "[:", "[^")) or has_reversed_range(p):
                res["skipped_ambiguous"] = res.get("skipped_ambiguous", 0) + 1
                continue          # (incomplete) collating symbols / classes: outside the reference
            if r.variant == "None":
                regex = None
            else:
                regex = "".join(chr(c if isinstance(c, int) else mod.eval(c, model_completion=True).as_long()) for c in r.fields[0].chars)
            try:
                atoms = parse_bre_subset(regex) if regex is not None else None
            except BadRe as e:
                res["violations"].append({"what": "pattern %r translated to the invalid BRE %r (%s)" % (p, regex, e), "pattern": p})
                continue
            first_bad, explained = None, True
            for sub in subj:
                res["comparisons"] += 1
                got = atoms is not None and bre_full_match(atoms, sub)
                want = fnmatch_ref(p, sub)
                if got != want and first_bad is None:
                    first_bad = (sub, got, want)
                if got != fnmatch_ref(p, sub, bracket_backslash="literal"):
                    explained = False
            if first_bad:
                sub, got, want = first_bad
                cls = "a backslash inside a bracket expression is taken literally" if (explained and "\\" in p and "[" in p) else "other"
                res["violations"].append({"what": "pattern %r (BRE %r) on %r: %s, fnmatch says %s" % (p, regex, sub, got, want), "pattern": p, "subject": sub, "class": cls})
            if len(res["samples"]) < 4 and regex and "[" in p:
                res["samples"].append({"pattern": p, "bre": regex})
    res["wall_s"] = round(time.time() - t0, 2)
    res["solver_calls"] = m.stats["solver_calls"]
    res["functions_executed"] = sorted(m.executed)
    return res


if __name__ == "__main__":
    n = int(sys.argv[1]) if len(sys.argv) > 1 else 2
    text = open(sys.argv[2]).read() if len(sys.argv) > 2 else None
    funcs, index, enums, secs, _ = loader.load(os.environ.get("FINDUTILS_REPO", "/repo"), text)
    r = explore(n, funcs, index, enums)
    v = r.pop("violations")
    print(json.dumps({k: r[k] for k in ("pattern_chars", "paths", "inputs_covered", "comparisons", "solver_calls", "wall_s", "unsupported", "samples")}))
    print(len(v), "violations")
    for x in v[:10]:
        print("  ", x)
