#!/usr/bin/env python3
"""do_xargs from MIR with clap as a model: which limiters, which reader and which options the option values select.

clap's builder calls are opaque; Command::try_get_matches_from returns a matches object whose get_one / get_flag /
contains_id / indices_of / get_many answer from symbolic option values (presence Bool + value Int per option, command-line
positions for the mutually exclusive ones).  The real do_xargs then builds Options, runs the real normalize_options, the real
LimiterCollection::{new,add} and limiter constructors and the real CommandBuilderOptions::new; process_input is a recorder.
Obligations (C06: the system limit is ALWAYS installed; C04: -n / -L / -s become limiters with exactly their values; C05: the
byte reader is selected iff a delimiter is in force; C20: replace mode), discharged by z3 under each path condition."""
import json, os, re, sys, time, z3
import loader, models, interp
from interp import Machine, SliceRef, RStr, Ptr, Struct, Enum, Opaque, BoxObj, VecObj, Unsupported, RustPanic, PathAbort, UNIT
from models import Some, NONE, Ok, Err, deref, as_list


def text_of(m, v):
    """concrete text of an option id / string constant (this module does not load the path models of natives_fs: they would take over OsString)"""
    v = deref(v)
    for _ in range(6):
        if isinstance(v, BoxObj):
            v = v.cell[0]
        elif isinstance(v, Ptr):
            v = v.load()
        else:
            break
    if isinstance(v, RStr) and v.text is not None:
        return v.text
    raise Unsupported("text of %r" % (v,))

SYSTEM_BUDGET = 1 << 40         # what new_system returns here (its formula is Kani's c06_new_system_formula)


def _closure(m, raw, args):
    found = re.findall(r"\{closure@[^}]*\}", raw)
    fn = m.index.get(found[-1]) if found else None
    if fn is None:
        raise Unsupported("closure of " + raw[:70])
    return m.run(fn, args)


def _osval(v):
    v = deref(v)
    for _ in range(6):
        if isinstance(v, BoxObj): v = v.cell[0]
        elif isinstance(v, Ptr): v = v.load()
        else: break
    return v


def explore(funcs, index, enums):
    res = {"kind": "do_xargs wiring", "paths": 0, "checks": 0, "violations": [], "unsupported": {}, "samples": []}
    has = {k: z3.Bool("has_" + k) for k in ("n", "L", "s", "I", "d", "null", "x", "r", "a", "cmd")}
    val = {k: z3.Int("val_" + k) for k in ("n", "L", "s", "d")}
    pos = {k: z3.Int("pos_" + k) for k in ("n", "L", "I", "d", "null")}
    ID = {"max-args": "n", "max-lines": "L", "max-chars": "s", "replace-I": "I", "replace": None, "delimiter": "d", "null": "null", "exit": "x",
          "no-run-if-empty": "r", "arg-file": "a", "command": "cmd", "verbose": None, "max-procs": None}
    state = {}

    def hv(m, k):
        if k not in state["has"]:
            state["has"][k] = m.decide(has[k])
        return state["has"][k]

    def get_one(m, args):
        k = ID.get(text_of(m, args[1]), "?")
        if k == "?":
            raise Unsupported("option id %r" % text_of(m, args[1]))
        if k is None or not hv(m, k):
            return NONE()
        v = {"n": val["n"], "L": val["L"], "s": val["s"], "d": val["d"], "I": RStr("{}"), "a": RStr("argfile")}[k]
        return Some(Ptr([v], 0))

    def get_flag(m, args):
        k = ID.get(text_of(m, args[1]), "?")
        if k == "?":
            raise Unsupported("flag id %r" % text_of(m, args[1]))
        return False if k is None else hv(m, k)

    def contains_id(m, args):
        k = ID.get(text_of(m, args[1]), "?")
        return False if k in (None, "?") else hv(m, k)

    def indices_of(m, args):
        k = ID.get(text_of(m, args[1]))
        if k is None or k not in pos or not hv(m, k):
            return NONE()
        return Some(Struct("Indices", [[pos[k]]]))

    def get_many(m, args):
        if hv(m, "cmd"):
            return Some(Struct("ValuesRef", [[models.OsVal("cmd", 3), models.OsVal("arg1", 4)]]))
        return NONE()

    def process_input(m, args):
        state["pi"] = (deref(args[0]), deref(args[1]), deref(args[2]))
        return Ok(Enum("CommandResult", "Success", []))

    def opt_gt(m, args):
        a, b = deref(args[0]), deref(args[1])
        if a.variant == "None":
            return False
        if b.variant == "None":
            return True
        return interp._z(a.fields[0]) > interp._z(b.fields[0])

    def flat_map(m, args, raw):
        return Struct("FlatMapIter", [deref(args[0]), re.findall(r"\{closure@[^}]*\}", raw)[-1], args[1]])

    def imax(m, args, raw):
        fm = deref(args[0])
        it, clos, env = fm.fields
        items, p, end = it.fields
        best = None
        while p < end:
            o = m.run(m.index[clos], [Ptr([env], 0), Ptr(items, p)])
            p += 1
            if o.variant == "Some":
                v = o.fields[0]
                best = v if best is None else z3.If(interp._z(v) > interp._z(best), interp._z(v), interp._z(best))
        return NONE() if best is None else Some(best)

    def find_map(m, args, raw):
        it = deref(args[0])
        items, p, end = it.fields
        while p < end:
            o = _closure(m, raw, [Ptr([args[1]], 0), Ptr(items, p)])
            p += 1
            if o.variant == "Some":
                return o
        return NONE()

    def and_then(m, args, raw):
        v = args[0]
        return _closure(m, raw, [args[1], v.fields[0]]) if v.variant == "Some" else NONE()

    def bool_then(m, args, raw):
        return Some(_closure(m, raw, [args[1]])) if args[0] is True else NONE()

    def map_or_else(m, args, raw):
        v = args[0]
        cl = re.findall(r"\{closure@[^}]*\}", raw)
        if v.variant == "Some":
            mf = re.search(r"\{(<[^{}]+>::\w+|[\w:<>& ]+::to_owned)\}", raw)
            return RStr(text_of(m, v.fields[0]))          # the mapper is ToOwned::to_owned
        return m.run(m.index[cl[0]], [args[1]])

    def opt_map(m, args, raw):
        v = args[0]
        if v.variant != "Some":
            return v
        if "to_owned" in raw:
            return Some(RStr(text_of(m, v.fields[0])))
        cl = re.findall(r"\{closure@[^}]*\}", raw)
        if cl:
            return Some(m.run(m.index[cl[-1]], [args[1], v.fields[0]]))
        raise Unsupported("Option::map " + raw[:80])

    def values_map(m, args, raw):
        return Struct("ValuesMapped", [list(deref(args[0]).fields[0])])

    orig_collect = models.EXACT.get("<Map as Iterator>::collect")

    def map_collect(m, args, raw):
        v = deref(args[0])
        if isinstance(v, Struct) and v.ty == "ValuesMapped":
            return VecObj(list(v.fields[0]))
        return orig_collect(m, args, raw)

    for k, f in (("<Iter as Iterator>::flat_map", flat_map), ("<FlatMap as Iterator>::max", imax), ("<Iter as Iterator>::find_map", find_map), ("Option::and_then", and_then),
                 ("bool::then", bool_then), ("Option::map_or_else", map_or_else), ("Option::map", opt_map), ("<ValuesRef as Iterator>::map", values_map),
                 ("<Map as Iterator>::collect", map_collect),
                 ("Result::map_err", lambda m, a, raw: a[0])):
        models.EXACT[k] = f
    models.PATTERNS.insert(0, (re.compile(r"^(Arg|Command)::(new|version|about|arg|short|long|help|value_parser|action|num_args|value_name|trailing_var_arg|require_equals|overrides_with|default_missing_value|default_missing_values|hide|alias|visible_alias|conflicts_with)$|_infer_ValueParser_for|ValueParser"),
                               lambda m, a, raw: Opaque("clap")))
    nat = {"Command::try_get_matches_from": lambda m, a: Ok(Struct("Matches", [])),
           "ArgMatches::get_one": get_one, "ArgMatches::get_flag": get_flag, "ArgMatches::contains_id": contains_id, "ArgMatches::indices_of": indices_of,
           "ArgMatches::get_many": get_many, "<Indices as DoubleEndedIterator>::next_back": lambda m, a: (Some(deref(a[0]).fields[0].pop()) if deref(a[0]).fields[0] else NONE()),
           "Option::copied": lambda m, a: (Some(deref(a[0].fields[0])) if a[0].variant == "Some" else NONE()),
           "<ValuesRef as ExactSizeIterator>::len": lambda m, a: len(deref(a[0]).fields[0]), "ExactSizeIterator::len": lambda m, a: len(deref(a[0]).fields[0]),
           "vars_os": lambda m, a: Opaque("vars"), "<VarsOs as Iterator>::collect": lambda m, a: Opaque("env"),
           "MaxCharsCommandSizeLimiter::new_system": lambda m, a: Struct("MaxCharsCommandSizeLimiter", [0, SYSTEM_BUDGET]),
           "File::open": lambda m, a: Ok(Struct("FileV", [text_of(m, a[0])])), "stdin": lambda m, a: Struct("StdinV", []),
           "BufReader::new": lambda m, a: Struct("BufReader", [a[0]]), "Vec::with_capacity": lambda m, a: VecObj(),
           "process_input": process_input, "<Option<usize> as PartialOrd>::gt": opt_gt,
           "Option::as_ref": lambda m, a: (Some(Ptr(deref(a[0]).fields, 0)) if deref(a[0]).variant == "Some" else NONE()),
           "<Option<String> as Clone>::clone": lambda m, a: deref(a[0]), "Option::is_none": lambda m, a: deref(a[0]).variant == "None",
           "OsStr::to_string_lossy": lambda m, a: a[0], "<Cow as Deref>::deref": lambda m, a: a[0], "str::chars": lambda m, a: a[0],
           "<Chars as Iterator>::count": lambda m, a: _osval(a[0]).length,          # ASCII words here: characters = bytes (c04_batching makes them differ)
           "RangeInclusive::new": lambda m, a: Struct("RangeInclusive", [a[0], a[1]]),
           "_eprint": lambda m, a: UNIT, "io::_eprint": lambda m, a: UNIT, "Arguments::from_str": lambda m, a: Opaque("fmt")}
    m = Machine(funcs, index, enums, models, natives=nat, max_steps=2000000)
    allpos = list(pos.values())
    # a command is always given (the built-in echo goes through vec![..] -> Box::new_uninit, not modelled; c04_batching covers CommandBuilderOptions::new)
    m.base_constraints = [has["cmd"]] + [z3.And(p >= 1, p <= 9) for p in allpos] + [z3.Distinct(*allpos), val["n"] >= 1, val["n"] <= 9, val["L"] >= 1, val["L"] <= 9,
                                                                         val["s"] >= 100, val["s"] <= 100000, val["d"] >= 0, val["d"] <= 255]
    m.pending = [[]]
    t0 = time.time()
    while m.pending:
        m.reset_path(m.pending.pop())
        state.update(has={}, pi=None)
        try:
            r = m.call("do_xargs", [SliceRef([RStr("xargs")])])
        except RustPanic as e:
            res["violations"].append({"what": "panic: " + str(e)[:100], "options": dict(state["has"])})
            res["paths"] += 1
            continue
        except Unsupported as e:
            res["unsupported"][str(e)[:110]] = res["unsupported"].get(str(e)[:110], 0) + 1
            continue
        except PathAbort:
            continue
        res["paths"] += 1
        h = state["has"]
        given = sorted(k for k, v in h.items() if v)
        bad = []
        if state["pi"] is None:
            if r.variant == "Ok":
                bad.append("do_xargs returned Ok without processing the input")
            res["paths"] += 0
        else:
            bo, reader, ipo = state["pi"]
            def unbox(x):
                x = deref(x)
                for _ in range(6):
                    if isinstance(x, BoxObj):
                        x = x.cell[0]
                    elif isinstance(x, Ptr):
                        x = x.load()
                    else:
                        break
                return x
            lims = [unbox(x) for x in bo.fields[2].fields[0].items]

            def prove(claim, what):
                res["checks"] += 1
                s = z3.Solver()
                for c in m.base_constraints + m.pc: s.add(c)
                s.add(z3.Not(claim))
                if s.check() == z3.sat:
                    bad.append("%s (witness %s)" % (what, s.model()))
            kinds = [l.ty for l in lims]
            sysl = [l for l in lims if l.ty == "MaxCharsCommandSizeLimiter" and isinstance(l.fields[1], int) and l.fields[1] == SYSTEM_BUDGET]
            # the order in which the limiters were installed (c04_batching builds its chain in this order: the first limiter that refuses decides between "flush" and the -x abort)
            order = tuple({"MaxArgsCommandSizeLimiter": "n", "MaxLinesCommandSizeLimiter": "L"}.get(l.ty, "sys" if l in sysl else "s") for l in lims)
            res.setdefault("orders", {}).setdefault(",".join(sorted(order)), set()).add(order)
            if len(sysl) != 1:
                bad.append("the system command-line limit is installed %d times (limiters %r)" % (len(sysl), kinds))
            user_s = [l for l in lims if l.ty == "MaxCharsCommandSizeLimiter" and l not in sysl]
            if h.get("s"):
                if len(user_s) != 1: bad.append("-s given, %d user size limiters" % len(user_s))
                else: prove(interp._z(user_s[0].fields[1]) == val["s"], "-s limiter has another value")
            elif user_s:
                bad.append("a user size limiter without -s")
            # mode per normalize_options (C20's subject): here only consistency between what it returned and what is installed
            nl = [l for l in lims if l.ty == "MaxArgsCommandSizeLimiter"]
            ll = [l for l in lims if l.ty == "MaxLinesCommandSizeLimiter"]
            ma, ml = ipo.fields[1], ipo.fields[2]
            if (ma.variant == "Some") != (len(nl) == 1) or len(nl) > 1:
                bad.append("max_args %s but %d -n limiters" % (ma.variant, len(nl)))
            elif nl:
                prove(interp._z(nl[0].fields[1]) == interp._z(ma.fields[0]), "-n limiter and max_args differ")
            if (ml.variant == "Some") != (len(ll) == 1) or len(ll) > 1:
                bad.append("max_lines %s but %d -L limiters" % (ml.variant, len(ll)))
            elif ll:
                prove(interp._z(ll[0].fields[1]) == interp._z(ml.fields[0]), "-L limiter and max_lines differ")
            only = [k for k in ("n", "L", "I") if h.get(k)]
            if only == ["n"]:
                if not nl: bad.append("-n alone installs no -n limiter")
                else: prove(interp._z(nl[0].fields[1]) == val["n"], "-n limiter has another value")
            if only == ["L"]:
                if not ll: bad.append("-L alone installs no -L limiter")
                else: prove(interp._z(ll[0].fields[1]) == val["L"], "-L limiter has another value")
            if only == ["I"] and not (nl and isinstance(nl[0].fields[1], int) and nl[0].fields[1] == 1):
                bad.append("-I alone does not limit an invocation to one line")
            repl = bo.fields[5]
            if only == ["I"] and deref(repl).variant != "Some":
                bad.append("-I alone: no replacement string reaches the builder")
            if not h.get("I") and deref(repl).variant == "Some":
                bad.append("replacement string without -I")
            # reader selection
            want_bytes = bool(h.get("d") or h.get("null") or deref(repl).variant == "Some")
            is_bytes = reader.ty == "ByteDelimitedArgumentReader" if isinstance(reader, Struct) else "Byte" in str(reader)
            if is_bytes != want_bytes:
                bad.append("%s reader with options %r" % ("byte-delimited" if is_bytes else "whitespace", given))
            if ipo.fields[0] != bool(h.get("x")): bad.append("-x not passed on")
            if ipo.fields[3] != bool(h.get("r")): bad.append("-r not passed on")
            src = reader.fields[0] if isinstance(reader, Struct) and reader.fields else None
        for w in bad:
            res["violations"].append({"what": w, "options": given})
        if len(res["samples"]) < 3 and state["pi"] is not None and len(given) >= 3:
            res["samples"].append({"options": given, "limiters": [l.ty for l in lims]})
    res["wall_s"] = round(time.time() - t0, 2)
    res["solver_calls"] = m.stats["solver_calls"]
    res["functions_executed"] = sorted(m.executed)
    return res


if __name__ == "__main__":
    funcs, index, enums, secs, _ = loader.load(os.environ.get("FINDUTILS_REPO", "/repo"), None)
    r = explore(funcs, index, enums)
    v = r.pop("violations")
    print(json.dumps({k: r[k] for k in ("kind", "paths", "checks", "solver_calls", "wall_s", "unsupported", "samples")})[:1500])
    print(len(v), "violations")
    seen = set()
    for x in v:
        k = x["what"][:50]
        if k in seen: continue
        seen.add(k); print("  ", x["what"][:200], x["options"])
