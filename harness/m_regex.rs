// harnesses for module m_regex (included into /repo under cfg(kani))
