// Harness support living in find::matchers (re-exports for find/mod.rs harnesses) and C01 action flags.
use super::*;
pub(crate) use super::entry::verif_kani as common;
pub(crate) use super::prune::verif_kani::PruneProbe;
use common::{fmt_stub, hae_stub, he_stub, noop_stub, Deps};

/// Always-true leaf usable from find/mod.rs harnesses.
pub struct VerifTrue;
impl Matcher for VerifTrue { fn matches(&self, _: &WalkEntry, _: &mut MatcherIO) -> bool { true } }

// @harness props=C01 tier=quick cost=30
// @exec has_side_effects of Printer, DeleteMatcher, PruneMatcher, QuitMatcher, TrueMatcher, FalseMatcher, Ls, Printf, Single/MultiExecMatcher, TypeMatcher-like tests
// @sym which primary (index)
// @bounds one primary
/// The "is an action" table behind the implicit -print: -print/-print0/-printf/-ls/-delete/-exec* are actions; -prune, -quit and tests are not.
#[kani::proof]
#[kani::unwind(4)]
#[kani::stub(alloc::fmt::format, fmt_stub)]
#[kani::stub(alloc::raw_vec::handle_error, he_stub)]
#[kani::stub(std::alloc::handle_alloc_error, hae_stub)]
#[kani::stub(std::rt::thread_cleanup, noop_stub)]
fn c01_action_flags() {
    let which: u8 = kani::any();
    kani::assume(which < 12);
    let (got, want) = match which {
        0 => (Printer::new(PrintDelimiter::Newline, None).has_side_effects(), true),
        1 => (Printer::new(PrintDelimiter::Null, None).has_side_effects(), true),
        2 => (DeleteMatcher::new().has_side_effects(), true),
        3 => (PruneMatcher::new().has_side_effects(), false),
        4 => (QuitMatcher.has_side_effects(), false),
        5 => (TrueMatcher.has_side_effects(), false),
        6 => (FalseMatcher.has_side_effects(), false),
        7 => { let m = Ls::new(None); let r = m.has_side_effects(); std::mem::forget(m); (r, true) }
        8 => { let m = printf::verif_kani::printf_empty(); let r = m.has_side_effects(); std::mem::forget(m); (r, true) }
        9 => { let m = exec::verif_kani::single_exec_empty(); let r = m.has_side_effects(); std::mem::forget(m); (r, true) }
        10 => { let m = exec::verif_kani::multi_exec_empty(); let r = m.has_side_effects(); std::mem::forget(m); (r, true) }
        _ => (EmptyMatcher::new().has_side_effects(), false),
    };
    assert!(got == want);
    kani::cover!(which == 8); kani::cover!(which == 4); kani::cover!(which == 10);
}
#[kani::proof]
#[kani::unwind(4)]
#[kani::stub(alloc::fmt::format, fmt_stub)]
fn c01_action_flags_canary() {
    assert!(!DeleteMatcher::new().has_side_effects()); // must FAIL
}
