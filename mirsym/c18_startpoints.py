#!/usr/bin/env python3
"""C18 (+ C02's status accumulation, C01's -quit across starting points): MIR-level symbolic execution of
parse_args + do_find (with the real expression parser behind it) on symbolic command lines."""
import itertools, json, os, sys, time, z3
import loader, models, interp
from interp import Machine, SliceRef, RStr, Ptr, Struct, Enum, Opaque, BoxObj, VecObj, Tuple, Unsupported, RustPanic, PathAbort, UNIT
from reference import ref_parse, Reject

VOCAB = ["-H", "-L", "-P", "-O2", "--", "a", "./b/", "-", "..", "(old)", "!keep", "!", "(", "-print", "-true", "-quit", "-bogus"]
FLAGS = {"-H": "Roots", "-L": "Always", "-P": "Never", "-O2": None}


def reference(words):
    """-> dict(accept, follow, paths) from the property: leading -H/-L/-P/-O* are options, '--' ends them; operands up to the first
    token that starts an expression ('-x', '!', '('); none => '.'; the rest must be a sentence of the expression grammar"""
    i, follow = 0, "Never"
    while i < len(words):
        w = words[i]
        if w in FLAGS:
            if FLAGS[w]: follow = FLAGS[w]
            i += 1
        elif w == "--":
            i += 1
            break
        else:
            break
    paths = []
    while i < len(words) and (words[i] == "-" or not words[i].startswith("-")) and words[i] not in ("!", "("):
        paths.append(words[i]); i += 1
    if not paths:
        paths = ["."]
    try:
        ref_parse([w for w in words[i:]])
    except Reject as r:
        return {"accept": False, "why": str(r)}
    return {"accept": True, "follow": follow, "paths": paths}


def explore(n, funcs, index, enums, vocab=VOCAB):
    res = {"paths": 0, "inputs_covered": 0, "violations": [], "unsupported": {}, "samples": []}
    toks = [z3.Int("tok%d" % i) for i in range(n)]
    maxcalls = n + 1
    codes = [z3.Int("code%d" % i) for i in range(maxcalls)]       # what process_dir returns for the k-th starting point
    quits = [z3.Bool("quit%d" % i) for i in range(maxcalls)]      # whether the expression quit there
    state = {}

    def process_dir(m, args):
        k = len(state["calls"])
        d = models.deref(args[0])
        cfg = models.deref(args[1])
        state["calls"].append(d)
        state["follow"] = cfg.fields[9].variant
        c = m.decide_int(codes[k], [0]) if k < maxcalls else 0
        state["codes"].append(0 if c == 0 else 1)
        if k < maxcalls and m.decide(quits[k]):
            args[4].store(True)
            state["quit_at"] = k
        return 0 if c == 0 else codes[k]

    natives = {"process_dir": process_dir, "print_help": lambda m, a: UNIT, "print_version": lambda m, a: UNIT,
               "parse_str_to_newer_args": lambda m, a: models.NONE()}
    m = Machine(funcs, index, enums, models, natives=natives)
    m.base_constraints = [z3.And(t >= 0, t < len(vocab)) for t in toks] + [z3.And(c >= 0, c <= 2) for c in codes]
    m.pending = [[]]
    t0 = time.time()
    while m.pending:
        m.reset_path(m.pending.pop())
        state.update(calls=[], codes=[], follow=None, quit_at=None)
        args = SliceRef([RStr(sym=toks[i], vocab=vocab) for i in range(n)])
        try:
            r = m.call("do_find", [args, Opaque("deps")])
        except RustPanic as e:
            res["violations"].append({"what": "panic: %s" % str(e)[:100], "tokens": None})
            res["paths"] += 1
            continue
        except Unsupported as e:
            res["unsupported"][str(e)[:100]] = res["unsupported"].get(str(e)[:100], 0) + 1
            continue
        except PathAbort:
            continue
        res["paths"] += 1
        # enumerate the inputs of this path (tokens not pinned are free)
        s = z3.Solver()
        for c in m.base_constraints + m.pc: s.add(c)
        assert s.check() == z3.sat
        mod = s.model()
        pinned, free = {}, []
        for i, t in enumerate(toks):
            v = mod.eval(t, model_completion=True).as_long()
            s.push(); s.add(t != v)
            if s.check() == z3.sat: free.append(i)
            s.pop()
            pinned[i] = v
        choices = [range(len(vocab)) if i in free else [pinned[i]] for i in range(n)]
        for combo in itertools.product(*choices):
            if free:
                s.push()
                for i in free: s.add(toks[i] == combo[i])
                ok = s.check() == z3.sat
                s.pop()
                if not ok: continue
            words = [vocab[c] for c in combo]
            want = reference(words)
            res["inputs_covered"] += 1
            bad = None
            if r.variant == "Err":
                if want["accept"]:
                    bad = "rejected, but the command line is well formed"
            elif not want["accept"]:
                bad = "accepted, but the expression is malformed (%s)" % want["why"]
            else:
                # calls carry RStr values: concrete text, or a symbolic token -> resolve through this completion
                got_paths = []
                for p in state["calls"]:
                    if getattr(p, "sym", None) is None:          # concrete text (RStr, or PStr when natives_fs' path models are loaded in the same process)
                        got_paths.append(p.text)
                    else:
                        idx = [i for i, t in enumerate(toks) if t.eq(p.sym)][0]
                        got_paths.append(words[idx])
                exp = want["paths"]
                if state["quit_at"] is not None:
                    exp = exp[: state["quit_at"] + 1]
                if got_paths != exp:
                    bad = "starting points walked %r, expected %r" % (got_paths, exp)
                elif state["follow"] != want["follow"]:
                    bad = "follow mode %s, expected %s" % (state["follow"], want["follow"])
                else:
                    ret = r.fields[0]
                    any_fail = any(c != 0 for c in state["codes"])
                    rs = z3.Solver()
                    for c in m.base_constraints + m.pc: rs.add(c)
                    rs.add((z3.IntVal(ret) if isinstance(ret, int) else ret) != 0 if not any_fail else (z3.IntVal(ret) if isinstance(ret, int) else ret) == 0)
                    if rs.check() == z3.sat:
                        bad = "exit status %s with per-starting-point statuses %s" % ("zero" if any_fail else "non-zero", state["codes"])
            if bad:
                res["violations"].append({"what": bad, "tokens": words})
        if len(res["samples"]) < 4 and r.variant == "Ok" and len(state["calls"]) >= 2:
            res["samples"].append({"tokens": [vocab[pinned[i]] for i in range(n)], "walked": [str(p) for p in state["calls"]], "codes": state["codes"], "quit_at": state["quit_at"]})
    res["wall_s"] = round(time.time() - t0, 2)
    res["solver_calls"] = m.stats["solver_calls"]
    res["functions_executed"] = sorted(m.executed)
    return res


if __name__ == "__main__":
    n = int(sys.argv[1]) if len(sys.argv) > 1 else 2
    text = open(sys.argv[2]).read() if len(sys.argv) > 2 else None
    funcs, index, enums, secs, _ = loader.load(os.environ.get("FINDUTILS_REPO", "/repo"), text)
    r = explore(n, funcs, index, enums)
    v = r.pop("violations")
    print(json.dumps({k: r[k] for k in ("paths", "inputs_covered", "solver_calls", "wall_s", "unsupported")}))
    print(json.dumps(r["samples"][:2]))
    print(len(v), "violations")
    seen = set()
    for x in v:
        k = x["what"][:50]
        if k in seen: continue
        seen.add(k); print("  ", x)
