// C13: -lname sees a symbolic link only where the link itself is the entry.
use super::*;
use crate::find::matchers::entry::verif_kani::*;
use crate::find::matchers::Follow;
use std::path::Path;

static mut IS_LINK: bool = false;
static mut NREADLINK: usize = 0;
fn readlink_stub<P: AsRef<Path>>(_p: P) -> std::io::Result<PathBuf> {
    unsafe { NREADLINK += 1; if IS_LINK { Ok(PathBuf::from("t")) } else { Err(std::io::Error::from_raw_os_error(libc::EINVAL)) } }
}
fn pm_stub(_p: &Pattern, _s: &str) -> bool { true }

// @harness props=C13 tier=quick cost=150 flags=nomem
// @exec LinkNameMatcher::matches, read_link_target, WalkEntry::{file_type,metadata,path}, Follow::metadata_at_depth
// @sym world (lstat/stat records, errno ENOENT), follow P/H/L, depth 0..1; readlink succeeds iff lstat says symlink
// @bounds one path; depth <= 1; pattern matching itself cut (Pattern::matches -> true, i.e. pattern '*')
// @assume kernel contract for stat vs lstat; readlink() = EINVAL on non-links
// @replay lname_follow
/// With a pattern that matches everything, -lname is true exactly when the entry itself is a link:
/// lstat says symlink and (the follow mode does not apply or the link is dangling).
#[kani::proof]
#[kani::unwind(3)]
#[kani::stub(alloc::fmt::format, fmt_stub)]
#[kani::stub(<std::io::Stderr as std::io::Write>::write_fmt, wf_stub)]
#[kani::stub(std::rt::thread_cleanup, noop_stub)]
#[kani::stub(std::fs::read_link, readlink_stub)]
#[kani::stub(std::fs::metadata, stat_stub)]
#[kani::stub(std::fs::symlink_metadata, lstat_stub)]
#[kani::stub(Pattern::matches, pm_stub)]
fn c13_lname_follow_guard() {
    let (lst, _sst, s_ok, _s_err) = any_world(&[libc::ENOENT]);
    let l_is_link = is_type(lst.st_mode, libc::S_IFLNK);
    unsafe { IS_LINK = l_is_link; NREADLINK = 0; }
    let follow = any_follow();
    let depth: usize = kani::any();
    kani::assume(depth <= 1);
    let entry = WalkEntry::new("a", depth, follow);
    let deps = Deps::new();
    let mut io = MatcherIO::new(&deps);
    let m = LinkNameMatcher { pattern: crate::find::matchers::glob::verif_kani::pattern_none() };
    let got = m.matches(&entry, &mut io);
    let entry_is_link = l_is_link && (!follow.follow_at_depth(depth) || !s_ok);
    assert!(got == entry_is_link);
    kani::cover!(got && follow == Follow::Always);
    kani::cover!(!got && l_is_link && follow == Follow::Roots && depth == 0);
    kani::cover!(got && follow == Follow::Roots && depth == 1);
    std::mem::forget(entry);
}
#[kani::proof]
#[kani::unwind(3)]
#[kani::stub(alloc::fmt::format, fmt_stub)]
#[kani::stub(<std::io::Stderr as std::io::Write>::write_fmt, wf_stub)]
#[kani::stub(std::rt::thread_cleanup, noop_stub)]
#[kani::stub(std::fs::read_link, readlink_stub)]
#[kani::stub(std::fs::metadata, stat_stub)]
#[kani::stub(std::fs::symlink_metadata, lstat_stub)]
#[kani::stub(Pattern::matches, pm_stub)]
fn c13_lname_follow_guard_canary() {
    let (lst, _sst, _s_ok, _s_err) = any_world(&[libc::ENOENT]);
    let l_is_link = is_type(lst.st_mode, libc::S_IFLNK);
    unsafe { IS_LINK = l_is_link; }
    let entry = WalkEntry::new("a", 0, any_follow());
    let deps = Deps::new();
    let mut io = MatcherIO::new(&deps);
    let m = LinkNameMatcher { pattern: crate::find::matchers::glob::verif_kani::pattern_none() };
    assert!(m.matches(&entry, &mut io) == l_is_link); // ignores the follow mode: must FAIL
    std::mem::forget(entry);
}
